//! Family `dispatch` (C03, also run by C01): pipelined request sequences through the real blocking TCP server,
//! async TCP server and WebSocket server (inline and off-reader routes), each once with a middleware-wrapped router
//! and once with a bare router (so both the owned and the borrowing entry point of every built-in handler are
//! reached on the wire); raw clients with an independent frame codec; per-request handler outcomes are probed
//! in-process and handed to the model; an independent expectation of every built-in handler kind's outcome
//! (accepted body formats, decodability of the raw bytes, the registered closure's result) is computed by the
//! harness itself from the route table it registered.
use futures_util::{SinkExt, StreamExt};
use repe::constants::ErrorCode;
use repe::server::{HandlerErased, JsonTypedHandler, Middleware, Next};
use repe::{CallContext, Message, MessageView, Registry, RepeError, Router};
use repe_verif_harness::frames::{RawFrame, RawHeader};
use repe_verif_harness::*;
use serde::{Deserialize, Serialize};
use serde_json::{json, Value};
use std::collections::{BTreeMap, HashSet};
use std::io::{Read, Write};
use std::sync::{Arc, Mutex, RwLock};
use std::time::{Duration, Instant};

const WATCHDOG: Duration = Duration::from_secs(25);
/// how long a response may take to arrive with no further request sent before that is reported
const GRACE: Duration = Duration::from_secs(8);
/// how long after the first sentinel was answered (every earlier frame was read and every inline request answered)
/// off-reader responses and handler exits may still be outstanding before that is reported
const AFTER_S1: Duration = Duration::from_secs(10);

#[derive(Clone, Default)]
struct Counters {
    /// middleware level (wrapped routers only): handler pipeline entered, keyed by hex(query)
    started: Arc<Mutex<BTreeMap<String, u64>>>,
    done: Arc<Mutex<u64>>,
    /// closure level (every router): the registered closure ran, keyed by route name
    closures: Arc<Mutex<BTreeMap<String, u64>>>,
    /// `/gate_b` handlers park here until the scenario opens the gate
    gate: Arc<(Mutex<bool>, std::sync::Condvar)>,
}
impl Counters {
    fn closure_count(&self, k: &str) -> u64 {
        self.closures.lock().unwrap().get(k).copied().unwrap_or(0)
    }
    fn open_gate(&self) {
        *self.gate.0.lock().unwrap() = true;
        self.gate.1.notify_all();
    }
    fn wait_gate(&self) {
        let g = self.gate.0.lock().unwrap();
        let _ = self.gate.1.wait_timeout_while(g, Duration::from_secs(30), |open| !*open);
    }
    fn closure(&self, k: &str) {
        *self.closures.lock().unwrap().entry(k.to_string()).or_insert(0) += 1;
    }
    fn total_done(&self) -> u64 {
        *self.done.lock().unwrap()
    }
    fn total_closures(&self) -> u64 {
        self.closures.lock().unwrap().values().sum()
    }
}

struct CountingMw(Counters);
impl Middleware for CountingMw {
    fn handle(&self, req: &Message, next: Next<'_>) -> Result<Message, RepeError> {
        let key = hex(&req.query);
        *self.0.started.lock().unwrap().entry(key).or_insert(0) += 1;
        let r = next.run(req);
        *self.0.done.lock().unwrap() += 1;
        r
    }
}

/// Closure-form middleware (the blanket `impl Middleware for F`): refuses with `Err`, answers by itself, is slow,
/// or forwards.
fn gate_mw<'a>(req: &'a Message, next: Next<'a>) -> Result<Message, RepeError> {
    if req.body.starts_with(b"#mw-err") {
        return Err(match req.body.get(7) {
            Some(l) => repe_error_by_letter(*l, req.body.get(8).copied().unwrap_or(0)).0,
            None => RepeError::ServerError { code: ErrorCode::ResourceExhausted, message: "gate refused".into() },
        });
    }
    if req.body.starts_with(b"#mw-own") {
        return Ok(Message::builder().id(req.header.id).query_format_code(1).body_utf8("short").build());
    }
    if req.query == b"/slow" {
        std::thread::sleep(Duration::from_millis(8));
    }
    let _ = (next.ctx().map(|c| c.is_cancelled()), next.peer().map(|p| p.is_connected()));
    next.run(req)
}

#[derive(Serialize, Deserialize, Debug, Clone)]
struct TIn {
    a: i64,
    b: String,
}
#[derive(Serialize, Deserialize, Debug)]
struct TOut {
    sum: i64,
    echo: String,
}

#[derive(Default, Serialize, Deserialize, repe::RepeStruct)]
#[repe(methods(hello(&self) -> String, add(&self, v: Vec<i64>) -> i64))]
struct Device {
    gain: i32,
    label: String,
}
impl Device {
    fn hello(&self) -> String {
        "hi".into()
    }
    fn add(&self, v: Vec<i64>) -> i64 {
        v.iter().fold(0i64, |a, b| a.wrapping_add(*b))
    }
}

/// A derive-generated struct mount that is only ever READ (requests to it carry no body), so its answers are known.
#[derive(Serialize, Deserialize, repe::RepeStruct)]
#[repe(methods(hello(&self) -> String, add(&self, v: Vec<i64>) -> i64))]
struct Consts {
    gain: i32,
    label: String,
}
impl Consts {
    fn hello(&self) -> String { "hi".into() }
    fn add(&self, v: Vec<i64>) -> i64 { v.iter().sum() }
}
const CONST_PATHS: &[(&str, &str, u32)] = &[("/const/gain", "7", 0), ("/const/label", "\"c\"", 0), ("/const/hello", "\"hi\"", 0), ("/const/nope", "", 6), ("/const/gain/x", "", 6), ("/const/add", "", 4)];
/// A registry document 20 objects deep, read only: `/reg/deep/a/a/…`.
const DEEP_LEVELS: usize = 20;
fn deep_doc(levels: usize) -> Value {
    let mut v = json!({"leaf": levels});
    for d in (0..levels).rev() { v = json!({"a": v, "d": d}); }
    v
}
/// A registered exact route as long as the "too long to exist" unknown paths.
fn long_route() -> &'static str {
    static L: std::sync::OnceLock<String> = std::sync::OnceLock::new();
    L.get_or_init(|| format!("/long/{}", "L".repeat(9000)))
}

/// Byte offsets at which code that quotes, truncates or buffers a path might cut it.
const BOUNDARIES: [usize; 8] = [16, 32, 64, 128, 256, 512, 1024, 4096];
const WIDE: [&str; 3] = ["\u{e9}", "\u{4e16}", "\u{1f600}"]; // 2-, 3- and 4-byte characters
/// A path (below `prefix`) in which a multi-byte character straddles byte offset `b`: it starts `j` bytes before it.
fn straddle_path(prefix: &str, b: usize, ch: &str, j: usize, tail: &str) -> String {
    let start = b - j.clamp(1, ch.len() - 1);
    let mut p = String::from(prefix);
    if !p.ends_with('/') { p.push('/'); }
    while p.len() < start { p.push('s'); }
    p.push_str(ch);
    p.push_str(tail);
    p
}
/// Registered exact routes with a 2-byte character across each boundary (the positive siblings of the unknown ones).
fn straddle_routes() -> &'static [String] {
    static L: std::sync::OnceLock<Vec<String>> = std::sync::OnceLock::new();
    L.get_or_init(|| BOUNDARIES.iter().map(|b| straddle_path("/", *b, WIDE[(*b / 16) % 3], 1, "")).collect())
}
fn gen_straddle_path(r: &mut Rng) -> String {
    let b = *r.pick(&BOUNDARIES);
    let ch = *r.pick(&WIDE);
    let j = r.range(1, ch.len() as u64 - 1) as usize;
    match r.below(6) {
        // registered sibling
        0 => r.pick(straddle_routes()).clone(),
        // unknown exact path; below a registry / struct / tree mount (their errors quote the path too)
        1 | 2 => straddle_path("/", b, ch, j, *r.pick(&["", "x", "/t"])),
        3 => straddle_path("/reg/", b, ch, j, ""),
        4 => straddle_path("/dev/", b, ch, j, ""),
        _ => straddle_path("/tree/n/", b, ch, j, ""),
    }
}

/// A struct mount that is a binary tree 40 levels deep (children `n` and `m` at every node) and stateless: a path of
/// existing segments is answered with its depth and the segments the handler was given, anything else is an invalid
/// path. Deep paths (15..40 segments) that exist and deep paths whose k-th segment does not exist both occur.
struct Tree;
const TREE_DEPTH: usize = 40;
impl repe::RepeStruct for Tree {
    fn repe_handle(&mut self, segments: &[&str], body: Option<Value>) -> Result<Option<Value>, repe::StructError> {
        if segments.len() > TREE_DEPTH || segments.iter().any(|s| *s != "n" && *s != "m") {
            return Err(repe::StructError::InvalidPath { path: segments.iter().map(|s| format!("/{s}")).collect() });
        }
        Ok(Some(match body {
            None => json!({"depth": segments.len(), "segs": segments}),
            Some(b) => json!({"depth": segments.len(), "segs": segments, "body": b}),
        }))
    }
}
/// What the tree answers for the pointer below its mount, by RFC 6901 (split on '/', `~1` then `~0` unescaped).
fn tree_expect(relative: &str, body: Option<Value>) -> Exp {
    let segs: Vec<String> = if relative.is_empty() { vec![] } else { relative[1..].split('/').map(|t| t.replace("~1", "/").replace("~0", "~")).collect() };
    if segs.len() > TREE_DEPTH || segs.iter().any(|s| s != "n" && s != "m") {
        return Exp::Ec(6);
    }
    let v = match body {
        None => json!({"depth": segs.len(), "segs": segs}),
        Some(b) => json!({"depth": segs.len(), "segs": segs, "body": b}),
    };
    Exp::Ok { bfmt: 2, body: serde_json::to_vec(&v).unwrap() }
}

/// Every `ErrorCode` variant (a closure may return any of them, `Ok` included).
const ALL_CODES: [(ErrorCode, u32); 11] = [(ErrorCode::Ok, 0), (ErrorCode::VersionMismatch, 1), (ErrorCode::InvalidHeader, 2), (ErrorCode::InvalidQuery, 3), (ErrorCode::InvalidBody, 4),
    (ErrorCode::ParseError, 5), (ErrorCode::MethodNotFound, 6), (ErrorCode::Timeout, 7), (ErrorCode::ResourceExhausted, 8), (ErrorCode::InternalError, 9), (ErrorCode::ApplicationErrorBase, 4096)];
/// The closure error selected by a `"fail"` member: a number picks the variant, anything else the application base.
fn fail_code(v: &Value) -> Option<(ErrorCode, u32)> {
    v.get("fail").map(|f| f.as_u64().map(|n| ALL_CODES[(n % 11) as usize]).unwrap_or((ErrorCode::ApplicationErrorBase, 4096)))
}
const IO_KINDS: [std::io::ErrorKind; 10] = [std::io::ErrorKind::UnexpectedEof, std::io::ErrorKind::BrokenPipe, std::io::ErrorKind::Interrupted, std::io::ErrorKind::WouldBlock, std::io::ErrorKind::TimedOut,
    std::io::ErrorKind::ConnectionReset, std::io::ErrorKind::InvalidData, std::io::ErrorKind::NotFound, std::io::ErrorKind::PermissionDenied, std::io::ErrorKind::Other];
/// A `RepeError` of every variant, selected by a letter (custom handler: second body byte; gate middleware: the byte
/// after `#mw-err`), and the error code the specification assigns to it (written here from the REPE table, not taken
/// from `to_error_code`).
fn repe_error_by_letter(sel: u8, third: u8) -> (RepeError, u32) {
    match sel {
        b'j' => (RepeError::Json(serde_json::from_str::<Value>("{").unwrap_err()), 5),
        b'b' => (RepeError::Beve(beve::from_slice::<Value>(&[]).unwrap_err()), 5),
        b'i' => (RepeError::Io(std::io::Error::new(IO_KINDS[(third % 10) as usize], "io")), 5),
        b'v' => (RepeError::VersionMismatch(3), 1),
        b's' => (RepeError::InvalidSpec(0x1234), 2),
        b'h' => (RepeError::InvalidHeaderLength(10), 2),
        b'l' => (RepeError::LengthMismatch { expected: 5, got: 3 }, 2),
        b't' => (RepeError::BufferTooSmall { need: 10, have: 1 }, 5),
        b'r' => (RepeError::ResponseIdMismatch { expected: 1, got: 2 }, 2),
        b'u' => (RepeError::UnknownEnumValue(9), 5),
        b'f' => (RepeError::UnexpectedBodyFormat { expected: repe::BodyFormat::Beve, got: 2 }, 4),
        b'm' => (RepeError::MessageTooLarge { size: 10, limit: 1 }, 9),
        b'0'..=b'9' | b'a' => { let (c, n) = ALL_CODES[if sel == b'a' { 10 } else { (sel - b'0') as usize }]; (RepeError::ServerError { code: c, message: "by letter".into() }, n) }
        _ => (RepeError::ServerError { code: ErrorCode::Timeout, message: "custom refused".into() }, 7),
    }
}
const ERR_LETTERS: &[u8] = b"jbivshltrufm0123456789a";

const OWN_QUERY: &[u8] = b"/own/query";

/// Custom erased handler: refuses with `Err`, leaves the response query empty (the dispatch layer must echo), or sets
/// its own response query; unusual header fields either way.
struct Custom(Counters);
impl HandlerErased for Custom {
    fn handle(&self, req: &Message) -> Result<Message, RepeError> {
        self.0.closure("/custom");
        if req.body.first() == Some(&b'!') {
            return Err(repe_error_by_letter(req.body.get(1).copied().unwrap_or(0), req.body.get(2).copied().unwrap_or(0)).0);
        }
        let b = Message::builder().id(req.header.id).query_format_code(1).body_bytes(req.body.clone()).body_format_code(1234);
        let mut m = if req.body.first() == Some(&b'e') { b.build() } else { b.query_bytes(OWN_QUERY.to_vec()).build() };
        m.header.reserved = 0xABCD;
        Ok(m)
    }
}

struct Adapter(Counters);
impl JsonTypedHandler for Adapter {
    type In = TIn;
    type Out = TOut;
    fn call(&self, i: TIn) -> Result<TOut, (ErrorCode, String)> {
        self.0.closure("/adapter");
        Ok(TOut { sum: i.a.wrapping_sub(1), echo: i.b })
    }
}

// ------------------------------------------------------------------------------------------
// the route table as this harness registers it (the independent side of every lookup / outcome oracle)
// ------------------------------------------------------------------------------------------
#[derive(Clone, Copy, PartialEq, Eq, Debug)]
enum HK {
    Json,
    JsonCtx,
    Typed,
    TypedCtx,
    Slice,
    SliceRef,
    Adapter,
    Custom,
    Registry,
    Struct,
}
impl HK {
    fn token(self) -> &'static str {
        match self {
            HK::Json => "json",
            HK::JsonCtx => "jsonctx",
            HK::Typed => "typed",
            HK::TypedCtx => "typedctx",
            HK::Slice => "slice",
            HK::SliceRef => "sliceref",
            HK::Adapter => "adapter",
            HK::Custom => "custom",
            HK::Registry => "registry",
            HK::Struct => "struct",
        }
    }
}
#[derive(Clone, Copy, Debug)]
struct RouteSpec {
    path: &'static str,
    hk: HK,
    /// closure variant within the kind
    var: u8,
    blocking: bool,
}
const fn rs(path: &'static str, hk: HK, var: u8, blocking: bool) -> RouteSpec {
    RouteSpec { path, hk, var, blocking }
}
const NONASCII: &str = "/js\u{f6}n/\u{7801}";
const EXACT: &[RouteSpec] = &[
    rs("/json", HK::Json, 0, false),
    rs("/alias", HK::Json, 0, false),
    rs(NONASCII, HK::Json, 0, false),
    rs("/slow", HK::Json, 1, false),
    rs("/__end", HK::Json, 2, false),
    rs("/json_b", HK::Json, 0, true),
    rs("/slow_b", HK::Json, 3, true),
    rs("/panic_b", HK::Json, 4, true),
    rs("/panic", HK::Json, 4, false),
    rs("/gate_b", HK::Json, 5, true),
    rs("/json_ctx", HK::JsonCtx, 0, false),
    rs("/json_ctx_b", HK::JsonCtx, 0, true),
    rs("/push_ctx", HK::JsonCtx, 1, false),
    rs("/typed", HK::Typed, 0, false),
    rs("/typed_b", HK::Typed, 0, true),
    rs("/typed_beve", HK::Typed, 1, false),
    rs("/typed_utf8", HK::Typed, 2, false),
    rs("/typed_raw", HK::Typed, 3, false),
    rs("/typed_ctx", HK::TypedCtx, 0, false),
    rs("/typed_ctx_b", HK::TypedCtx, 0, true),
    rs("/slice", HK::Slice, 0, false),
    rs("/slice_ref", HK::SliceRef, 0, false),
    rs("/adapter", HK::Adapter, 0, false),
    rs("/custom", HK::Custom, 0, false),
];
/// (mount point, kind, variant): struct variant 1 is the stateless 40-level tree
const MOUNTS: &[(&str, HK, u8)] = &[("/reg", HK::Registry, 0), ("/de", HK::Registry, 0), ("/re", HK::Registry, 0), ("/dev", HK::Struct, 0), ("/devrw", HK::Struct, 0), ("/tree", HK::Struct, 1), ("/const", HK::Struct, 2)];

/// The lookup rule the property states (exact path wins; a mount gets its prefix itself or an extension at a '/'
/// boundary; registries before structs, in registration order) — independent of `Router::get`.
fn expected_route(path: &str) -> Option<RouteSpec> {
    if let Some(r) = EXACT.iter().find(|r| r.path == path) {
        return Some(*r);
    }
    if path == long_route() {
        return Some(RouteSpec { path: long_route(), hk: HK::Json, var: 0, blocking: false });
    }
    if let Some(p) = straddle_routes().iter().find(|p| p.as_str() == path) {
        return Some(RouteSpec { path: p.as_str(), hk: HK::Json, var: 0, blocking: false });
    }
    let hit = |m: &str| path == m || (path.starts_with(m) && path.as_bytes().get(m.len()) == Some(&b'/'));
    for want in [HK::Registry, HK::Struct] {
        for (m, hk, var) in MOUNTS {
            if *hk == want && hit(m) {
                return Some(RouteSpec { path: m, hk: *hk, var: *var, blocking: false });
            }
        }
    }
    None
}

fn make_router(c: &Counters, wrapped: bool) -> Router {
    let reg = Arc::new(Registry::new());
    reg.register_value("/a", json!({"b": 1, "list": [1, 2, 3]})).unwrap();
    reg.register_value("/s", json!("text")).unwrap();
    reg.register_value("/deep", deep_doc(DEEP_LEVELS)).unwrap();
    {
        let c2 = c.clone();
        reg.register_function("/f", move |v: Option<Value>| {
            c2.closure("/reg/f");
            Ok(json!({"called": v}))
        })
        .unwrap();
    }
    // two more registries whose prefixes are string prefixes (without a '/' boundary) of `/dev` and `/reg`
    let reg_de = Arc::new(Registry::new());
    reg_de.register_value("/v", json!("from-de")).unwrap();
    let reg_re = Arc::new(Registry::new());
    reg_re.register_value("/v", json!("from-re")).unwrap();
    let mk = |name: &'static str, c: &Counters| {
        let c = c.clone();
        move |v: Value| {
            c.closure(name);
            if name == "/slow" {
                std::thread::sleep(Duration::from_millis(6));
            }
            if let Some((code, _)) = fail_code(&v) {
                return Err((code, format!("{} failed", name)));
            }
            Ok(json!({"route": name, "got": v}))
        }
    };
    let mkctx = |name: &'static str, c: &Counters| {
        let c = c.clone();
        move |ctx: &CallContext, v: Value| {
            c.closure(name);
            // observers of the connection, read while it is being served
            let _ = (ctx.is_cancelled(), ctx.peer().map(|p| (p.is_connected(), p.peer_id())), ctx.method().len());
            if name == "/push_ctx" {
                // re-enters the connection object: pushes a notify to the calling peer while the request is handled
                if let Some(p) = ctx.peer() {
                    let _ = p.send_notify("/progress", repe::NotifyBody::Json(b"1".to_vec()));
                }
            }
            Ok(json!({"route": name, "method": ctx.method(), "got": v}))
        }
    };
    let mkt = |name: &'static str, c: &Counters| {
        let c = c.clone();
        move |i: TIn| -> Result<TOut, (ErrorCode, String)> {
            c.closure(name);
            if i.a == 13 {
                return Err((ErrorCode::InvalidBody, "unlucky".into()));
            }
            Ok(TOut { sum: i.a.wrapping_mul(2), echo: i.b })
        }
    };
    let mktfmt = |name: &'static str, fmt: repe::BodyFormat, c: &Counters| {
        let c = c.clone();
        move |i: TIn| -> Result<repe::TypedResponse<TOut>, (ErrorCode, String)> {
            c.closure(name);
            let t = TOut { sum: i.a, echo: i.b };
            Ok(match fmt {
                repe::BodyFormat::Beve => repe::TypedResponse::beve(t),
                repe::BodyFormat::Utf8 => repe::TypedResponse::utf8(t),
                repe::BodyFormat::RawBinary => repe::TypedResponse::raw_binary(t),
                repe::BodyFormat::Json => repe::TypedResponse::json(t),
                other => repe::TypedResponse::new(t, other),
            })
        }
    };
    let mktctx = |name: &'static str, c: &Counters| {
        let c = c.clone();
        move |_ctx: &CallContext, i: TIn| -> Result<TOut, (ErrorCode, String)> {
            c.closure(name);
            Ok(TOut { sum: i.a.wrapping_add(1), echo: i.b })
        }
    };
    let c_sl = c.clone();
    let c_slr = c.clone();
    let c_end = c.clone();
    let c_slowb = c.clone();
    let c_panic = c.clone();
    let c_panic2 = c.clone();
    let c_gate = c.clone();
    let mut router = Router::new()
        .with_json("/json", mk("/json", c))
        .with("/alias", mk("/alias", c))
        .with_json(NONASCII, mk(NONASCII, c))
        .with_json("/slow", mk("/slow", c))
        .with_json("/__end", move |_v| {
            c_end.closure("/__end");
            Ok(json!("end"))
        })
        .with_typed::<TIn, TOut, _>("/typed", mkt("/typed", c))
        .with_typed::<TIn, TOut, _>("/typed_beve", mktfmt("/typed_beve", repe::BodyFormat::Beve, c))
        .with_json_ctx("/json_ctx", mkctx("/json_ctx", c))
        .with_registry("/reg", reg)
        .with_typed_slice::<f64, f64, _>("/slice", move |v: Vec<f64>| {
            c_sl.closure("/slice");
            Ok(v.iter().map(|x| x * 2.0).collect())
        });
    // the counting middleware is registered in place, after some routes and mounts and before the others
    if wrapped {
        router.register_middleware(CountingMw(c.clone()));
    }
    router.register_registry("/re", reg_re);
    let (router, _dev) = router
        .with_typed::<TIn, TOut, _>("/typed_utf8", mktfmt("/typed_utf8", repe::BodyFormat::Utf8, c))
        .with_typed::<TIn, TOut, _>("/typed_raw", mktfmt("/typed_raw", repe::BodyFormat::RawBinary, c))
        .with_json_ctx("/push_ctx", mkctx("/push_ctx", c))
        .with_typed_ctx::<TIn, TOut, _>("/typed_ctx", mktctx("/typed_ctx", c))
        .with_typed_slice_ref::<u32, u32, _>("/slice_ref", move |v: &[u32]| {
            c_slr.closure("/slice_ref");
            Ok(v.iter().rev().cloned().collect())
        })
        .with_handler("/adapter", Adapter(c.clone()))
        .with_registry("/de", reg_de)
        .with_erased_handler("/custom", Arc::new(Custom(c.clone())))
        .with_json_blocking("/json_b", mk("/json_b", c))
        .with_json_blocking("/slow_b", move |_v| {
            c_slowb.closure("/slow_b");
            std::thread::sleep(Duration::from_millis(150));
            Ok(json!("slow"))
        })
        .with_json_blocking("/panic_b", move |v| {
            c_panic.closure("/panic_b");
            match v.get("p").and_then(|p| p.as_str()) {
                Some("str") => panic!("static str payload"),
                Some("string") => panic!("{}", format!("string payload {}", 7)),
                Some("any") => std::panic::panic_any(42u32),
                _ => Ok(json!("calm")),
            }
        })
        .with_json("/panic", move |v| {
            c_panic2.closure("/panic");
            match v.get("p").and_then(|p| p.as_str()) {
                Some("str") => panic!("static str payload"),
                Some("any") => std::panic::panic_any(7u8),
                _ => Ok(json!("calm")),
            }
        })
        .with_json_blocking("/gate_b", move |v| {
            c_gate.closure("/gate_b");
            c_gate.wait_gate();
            Ok(json!({"gated": v}))
        })
        .with_json_ctx_blocking("/json_ctx_b", mkctx("/json_ctx_b", c))
        .with_typed_blocking::<TIn, TOut, _>("/typed_b", mkt("/typed_b", c))
        .with_typed_ctx_blocking::<TIn, TOut, _>("/typed_ctx_b", mktctx("/typed_ctx_b", c))
        .with_struct("/dev", Device { gain: 3, label: "x".into() });
    let router = router.with_struct_shared::<Device, RwLock<Device>>("/devrw", Arc::new(RwLock::new(Device { gain: 3, label: "x".into() })));
    let (router, _tree) = router.with_struct("/tree", Tree);
    let (router, _consts) = router.with_struct("/const", Consts { gain: 7, label: "c".into() });
    let mut router = router.with_json(long_route(), mk(long_route(), c));
    for p in straddle_routes() {
        router = router.with_json(p, mk(p.as_str(), c));
    }
    if wrapped {
        router.with_middleware(gate_mw)
    } else {
        router
    }
}

// ------------------------------------------------------------------------------------------
// request descriptions
// ------------------------------------------------------------------------------------------
#[derive(Clone, Debug)]
struct ReqSpec {
    h: RawHeader,
    query: Vec<u8>,
    body: Vec<u8>,
    /// WebSocket only: this many Ping frames precede this request
    pings: u32,
}
impl ReqSpec {
    fn wire(&self) -> Vec<u8> {
        RawFrame { h: self.h.clone(), query: self.query.clone(), body: self.body.clone() }.to_vec()
    }
}

/// Parameters of a whole sequence (recorded on its `inv` op line so a replay is exact).
#[derive(Clone, Copy, Debug, Default)]
struct SeqParams {
    pressure: bool,
    /// TCP clients write the pipelined bytes in chunks of this size (0 = one write)
    chunk: usize,
    /// != 0: every frame is cut at 1..3 PRNG-chosen points (inside the header, at 48, inside query / body) derived
    /// from this seed; TCP writes the pieces separately, WebSocket sends them as message fragments
    cut: u64,
    /// the client does not read for this many milliseconds after it started sending
    stall: u64,
}

/// Cut points (byte offsets, ascending, inside 1..len) of one frame for a cut seed.
fn cut_points(cut: u64, index: usize, h: &RawHeader, len: usize) -> Vec<usize> {
    if cut == 0 || len < 2 { return Vec::new(); }
    let mut r = Rng::new(cut ^ ((index as u64 + 1) * 0x9E37_79B9));
    let q = h.query_length as usize;
    let n = r.range(1, 3);
    let mut v: Vec<usize> = (0..n).map(|_| match r.below(6) {
        0 => r.range(1, 47) as usize,
        1 => 48,
        2 if q > 1 => 48 + r.range(1, q as u64 - 1) as usize,
        3 if len > 48 + q + 1 => 48 + q + r.range(1, (len - 48 - q - 1) as u64) as usize,
        4 => len - 1,
        _ => r.range(1, len as u64 - 1) as usize,
    }).filter(|c| *c >= 1 && *c < len).collect();
    v.sort();
    v.dedup();
    v
}

// ---- independent BEVE typed-array codec (header byte, compressed size, little-endian payload) ----------
fn beve_size(n: usize, out: &mut Vec<u8>) {
    if n < 64 {
        out.push((n as u8) << 2);
    } else if n < 16384 {
        out.extend_from_slice(&(((n as u16) << 2) | 1).to_le_bytes());
    } else {
        out.extend_from_slice(&(((n as u32) << 2) | 2).to_le_bytes());
    }
}
fn enc_f64s(v: &[f64]) -> Vec<u8> {
    let mut o = vec![0x64u8]; // typed array, float, 8 bytes
    beve_size(v.len(), &mut o);
    for x in v {
        o.extend_from_slice(&x.to_bits().to_le_bytes());
    }
    o
}
fn enc_u32s(v: &[u32]) -> Vec<u8> {
    let mut o = vec![0x54u8]; // typed array, unsigned, 4 bytes
    beve_size(v.len(), &mut o);
    for x in v {
        o.extend_from_slice(&x.to_le_bytes());
    }
    o
}

// ---- independent expectation of a dispatched request's outcome ---------------------------------------
/// How the request body fares against the handler kind's documented decoding rule.
#[derive(Clone, Copy, PartialEq, Eq, Debug)]
enum DecClass {
    /// accepted format, decodable bytes (or: kind does not decode)
    Ok,
    /// accepted format, undecodable bytes
    Bad,
    /// body format the kind does not accept
    Fmt,
}
#[derive(Clone, PartialEq, Debug)]
enum Exp {
    /// error response with this code
    Ec(u32),
    /// success response with this body format and body
    Ok { bfmt: u16, body: Vec<u8> },
    /// decodes fine; the result depends on registry / struct state (no independent expectation)
    Stateful,
}
#[derive(Clone, Debug)]
struct Outcome {
    dec: DecClass,
    exp: Exp,
    /// the registered closure runs (exactly once) for this request
    closure: Option<&'static str>,
    /// `ok` | `err:<code>` | `any`: the closure's result class, for the model
    cl: String,
}

fn dec_value(bfmt: u16, body: &[u8]) -> Option<Option<Value>> {
    match bfmt {
        2 | 3 => Some(serde_json::from_slice::<Value>(body).ok()),
        1 => Some(beve::from_slice::<Value>(body).ok()),
        _ => None,
    }
}
fn dec_tin(bfmt: u16, body: &[u8]) -> Option<Option<TIn>> {
    match bfmt {
        2 | 3 => Some(serde_json::from_slice::<TIn>(body).ok()),
        1 => Some(beve::from_slice::<TIn>(body).ok()),
        _ => None,
    }
}
fn tout(sum: i64, echo: String, fmt: u16) -> Exp {
    let t = TOut { sum, echo };
    let body = if fmt == 1 { beve::to_vec(&t).unwrap() } else { serde_json::to_vec(&t).unwrap() };
    Exp::Ok { bfmt: fmt, body }
}

/// What the property says the response to a *dispatched* request on route `rt` reports: the handler's result, or
/// InvalidBody for an unacceptable body format, or the kind's code for an undecodable body. Computed from the raw
/// request bytes and the closures this harness registered; nothing of the crate under test is consulted.
fn expected_outcome(rt: &RouteSpec, path: &str, bfmt: u16, body: &[u8]) -> Outcome {
    const INVALID_BODY: u32 = 4;
    const PARSE_ERROR: u32 = 5;
    let fmt_err = || Outcome { dec: DecClass::Fmt, exp: Exp::Ec(INVALID_BODY), closure: None, cl: "any".into() };
    let bad = |code: u32| Outcome { dec: DecClass::Bad, exp: Exp::Ec(code), closure: None, cl: "any".into() };
    let name: &'static str = rt.path;
    let done = |exp: Exp| {
        let cl = match &exp {
            Exp::Ec(c) => format!("err:{}", c),
            _ => "ok".to_string(),
        };
        Outcome { dec: DecClass::Ok, exp, closure: Some(name), cl }
    };
    match rt.hk {
        HK::Json | HK::JsonCtx => {
            let v = match dec_value(bfmt, body) {
                None => return fmt_err(),
                Some(None) => return bad(PARSE_ERROR),
                Some(Some(v)) => v,
            };
            if rt.hk == HK::Json {
                match rt.var {
                    2 => done(Exp::Ok { bfmt: 2, body: b"\"end\"".to_vec() }),
                    3 => done(Exp::Ok { bfmt: 2, body: b"\"slow\"".to_vec() }),
                    4 => Outcome { dec: DecClass::Ok, exp: Exp::Stateful, closure: Some(name), cl: "any".into() },
                    5 => done(Exp::Ok { bfmt: 2, body: serde_json::to_vec(&json!({"gated": v})).unwrap() }),
                    _ => {
                        if let Some((_, n)) = fail_code(&v) {
                            done(Exp::Ec(n))
                        } else {
                            done(Exp::Ok { bfmt: 2, body: serde_json::to_vec(&json!({"route": name, "got": v})).unwrap() })
                        }
                    }
                }
            } else {
                done(Exp::Ok { bfmt: 2, body: serde_json::to_vec(&json!({"route": name, "method": path, "got": v})).unwrap() })
            }
        }
        HK::Typed | HK::TypedCtx | HK::Adapter => {
            let i = match dec_tin(bfmt, body) {
                None => return fmt_err(),
                Some(None) => return bad(PARSE_ERROR),
                Some(Some(i)) => i,
            };
            match (rt.hk, rt.var) {
                (HK::Typed, 0) => {
                    if i.a == 13 {
                        done(Exp::Ec(INVALID_BODY))
                    } else {
                        done(tout(i.a.wrapping_mul(2), i.b, 2))
                    }
                }
                (HK::Typed, 1) => done(tout(i.a, i.b, 1)),
                (HK::Typed, 2) => done(tout(i.a, i.b, 3)),
                (HK::Typed, _) => done(tout(i.a, i.b, 0)),
                (HK::TypedCtx, _) => done(tout(i.a.wrapping_add(1), i.b, 2)),
                _ => done(tout(i.a.wrapping_sub(1), i.b, 2)),
            }
        }
        HK::Slice => {
            if bfmt != 1 {
                return fmt_err();
            }
            // the generic empty array is what a serde peer sends for an empty Vec; the bulk decoders accept it
            let v: Option<Vec<f64>> = if body == [0x05, 0x00] { Some(vec![]) } else { beve::read_typed_slice::<f64>(body).ok() };
            match v {
                None => bad(PARSE_ERROR),
                Some(v) => done(Exp::Ok { bfmt: 1, body: enc_f64s(&v.iter().map(|x| x * 2.0).collect::<Vec<_>>()) }),
            }
        }
        HK::SliceRef => {
            if bfmt != 1 {
                return fmt_err();
            }
            let v: Option<Vec<u32>> = if body.first() == Some(&0x5C) {
                beve::read_aligned_typed_slice::<u32>(body).ok()
            } else if body == [0x05, 0x00] {
                Some(vec![])
            } else {
                beve::read_typed_slice::<u32>(body).ok()
            };
            match v {
                None => bad(PARSE_ERROR),
                Some(v) => done(Exp::Ok { bfmt: 1, body: enc_u32s(&v.iter().rev().cloned().collect::<Vec<_>>()) }),
            }
        }
        HK::Custom => {
            if body.first() == Some(&b'!') {
                let n = repe_error_by_letter(body.get(1).copied().unwrap_or(0), body.get(2).copied().unwrap_or(0)).1;
                Outcome { dec: DecClass::Ok, exp: Exp::Ec(n), closure: Some(name), cl: format!("err:{}", n) }
            } else {
                done(Exp::Ok { bfmt: 1234, body: body.to_vec() })
            }
        }
        HK::Registry => {
            let stateful = Outcome { dec: DecClass::Ok, exp: Exp::Stateful, closure: None, cl: "any".into() };
            if body.is_empty() {
                // the deep document is never written: a read below it is the harness's own walk of the same document
                if let Some(rel) = path.strip_prefix("/reg/deep") {
                    let exp = match deep_doc(DEEP_LEVELS).pointer(rel) { Some(v) => Exp::Ok { bfmt: 2, body: serde_json::to_vec(v).unwrap() }, None => Exp::Ec(6) };
                    let cl = match &exp { Exp::Ec(c) => format!("err:{}", c), _ => "ok".to_string() };
                    return Outcome { dec: DecClass::Ok, exp, closure: None, cl };
                }
                return stateful;
            }
            let ok = match bfmt {
                0 => true,
                1 => beve::from_slice::<Value>(body).is_ok(),
                2 => serde_json::from_slice::<Value>(body).is_ok(),
                3 => std::str::from_utf8(body).is_ok(),
                _ => return fmt_err(),
            };
            // the registry reports every body-decoding failure as InvalidBody (RegistryError::code)
            if ok { stateful } else { bad(INVALID_BODY) }
        }
        HK::Struct => {
            let stateful = Outcome { dec: DecClass::Ok, exp: Exp::Stateful, closure: None, cl: "any".into() };
            // the tree mount is stateless: its answer is computed here from the pointer below the mount
            let tree = |b: Option<Value>| {
                let exp = tree_expect(&path[rt.path.len()..], b);
                let cl = match &exp { Exp::Ec(c) => format!("err:{}", c), _ => "ok".to_string() };
                Outcome { dec: DecClass::Ok, exp, closure: None, cl }
            };
            if body.is_empty() {
                if rt.var == 2 {
                    // read-only derived struct: the listed members, the whole struct, anything else is not a member
                    let exp = match CONST_PATHS.iter().find(|(p, _, _)| *p == path) {
                        Some((_, val, 0)) => Exp::Ok { bfmt: 2, body: val.as_bytes().to_vec() },
                        Some((_, _, code)) => Exp::Ec(*code),
                        None if path == "/const" => Exp::Ok { bfmt: 2, body: serde_json::to_vec(&serde_json::to_value(Consts { gain: 7, label: "c".into() }).unwrap()).unwrap() },
                        None => Exp::Ec(6),
                    };
                    let cl = match &exp { Exp::Ec(c) => format!("err:{}", c), _ => "ok".to_string() };
                    return Outcome { dec: DecClass::Ok, exp, closure: None, cl };
                }
                return if rt.var == 1 { tree(None) } else { stateful };
            }
            match dec_value(bfmt, body) {
                None => fmt_err(),
                Some(None) => bad(PARSE_ERROR),
                Some(Some(v)) => if rt.var == 1 { tree(Some(v)) } else { stateful },
            }
        }
    }
}

/// The gate middleware of the wrapped routers answers some requests itself (before any handler).
fn gate_outcome(body: &[u8]) -> Option<Exp> {
    if body.starts_with(b"#mw-err") {
        Some(Exp::Ec(body.get(7).map(|l| repe_error_by_letter(*l, body.get(8).copied().unwrap_or(0)).1).unwrap_or(8)))
    } else if body.starts_with(b"#mw-own") {
        Some(Exp::Ok { bfmt: 3, body: b"short".to_vec() })
    } else {
        None
    }
}

// ---- generators ---------------------------------------------------------------------------------------
fn gen_string(r: &mut Rng) -> String {
    match r.below(8) {
        0 => String::new(),
        1 => "x".into(),
        2 => "h\u{e9}llo \u{4e16}\u{754c} \u{1f600}".into(),
        3 => "quote\" back\\slash \n tab\t".into(),
        4 => "y".repeat(*r.pick(&[255usize, 256, 5000, 70_000])),
        5 => "\u{0}\u{7f}".into(),
        _ => {
            let n = r.below(12) as usize;
            (0..n).map(|_| (b'a' + r.below(26) as u8) as char).collect()
        }
    }
}
fn gen_i64(r: &mut Rng) -> i64 {
    match r.below(8) {
        0 => 0,
        1 => 13,
        2 => i64::MAX,
        3 => i64::MIN,
        4 => -1,
        5 => 1,
        _ => r.boundary(64) as i64,
    }
}
fn gen_value(r: &mut Rng, depth: u32) -> Value {
    match r.below(if depth > 2 { 6 } else { 9 }) {
        0 => Value::Null,
        1 => json!(r.chance(1, 2)),
        2 => json!(gen_i64(r)),
        3 => json!(r.boundary(64)),
        4 => json!(gen_string(r)),
        5 => if r.chance(1, 3) { json!({"fail": true}) } else { json!({"fail": r.below(11)}) },
        6 => Value::Array((0..r.below(4)).map(|_| gen_value(r, depth + 1)).collect()),
        7 => json!({"a": gen_i64(r), "b": gen_string(r)}),
        _ => {
            let mut m = serde_json::Map::new();
            for _ in 0..r.below(4) {
                m.insert(gen_string(r), gen_value(r, depth + 1));
            }
            Value::Object(m)
        }
    }
}
fn enc_any<T: Serialize>(r: &mut Rng, v: &T) -> (u16, Vec<u8>) {
    match r.below(4) {
        0 => (1, beve::to_vec(v).unwrap()),
        1 => (3, serde_json::to_vec(v).unwrap()),
        _ => (2, serde_json::to_vec(v).unwrap()),
    }
}

/// A body tailored to the route kind (mostly decodable), so that every kind's success path and closure are reached.
fn tailored_body(r: &mut Rng, hk: HK, path: &str) -> (u16, Vec<u8>) {
    match hk {
        HK::Json | HK::JsonCtx => {
            let v = gen_value(r, 0);
            enc_any(r, &v)
        }
        HK::Typed | HK::TypedCtx | HK::Adapter => {
            let t = TIn { a: gen_i64(r), b: gen_string(r) };
            enc_any(r, &t)
        }
        HK::Slice => {
            let n = *r.pick(&[0usize, 1, 3, 63, 64, 1000]);
            if n == 0 && r.chance(1, 2) {
                return (1, vec![0x05, 0x00]);
            }
            let v: Vec<f64> = (0..n).map(|i| match i % 5 { 0 => 1.5, 1 => -2.0, 2 => 1e300, 3 => f64::from_bits(r.next()), _ => 0.0 }).map(|x: f64| if x.is_nan() { 0.25 } else { x }).collect();
            (1, enc_f64s(&v))
        }
        HK::SliceRef => {
            let n = *r.pick(&[0usize, 1, 4, 63, 64, 500]);
            let v: Vec<u32> = (0..n).map(|_| r.boundary(32) as u32).collect();
            if r.chance(1, 2) { (1, beve::to_vec_aligned_typed_slice(&v)) } else { (1, enc_u32s(&v)) }
        }
        HK::Custom => {
            let n = r.below(20) as usize;
            let mut b = r.bytes(n);
            match r.below(4) { 0 => { b.insert(0, *r.pick(ERR_LETTERS)); b.insert(0, b'!') } 1 => b.insert(0, b'e'), _ => {} }
            (*r.pick(&[0u16, 1, 2, 3, 77]), b)
        }
        HK::Registry => match r.below(4) {
            0 => (2, Vec::new()),
            1 => {
                let v = gen_value(r, 1);
                enc_any(r, &v)
            }
            2 => { let n = r.below(6) as usize; (0, r.bytes(n)) }
            _ => (3, gen_string(r).into_bytes()),
        },
        HK::Struct => {
            if path.ends_with("/gain") && r.chance(1, 2) {
                let g = r.boundary(31) as i32;
                enc_any(r, &g)
            } else if path.ends_with("/label") && r.chance(1, 2) {
                let s = gen_string(r);
                enc_any(r, &s)
            } else if path.ends_with("/add") {
                let v: Vec<i64> = (0..r.below(5)).map(|_| gen_i64(r)).collect();
                enc_any(r, &v)
            } else {
                (*r.pick(&[1u16, 2, 3]), Vec::new())
            }
        }
    }
}

fn generic_body(r: &mut Rng) -> (u16, Vec<u8>) {
    match r.below(16) {
        0 => (2, b"{\"a\":5,\"b\":\"x\"}".to_vec()),
        1 => (2, b"{\"a\":13,\"b\":\"y\"}".to_vec()),
        2 => (2, b"[1,2,3]".to_vec()),
        3 => (2, b"{\"fail\":true}".to_vec()),
        4 => (2, b"{\"a\":".to_vec()), // malformed JSON
        5 => (3, b"{\"a\":7,\"b\":\"utf8\"}".to_vec()),
        6 => (1, beve::to_vec(&TIn { a: 21, b: "bv".into() }).unwrap()),
        7 => (1, enc_f64s(&[1.5f64, -2.0, 1e300])),
        8 => (1, enc_u32s(&[7u32, 8, 9, 10])),
        9 => match r.below(3) {
            0 => (*r.pick(&[0u16, 4, 5, 255, 256, 999, 4095, 4096, 65535]), b"{\"a\":1,\"b\":\"z\"}".to_vec()),
            // invalid UTF-8 inside an otherwise valid JSON string, UTF-8- and JSON-framed
            1 => (*r.pick(&[2u16, 3]), b"{\"a\":7,\"b\":\"\xff\xfe\"}".to_vec()),
            _ => (*r.pick(&[2u16, 3]), b"[\"\xc3\x28\",1]".to_vec()),
        },
        10 => (*r.pick(&[1u16, 2, 3]), { let l = r.below(12) as usize; r.bytes(l) }),
        // text-framed bodies that are JSON except for bytes that are not UTF-8 (every decoder must refuse them alike)
        11 => (*r.pick(&[3u16, 3, 2]), r.pick(&[&b"{\"a\":7,\"b\":\"a\xffb\"}"[..], &b"{\"s\":\"\xed\xa0\x80\"}"[..], &b"\"\xf8\x88\x80\x80\x80\""[..], &b"{\"a\":1,\"b\":\"\xc0\xaf\"}"[..]]).to_vec()),
        // answered or refused by the gate middleware on the wrapped routers, undecodable on the bare ones
        12 => (*r.pick(&[2u16, 1, 0]), match r.below(4) { 0 => b"#mw-err".to_vec(), 1 => b"#mw-own".to_vec(), 2 => b"#mw-own and more".to_vec(), _ => { let mut v = b"#mw-err".to_vec(); v.push(*r.pick(ERR_LETTERS)); v.push(r.next() as u8); v } }),
        // BEVE bodies cut short / with a trailing byte; a typed array of the wrong element type
        13 => {
            let mut b = match r.below(3) { 0 => enc_f64s(&[1.0, 2.0]), 1 => enc_u32s(&[1, 2, 3]), _ => beve::to_vec(&TIn { a: 1, b: "t".into() }).unwrap() };
            match r.below(3) { 0 => { b.pop(); } 1 => b.push(0), _ => {} }
            (1, b)
        }
        14 => (2, format!("{{\"a\":3,\"b\":\"{}\"}}", "z".repeat(*r.pick(&[9000usize, 70_000]))).into_bytes()),
        _ => (*r.pick(&[0u16, 1, 2, 3]), Vec::new()),
    }
}

const ODD_PATHS: &[&[u8]] = &[
    b"/reg/missing", b"/reg/a~1b", b"/dex", b"/regx", b"/devx", b"/devrwx", b"/dev/nope", b"/nope", b"", b"/", b"json", b"/json/", b"/jsonx", b"/JSON",
    b"/\xff\xfe", b"\xc3\x28", b"/json\x00", b"/json\xc3", "/js\u{f6}n".as_bytes(), "/js\u{f6}n/\u{7801}/x".as_bytes(), b"/custom/sub", b"//json", b"/re", b"/de",
];
/// A pointer into the tree mount: depth from the interesting set (the segment buffer of the struct dispatcher holds 16
/// and spills beyond), every segment existing, or the k-th one (PRNG-chosen, often the 16th / 17th / last) not.
fn gen_tree_path(r: &mut Rng) -> String {
    let d = *r.pick(&[0usize, 1, 2, 15, 16, 17, 17, 18, 20, 21, 33, 40, 41]);
    let mut segs: Vec<&str> = (0..d).map(|_| if r.chance(1, 2) { "n" } else { "m" }).collect();
    if d > 0 && r.chance(2, 5) {
        let k = match r.below(4) { 0 => d - 1, 1 => 15.min(d - 1), 2 => 16.min(d - 1), _ => r.below(d as u64) as usize };
        segs[k] = *r.pick(&["x", "", "N", "n~0", "~1"]);
    }
    format!("/tree{}", segs.iter().map(|s| format!("/{s}")).collect::<String>())
}

const MOUNT_PATHS: &[&str] = &[
    "/reg/a", "/reg/a/b", "/reg/a/list/1", "/reg/f", "/reg/s", "/reg", "/de/v", "/re/v", "/dev/gain", "/dev/label", "/dev/hello", "/dev/add", "/dev", "/devrw/gain", "/devrw/label",
    "/devrw/add", "/devrw",
];

fn gen_id(r: &mut Rng, seq: u64, k: u64, used: &mut HashSet<u64>) -> u64 {
    loop {
        let id = if r.chance(1, 8) {
            match r.below(8) {
                0 => 0,
                1 => 1,
                2 => u32::MAX as u64,
                3 => 1u64 << 32,
                4 => 1u64 << 63,
                5 => u64::MAX,
                6 => u64::MAX - 1 - r.below(1000),
                _ => r.next(),
            }
        } else {
            seq * 1000 + k + 1
        };
        if id != S1 && id != S2 && used.insert(id) {
            return id;
        }
    }
}

fn gen_request(r: &mut Rng, id: u64) -> ReqSpec {
    // path: mostly a registered route (exact or below a mount), else an unregistered / malformed one
    let query: Vec<u8> = match r.below(10) {
        0 if r.chance(1, 2) => gen_straddle_path(r).into_bytes(),
        0 | 1 => r.pick(ODD_PATHS).to_vec(),
        2 | 3 => r.pick(MOUNT_PATHS).as_bytes().to_vec(),
        4 => match r.below(4) {
            0 => r.pick(CONST_PATHS).0.as_bytes().to_vec(),
            1 => { let d = *r.pick(&[0usize, 1, 10, 19, 20]); let tail = *r.pick(&["", "", "/d", "/x", "/a"]); format!("/reg/deep{}{}", "/a".repeat(d), tail).into_bytes() }
            _ => gen_tree_path(r).into_bytes(),
        },
        9 if r.chance(1, 8) => long_route().as_bytes().to_vec(),
        9 if r.chance(1, 6) => format!("/missing/{}", "p".repeat(*r.pick(&[300usize, 9000, 70_000]))).into_bytes(),
        _ => loop {
            let rt = r.pick(EXACT);
            // the sentinel route, the 150 ms route and the panicking route are driven by their own scenarios
            if !matches!(rt.path, "/__end" | "/slow_b" | "/panic_b" | "/panic" | "/gate_b") && (rt.path != "/slow" || r.chance(1, 4)) {
                break rt.path.as_bytes().to_vec();
            }
        },
    };
    let version = if r.chance(17, 20) { 1 } else { *r.pick(&[0u8, 2, 3, 127, 128, 254, 255]) };
    let notify = match r.below(20) { 0..=4 => 1u8, 5 => *r.pick(&[2u8, 3, 127, 128, 254, 255]), 6 => r.next() as u8, _ => 0 };
    let qfmt = if r.chance(22, 25) { 1u16 } else { *r.pick(&[0u16, 2, 3, 255, 256, 257, 4095, 4096, 65535]) };
    let route = std::str::from_utf8(&query).ok().and_then(expected_route);
    let (bfmt, mut body) = match route {
        Some(rt) if r.chance(11, 20) => tailored_body(r, rt.hk, std::str::from_utf8(&query).unwrap()),
        _ => generic_body(r),
    };
    // registry / struct state must evolve alike behind wrapped and bare routers: the gate middleware (wrapped only)
    // must not swallow a write the bare routers perform
    if matches!(route, Some(rt) if (matches!(rt.hk, HK::Registry | HK::Struct) && rt.var != 1)) && gate_outcome(&body).is_some() {
        body[0] = b'%';
    }
    // the read-only mounts stay read-only: no body
    if query.starts_with(b"/const") || query.starts_with(b"/reg/deep") {
        body.clear();
    }
    // any body under a body-format code the kind may not accept
    let bfmt = if r.chance(1, 12) { *r.pick(&[0u16, 4, 5, 255, 256, 999, 4095, 4096, 65535]) } else { bfmt };
    let mut f = RawFrame::request(id, false, qfmt, &query, bfmt, &body);
    f.h.version = version;
    f.h.notify = notify;
    if r.chance(1, 8) {
        f.h.reserved = r.boundary(32) as u32;
    }
    if r.chance(1, 16) {
        f.h.ec = r.boundary(32) as u32;
    }
    ReqSpec { h: f.h, query, body, pings: if r.chance(1, 12) { *r.pick(&[1u32, 1, 2, 9]) } else { 0 } }
}

fn hout_str(r: &Result<Message, RepeError>) -> String {
    match r {
        Ok(m) => format!("ok:{}:{}:{}", RawHeader::of(&m.header).fields().replace(' ', ","), hex(&m.query), hex(&m.body)),
        Err(e) => format!("err:{}:{}", e.to_error_code() as u32, hex(e.to_string().as_bytes())),
    }
}

/// A handler-level outcome with the dispatch layer's echo rule applied by hand (an empty response query is filled
/// with the request's, lengths patched): the borrowed and the owned entry point must agree on this.
fn normalised(r: &Result<Message, RepeError>, req_query: &[u8]) -> String {
    match r {
        Ok(m) => {
            let mut h = RawHeader::of(&m.header);
            let q: &[u8] = if m.query.is_empty() { req_query } else { &m.query };
            h.query_length = q.len() as u64;
            h.length = 48 + h.query_length + h.body_length;
            format!("ok:{}:{}:{}", h.fields().replace(' ', ","), hex(q), hex(&m.body))
        }
        Err(e) => format!("err:{}:{}", e.to_error_code() as u32, hex(e.to_string().as_bytes())),
    }
}

/// Bytes of an observation: short ones in hex, long ones as `#<length>:<FNV-1a 64>` (the model prints the same).
fn show_bytes(b: &[u8]) -> String {
    if b.len() > 256 { format!("#{}:{}", b.len(), fnv(b)) } else { hex(b) }
}
fn show_resp(f: &RawFrame) -> String {
    format!("{},{},{},{},{},{}", f.h.id, f.h.ec, f.h.query_format, show_bytes(&f.query), f.h.body_format, if f.h.ec != 0 { "E".to_string() } else { show_bytes(&f.body) })
}

// ------------------------------------------------------------------------------------------
// transports
// ------------------------------------------------------------------------------------------
#[derive(Clone, Copy, PartialEq)]
enum Kind {
    Tcp,
    Ws,
}

struct Endpoint {
    name: &'static str,
    kind: Kind,
    /// router behind the counting + gate middlewares (else bare: the handlers' own `handle_view` is reached)
    wrapped: bool,
    addr: std::net::SocketAddr,
    counters: Counters,
    /// a clone of the router the server dispatches through (observer threads look routes up in it meanwhile)
    router: Router,
}
impl Endpoint {
    /// endpoints that serve only some sequences (their registry / struct state lags behind the others')
    fn partial(&self) -> bool {
        matches!(self.name, "tcpx" | "tcpy" | "tcpz" | "atcpz" | "wsq" | "wsl")
    }
    /// A response on this endpoint may be another property's refusal (C17: a response over the assumed peer frame limit
    /// is replaced by an InternalError carrying the same id): C03's count / id / order / invocation clauses still apply
    /// to it, the expected content does not.
    fn foreign_refusal(&self, f: &RawFrame) -> bool {
        self.name == "wsl" && f.h.ec == 9
    }
    /// Events that tell when every dispatched handler has finished: pipeline exits (wrapped) / closure entries (bare).
    fn progress(&self) -> u64 {
        if self.wrapped { self.counters.total_done() } else { self.counters.total_closures() }
    }
}

struct Servers {
    eps: Vec<Endpoint>,
    rt: tokio::runtime::Runtime,
}
impl Servers {
    fn ep(&self, name: &str) -> &Endpoint {
        self.eps.iter().find(|e| e.name == name).unwrap()
    }
}

/// The real endpoints. Wrapped routers: blocking TCP and async TCP, each with and without configured write/read
/// timeouts (different framing / read branches), `tcpx` with Nagle left on, the WebSocket server (`ws`; `wsp` with an
/// outbound channel of one message for the pressure sequences; `wsb` on a runtime with ONE blocking thread).
/// Bare routers (no middleware): `tcpn`, `atcpn`, and `wsn` (a hand-written accept loop over
/// `into_shared().accept()` + `serve_connection`, outbound channel of four, unbounded off-reader limit).
fn start_servers() -> Servers {
    let rt = tokio::runtime::Builder::new_multi_thread().worker_threads(4).enable_all().build().unwrap();
    let mut eps = Vec::new();
    let long = Some(Duration::from_secs(30));
    let short = Some(Duration::from_millis(300));
    // knob pairs (read timeout x write timeout x Nagle x middleware): a pairwise covering set; `tcps` has a SHORT read
    // timeout and serves only the stall scenario
    for (name, wt, rtm, nodelay, wrapped) in [("tcp", None, None, true, true), ("tcpw", Some(Duration::from_secs(20)), long, true, true), ("tcpx", None, None, false, true), ("tcpn", None, None, true, false),
        ("tcpy", None, long, false, false), ("tcpz", Some(Duration::from_secs(20)), None, true, false), ("tcps", None, short, true, false)] {
        let c = Counters::default();
        let router = make_router(&c, wrapped);
        let srv = repe::Server::new(router.clone()).write_timeout(wt).read_timeout(rtm).tcp_nodelay(nodelay);
        let listener = srv.listen("127.0.0.1:0").unwrap();
        let addr = listener.local_addr().unwrap();
        std::thread::spawn(move || {
            let _ = srv.serve(listener);
        });
        eps.push(Endpoint { name, kind: Kind::Tcp, wrapped, addr, counters: c, router });
    }
    for (name, wt, rtm, wrapped) in [("atcp", None, None, true), ("atcpw", Some(Duration::from_secs(20)), long, true), ("atcpn", None, long, false), ("atcpz", Some(Duration::from_secs(20)), None, false), ("atcps", None, short, false)] {
        let c = Counters::default();
        let r = make_router(&c, wrapped);
        let router = r.clone();
        let addr = rt.block_on(async {
            let l = repe::AsyncServer::listen("127.0.0.1:0").await.unwrap();
            let a = l.local_addr().unwrap();
            tokio::spawn(async move {
                let _ = repe::AsyncServer::new(r).write_timeout(wt).read_timeout(rtm).serve(l).await;
            });
            a
        });
        eps.push(Endpoint { name, kind: Kind::Tcp, wrapped, addr, counters: c, router });
    }
    for (name, cap) in [("ws", None), ("wsp", Some(1usize))] {
        let c = Counters::default();
        let r = make_router(&c, true);
        let router = r.clone();
        let addr = rt.block_on(async {
            let l = repe::websocket_server::WebSocketServer::listen("127.0.0.1:0").await.unwrap();
            let a = l.local_addr().unwrap();
            tokio::spawn(async move {
                let mut s = repe::websocket_server::WebSocketServer::new(r);
                if let Some(cap) = cap {
                    s = s.with_outbound_capacity(cap);
                    let _ = s.serve_listener(l, "/repe").await;
                } else {
                    let _ = s.serve_listener_with_shutdown(l, "repe/", std::future::pending::<()>()).await;
                }
            });
            a
        });
        eps.push(Endpoint { name, kind: Kind::Ws, wrapped: true, addr, counters: c, router });
    }
    {
        let c = Counters::default();
        let r = make_router(&c, false);
        let router = r.clone();
        let addr = rt.block_on(async {
            let l = tokio::net::TcpListener::bind("127.0.0.1:0").await.unwrap();
            let a = l.local_addr().unwrap();
            let shared = repe::websocket_server::WebSocketServer::new(r).with_outbound_capacity(4).with_offreader_limit(0).into_shared();
            tokio::spawn(async move {
                loop {
                    let Ok((stream, _)) = l.accept().await else { break };
                    let _ = stream.set_nodelay(true);
                    let sh = shared.clone();
                    tokio::spawn(async move {
                        if let Ok(ws) = sh.accept(stream, "/repe").await {
                            let _ = sh.serve_connection(ws).await;
                        }
                    });
                }
            });
            a
        });
        eps.push(Endpoint { name: "wsn", kind: Kind::Ws, wrapped: false, addr, counters: c, router });
    }
    {
        let c = Counters::default();
        let r = make_router(&c, false);
        let router = r.clone();
        let addr = rt.block_on(async {
            let l = tokio::net::TcpListener::bind("127.0.0.1:0").await.unwrap();
            let a = l.local_addr().unwrap();
            let limits = repe::websocket_limits::WebSocketLimits::default().with_assumed_peer_frame_limit(Some(4096));
            let shared = repe::websocket_server::WebSocketServer::new(r).with_limits(limits).into_shared();
            tokio::spawn(async move {
                loop {
                    let Ok((stream, _)) = l.accept().await else { break };
                    let _ = stream.set_nodelay(true);
                    let sh = shared.clone();
                    tokio::spawn(async move {
                        if let Ok((ws, hs)) = sh.accept_with_handshake(stream, "/repe").await {
                            let _ = sh.serve_connection_with_handshake(ws, hs).await;
                        }
                    });
                }
            });
            a
        });
        eps.push(Endpoint { name: "wsl", kind: Kind::Ws, wrapped: false, addr, counters: c, router });
    }
    // `wsb`: a WebSocket server on a runtime whose blocking pool has ONE thread (off-reader handlers queue up)
    // `wsq`: bare router, outbound channel of ONE message, unbounded off-reader limit, TWO blocking threads
    for (name, wrapped, pool) in [("wsb", true, 1usize), ("wsq", false, 2)] {
        let c = Counters::default();
        let r = make_router(&c, wrapped);
        let router = r.clone();
        let (tx, rx) = std::sync::mpsc::channel();
        std::thread::spawn(move || {
            let rt2 = tokio::runtime::Builder::new_multi_thread().worker_threads(2).max_blocking_threads(pool).enable_all().build().unwrap();
            rt2.block_on(async move {
                let l = tokio::net::TcpListener::bind("127.0.0.1:0").await.unwrap();
                tx.send(l.local_addr().unwrap()).unwrap();
                let s = repe::websocket_server::WebSocketServer::new(r);
                if wrapped {
                    let _ = s.serve_listener_with_graceful_drain(l, "/repe", std::future::pending::<()>(), Duration::from_secs(1)).await;
                } else {
                    let _ = s.with_outbound_capacity(1).with_offreader_limit(0).serve_listener(l, "/repe").await;
                }
            });
        });
        let addr = rx.recv().unwrap();
        eps.push(Endpoint { name, kind: Kind::Ws, wrapped, addr, counters: c, router });
    }
    Servers { eps, rt }
}

async fn ws_connect(addr: std::net::SocketAddr) -> Option<tokio_tungstenite::WebSocketStream<tokio_tungstenite::MaybeTlsStream<tokio::net::TcpStream>>> {
    let url = format!("ws://{}/repe", addr);
    // Nagle off on the client side (the default leaves it on: ~40 ms per small frame)
    tokio_tungstenite::connect_async_with_config(&url, None, true).await.ok().map(|(ws, _)| ws)
}

/// Busy-pool scenario: one slow off-reader request occupies the only blocking thread, K notifies to a blocking
/// route queue up behind it, and the client closes at once. Every dispatched handler must still be invoked
/// exactly once (the property's "a dispatched request's handler is invoked exactly once").
fn busy_pool_close(out: &mut Out, sv: &Servers, k: usize, seqno: usize) {
    use tokio_tungstenite::tungstenite::Message as WsMsg;
    let ep = sv.ep("wsb");
    let key_n = hex(b"/json_b");
    let key_s = hex(b"/slow_b");
    let get = |key: &str| ep.counters.started.lock().unwrap().get(key).copied().unwrap_or(0);
    let (n0, s0) = (get(&key_n), get(&key_s));
    let ok = sv.rt.block_on(async {
        let Some(mut ws) = ws_connect(ep.addr).await else { return false };
        let slow = RawFrame::request(900_000 + seqno as u64, false, 1, b"/slow_b", 2, b"null").to_vec();
        if ws.send(WsMsg::Binary(slow)).await.is_err() { return false; }
        for i in 0..k {
            let f = RawFrame::request(910_000 + i as u64, true, 1, b"/json_b", 2, b"{\"n\":1}").to_vec();
            if ws.send(WsMsg::Binary(f)).await.is_err() { return false; }
        }
        // a sentinel the reader answers inline proves every earlier frame was read and dispatched
        if ws.send(WsMsg::Binary(sentinel(S1))).await.is_err() { return false; }
        let t = Instant::now();
        while t.elapsed() < Duration::from_secs(10) {
            match tokio::time::timeout(Duration::from_millis(200), ws.next()).await {
                Ok(Some(Ok(WsMsg::Binary(b)))) => if RawHeader::parse(&b).map(|h| h.id == S1).unwrap_or(false) { break },
                Ok(None) | Ok(Some(Err(_))) => return false,
                _ => {}
            }
        }
        drop(ws); // close abruptly while the notifies are still queued behind the slow handler
        true
    });
    let ops = vec![format!("busy {} {}", seqno, k)];
    if !ok { out.oracle_fail("dispatch.wsb.connection", "busy-pool scenario: connection failed before all frames were dispatched", &ops); return; }
    let t = Instant::now();
    loop {
        let (n, s) = (get(&key_n) - n0, get(&key_s) - s0);
        if n == k as u64 && s == 1 { out.count("dispatch.busy_pool.ok"); break; }
        if n > k as u64 || s > 1 { out.oracle_fail("dispatch.wsb.handler_invoked_twice", &format!("{} notifies / {} slow invoked for {} / 1 dispatched", n, s, k), &ops); break; }
        if t.elapsed() > Duration::from_secs(15) {
            out.oracle_fail("dispatch.wsb.dispatched_handler_not_invoked", &format!("after the client closed, only {} of {} dispatched notify handlers (and {} of 1 request handler) were ever invoked", n, k, s), &ops);
            break;
        }
        std::thread::sleep(Duration::from_millis(20));
    }
}

/// What one transport returned for a sequence.
#[derive(Default)]
struct TransportRun {
    frames: Vec<RawFrame>, // in arrival order, sentinels removed
    /// server-initiated notifies (handler pushes), not responses
    pushes: u64,
    problems: Vec<String>,
}

fn sentinel(id: u64) -> Vec<u8> {
    RawFrame::request(id, false, 1, b"/__end", 2, b"null").to_vec()
}

const S1: u64 = 0xFFFF_FFFF_0000_0001;
const S2: u64 = 0xFFFF_FFFF_0000_0002;

fn have_all(frames: &[RawFrame], expect_ids: &[u64]) -> bool {
    let have: HashSet<u64> = frames.iter().map(|f| f.h.id).collect();
    expect_ids.iter().all(|i| have.contains(i))
}

/// Raw TCP client: a writer thread sends the pipelined requests (in chunks of `chunk` bytes, 0 = one write) while
/// this thread reads (so large sequences cannot deadlock on full socket buffers); `read_delay` slows the reader down
/// per frame (pressure sequences). `expect_events`: progress events (see `Endpoint::progress`) the sequence causes.
fn run_tcp(ep: &Endpoint, reqs: &[ReqSpec], expect_ids: &[u64], expect_events: u64, read_delay: Duration, params: SeqParams) -> TransportRun {
    let (chunk, cut, stall) = (params.chunk, params.cut, params.stall);
    let mut out = TransportRun::default();
    let base = ep.progress();
    let mut s = match std::net::TcpStream::connect(ep.addr) {
        Ok(s) => s,
        Err(e) => { out.problems.push(format!("connect: {e}")); return out; }
    };
    s.set_nodelay(true).ok();
    let mut wire = Vec::new();
    let mut pieces: Vec<usize> = Vec::new(); // absolute cut offsets into `wire`
    for (i, r) in reqs.iter().enumerate() {
        let w = r.wire();
        for c in cut_points(cut, i, &r.h, w.len()) { pieces.push(wire.len() + c); }
        wire.extend(w);
    }
    let mut ws = s.try_clone().expect("clone");
    let writer = std::thread::spawn(move || {
        if cut != 0 {
            let mut at = 0;
            for (i, c) in pieces.iter().chain(std::iter::once(&wire.len())).enumerate() {
                if ws.write_all(&wire[at..*c]).is_err() { return false; }
                at = *c;
                // a pause after some pieces, so that the server really sees a partial frame
                if i % 5 == 2 { std::thread::sleep(Duration::from_millis(if i % 35 == 2 { 40 } else { 1 })); }
            }
            return true;
        }
        if chunk == 0 {
            return ws.write_all(&wire).is_ok();
        }
        for (i, c) in wire.chunks(chunk).enumerate() {
            if ws.write_all(c).is_err() { return false; }
            // let some chunks reach the server alone
            if i % 7 == 3 { std::thread::sleep(Duration::from_micros(300)); }
        }
        true
    });
    let hard = Instant::now() + Duration::from_secs(120);
    // every response must arrive without any further request being sent: the first sentinel goes out only
    // once all expected responses are in (or after a grace period, which is then reported)
    let mut written_at: Option<Instant> = None;
    let mut sent_s1 = false;
    let mut buf: Vec<u8> = Vec::new();
    let mut seen_s1 = false;
    let mut seen_s2 = false;
    let mut sent_s2 = false;
    let mut s1_at: Option<Instant> = None;
    s.set_read_timeout(Some(Duration::from_millis(4))).ok();
    let mut tmp = vec![0u8; 262144];
    if stall > 0 { std::thread::sleep(Duration::from_millis(stall)); }
    loop {
        while let Some((f, n)) = RawFrame::parse_prefix(&buf) {
            buf.drain(..n);
            if f.h.id == S1 && f.query == b"/__end" { seen_s1 = true; continue; }
            if f.h.id == S2 && f.query == b"/__end" { seen_s2 = true; continue; }
            out.frames.push(f);
            if !read_delay.is_zero() { std::thread::sleep(read_delay); }
        }
        if seen_s2 { break; }
        if written_at.is_none() && writer.is_finished() { written_at = Some(Instant::now()); }
        // the watchdog runs from the moment the last request byte was written
        let deadline = written_at.map(|t| t + WATCHDOG).unwrap_or(hard);
        if !sent_s1 && writer.is_finished() {
            let all = have_all(&out.frames, expect_ids);
            // the grace period starts when the last request byte was written (slow chunked writes do not eat it)
            let grace = *written_at.get_or_insert_with(Instant::now) + GRACE;
            if all || Instant::now() > grace {
                if !all { out.problems.push("response-withheld-until-next-request".into()); }
                if s.write_all(&sentinel(S1)).is_err() { out.problems.push("write-s1".into()); break; }
                sent_s1 = true;
            }
        }
        if seen_s1 && !sent_s2 {
            let all = have_all(&out.frames, expect_ids);
            let quiesced = ep.progress() - base >= expect_events + 1;
            let since = *s1_at.get_or_insert_with(Instant::now);
            if (all && quiesced) || since.elapsed() > AFTER_S1 || Instant::now() > deadline - Duration::from_secs(5) {
                if !all { out.problems.push("missing-response".into()); }
                if !quiesced { out.problems.push("handlers-not-finished".into()); }
                if s.write_all(&sentinel(S2)).is_err() { out.problems.push("write-s2".into()); break; }
                sent_s2 = true;
            }
        }
        if Instant::now() > deadline { out.problems.push("watchdog".into()); break; }
        match s.read(&mut tmp) {
            Ok(0) => { out.problems.push("connection-closed".into()); break; }
            Ok(n) => buf.extend_from_slice(&tmp[..n]),
            Err(e) if e.kind() == std::io::ErrorKind::WouldBlock || e.kind() == std::io::ErrorKind::TimedOut => {}
            Err(e) => { out.problems.push(format!("read: {e}")); break; }
        }
    }
    if !buf.is_empty() { out.problems.push("trailing-partial-frame".into()); }
    let _ = s.shutdown(std::net::Shutdown::Both);
    let _ = writer.join();
    out
}

fn run_ws(sv: &Servers, ep: &Endpoint, reqs: &[ReqSpec], expect_ids: &[u64], expect_events: u64, read_delay: Duration, params: SeqParams) -> TransportRun {
    use tokio_tungstenite::tungstenite::protocol::frame::{coding::{Data, OpCode}, Frame, FrameHeader};
    use tokio_tungstenite::tungstenite::Message as WsMsg;
    let base = ep.progress();
    let stall = params.stall;
    let reqs: Vec<(u32, Vec<u8>, Vec<usize>)> = reqs.iter().enumerate().map(|(i, r)| { let w = r.wire(); let c = cut_points(params.cut, i, &r.h, w.len()); (r.pings, w, c) }).collect();
    let expect_ids = expect_ids.to_vec();
    sv.rt.block_on(async move {
        let mut out = TransportRun::default();
        let Some(ws) = ws_connect(ep.addr).await else { out.problems.push("connect".into()); return out; };
        let (mut sink, mut stream) = ws.split();
        let (s2_tx, mut s2_rx) = tokio::sync::mpsc::channel::<u64>(2);
        let sent_all = Arc::new(std::sync::atomic::AtomicBool::new(false));
        let sent_all2 = sent_all.clone();
        // sender task: all requests (some preceded by a Ping), then each sentinel when the reader asks for it
        let sender = tokio::spawn(async move {
            for (pings, r, cuts) in reqs {
                for _ in 0..pings {
                    if sink.send(WsMsg::Ping(b"hb".to_vec())).await.is_err() { return false; }
                }
                if cuts.is_empty() {
                    if sink.send(WsMsg::Binary(r)).await.is_err() { return false; }
                } else {
                    // one WebSocket message in fragments: Binary(fin=0), Continue…, Continue(fin=1)
                    let mut at = 0;
                    let ends: Vec<usize> = cuts.iter().cloned().chain(std::iter::once(r.len())).collect();
                    for (k, e) in ends.iter().enumerate() {
                        let hdr = FrameHeader { is_final: k + 1 == ends.len(), opcode: if k == 0 { OpCode::Data(Data::Binary) } else { OpCode::Data(Data::Continue) }, ..FrameHeader::default() };
                        if sink.send(WsMsg::Frame(Frame::from_payload(hdr, r[at..*e].to_vec()))).await.is_err() { return false; }
                        at = *e;
                    }
                }
            }
            sent_all2.store(true, std::sync::atomic::Ordering::SeqCst);
            while let Some(id) = s2_rx.recv().await {
                if sink.send(WsMsg::Binary(sentinel(id))).await.is_err() { return false; }
            }
            let _ = tokio::time::timeout(Duration::from_millis(300), sink.close()).await;
            true
        });
        let deadline = Instant::now() + WATCHDOG;
        let mut written_at: Option<Instant> = None;
        let mut sent_s1 = false;
        let (mut seen_s1, mut sent_s2) = (false, false);
        let mut s1_at: Option<Instant> = None;
        if stall > 0 { tokio::time::sleep(Duration::from_millis(stall)).await; }
        loop {
            if !sent_s1 && sent_all.load(std::sync::atomic::Ordering::SeqCst) {
                let all = have_all(&out.frames, &expect_ids);
                let grace = *written_at.get_or_insert_with(Instant::now) + GRACE;
                if all || Instant::now() > grace {
                    if !all { out.problems.push("response-withheld-until-next-request".into()); }
                    if s2_tx.send(S1).await.is_err() { out.problems.push("send-s1".into()); break; }
                    sent_s1 = true;
                }
            }
            if seen_s1 && !sent_s2 {
                let all = have_all(&out.frames, &expect_ids);
                let quiesced = ep.progress() - base >= expect_events + 1;
                let since = *s1_at.get_or_insert_with(Instant::now);
                if (all && quiesced) || since.elapsed() > AFTER_S1 || Instant::now() > deadline - Duration::from_secs(5) {
                    if !all { out.problems.push("missing-response".into()); }
                    if !quiesced { out.problems.push("handlers-not-finished".into()); }
                    if s2_tx.send(S2).await.is_err() { out.problems.push("send-s2".into()); break; }
                    sent_s2 = true;
                }
            }
            if Instant::now() > deadline { out.problems.push("watchdog".into()); break; }
            match tokio::time::timeout(Duration::from_millis(4), stream.next()).await {
                Err(_) => continue,
                Ok(None) => { out.problems.push("connection-closed".into()); break; }
                Ok(Some(Err(e))) => { out.problems.push(format!("ws-error: {e}")); break; }
                Ok(Some(Ok(WsMsg::Binary(b)))) => match RawFrame::parse_prefix(&b) {
                    Some((f, n)) if n == b.len() => {
                        if f.h.notify == 1 && f.query == b"/progress" { out.pushes += 1; continue; }
                        if f.h.id == S1 && f.query == b"/__end" { seen_s1 = true; continue; }
                        if f.h.id == S2 && f.query == b"/__end" { break; }
                        out.frames.push(f);
                        if !read_delay.is_zero() { tokio::time::sleep(read_delay).await; }
                    }
                    _ => out.problems.push("malformed-ws-message".into()),
                },
                Ok(Some(Ok(_))) => {}
            }
        }
        drop(s2_tx);
        let _ = tokio::time::timeout(Duration::from_millis(500), sender).await;
        out
    })
}

// ------------------------------------------------------------------------------------------
// one sequence
// ------------------------------------------------------------------------------------------
fn utf8(q: &[u8]) -> bool {
    std::str::from_utf8(q).is_ok()
}

struct Probes {
    wrapped: Router,
    bare: Router,
}

/// (ec, body format, body) of a handler-level outcome, as the response will report it.
fn outcome_fields(r: &Result<Message, RepeError>) -> (u32, u16, Vec<u8>) {
    match r {
        Ok(m) => (m.header.ec, m.header.body_format, m.body.clone()),
        Err(e) => (e.to_error_code() as u32, 3, Vec::new()),
    }
}

/// Compare an observed (ec, body format, body) with the independent expectation; `Some(what)` on a mismatch.
fn exp_mismatch(exp: &Exp, ec: u32, bfmt: u16, body: &[u8]) -> Option<String> {
    match exp {
        Exp::Stateful => None,
        Exp::Ec(c) => (ec != *c).then(|| format!("ec: expected error code {} but the response reports {}", c, ec)),
        Exp::Ok { bfmt: bf, body: b } => {
            if ec != 0 {
                Some(format!("ec: expected the handler's result but the response reports error code {}", ec))
            } else if bfmt != *bf {
                Some(format!("body_format: expected {} got {}", bf, bfmt))
            } else if body != &b[..] {
                Some(format!("body: expected {} got {}", clip(&hex(b)), clip(&hex(body))))
            } else {
                None
            }
        }
    }
}
fn clip(s: &str) -> String {
    if s.len() > 80 { format!("{}…({} hex chars)", &s[..80], s.len()) } else { s.to_string() }
}

struct EpRun<'a> {
    ep: &'a Endpoint,
    /// observation column (the two wrapped WebSocket servers share `ws`)
    col: &'static str,
    t: TransportRun,
    started: BTreeMap<String, u64>,
    closures: BTreeMap<String, u64>,
}

fn run_on<'a>(sv: &'a Servers, ep: &'a Endpoint, reqs: &[ReqSpec], expect_ids: &[u64], events_w: u64, events_n: u64, read_delay: Duration, params: SeqParams) -> EpRun<'a> {
    let base_s = ep.counters.started.lock().unwrap().clone();
    let base_c = ep.counters.closures.lock().unwrap().clone();
    let ev = if ep.wrapped { events_w } else { events_n };
    let t = match ep.kind {
        Kind::Tcp => run_tcp(ep, reqs, expect_ids, ev, read_delay, params),
        Kind::Ws => run_ws(sv, ep, reqs, expect_ids, ev, read_delay, params),
    };
    let delta = |now: BTreeMap<String, u64>, base: &BTreeMap<String, u64>, skip: &str| -> BTreeMap<String, u64> {
        now.iter().filter(|(k, _)| k.as_str() != skip).map(|(k, v)| (k.clone(), v - base.get(k).copied().unwrap_or(0))).filter(|(_, v)| *v > 0).collect()
    };
    let started = delta(ep.counters.started.lock().unwrap().clone(), &base_s, &hex(b"/__end"));
    let closures = delta(ep.counters.closures.lock().unwrap().clone(), &base_c, "/__end");
    let col = match ep.name { "wsp" => "ws", n => n };
    EpRun { ep, col, t, started, closures }
}

const COLUMNS: &[&str] = &["tcp", "tcpw", "atcp", "atcpw", "ws", "tcpn", "atcpn", "wsn"];

fn run_sequence(out: &mut Out, sv: &Servers, probe: &Probes, seqno: usize, reqs: &[ReqSpec], params: SeqParams) {
    let pressure = params.pressure;
    // in-process probe of each request (handler-level outcome on both entry points of both routers) and the
    // independent expectation
    let mut op_lines = Vec::new();
    let mut expect_ids = Vec::new();
    let mut dispatched_paths: BTreeMap<String, u64> = BTreeMap::new();
    let (mut events_w, mut events_n) = (0u64, 0u64);
    let mut closures_w: BTreeMap<String, u64> = BTreeMap::new();
    let mut closures_n: BTreeMap<String, u64> = BTreeMap::new();
    let mut is_off = Vec::new();
    // per request: (route, expectation on wrapped routers, on bare routers, gate answered)
    let mut exps: Vec<Option<(RouteSpec, Exp, Exp, bool)>> = Vec::new();
    for (k, r) in reqs.iter().enumerate() {
        let idx = format!("{}.{}", seqno, k);
        let h = r.h.to_repe();
        let path_ok = r.h.version == 1 && r.h.query_format == 1 && utf8(&r.query);
        let route = std::str::from_utf8(&r.query).ok().and_then(expected_route);
        let found = route.is_some();
        let mut handlers = None;
        if let Ok(p) = std::str::from_utf8(&r.query) {
            let (hw, hn) = (probe.wrapped.get(p), probe.bare.get(p));
            for (which, hd) in [("wrapped", &hw), ("bare", &hn)] {
                if hd.is_some() != found {
                    out.oracle_fail("dispatch.lookup.found_mismatch", &format!("Router::get({:?}) on the {} router is {} but the registered routes/mounts say {}", p, which, hd.is_some(), found), &[format!("lookup {}", hex(&r.query))]);
                }
                if let (Some(hd), Some(rt)) = (hd, &route) {
                    if (hd.execution() == repe::Execution::OffReader) != rt.blocking {
                        out.oracle_fail("dispatch.lookup.execution_mismatch", &format!("route {:?} on the {} router: execution() is {:?} but the route was registered {}", p, which, hd.execution(), if rt.blocking { "with a _blocking constructor" } else { "inline" }), &[format!("lookup {}", hex(&r.query))]);
                    }
                }
            }
            if let (Some(a), Some(b)) = (hw, hn) { handlers = Some((a, b)); }
        }
        let off = route.map(|rt| rt.blocking).unwrap_or(false);
        let dispatches = path_ok && found;
        let mut toks = ("none".to_string(), "none".to_string(), "=".to_string(), "=".to_string());
        let mut kv = "k=none bl=0 dec=ok cl=any".to_string();
        let mut exp_entry = None;
        if let (true, Some(rt), Some((hw, hn))) = (dispatches, route, &handlers) {
            let path = std::str::from_utf8(&r.query).unwrap();
            let oc = expected_outcome(&rt, path, r.h.body_format, &r.body);
            let gate = gate_outcome(&r.body);
            let exp_w = gate.clone().unwrap_or_else(|| oc.exp.clone());
            let wire = r.wire();
            let msg = Message { header: h, query: r.query.clone(), body: r.body.clone() };
            let pops = [format!("probe {} {} {}", hex(&r.query), r.h.body_format, hex(&r.body))];
            // the four calls into the crate run under a watchdog: a handler that never returns is reported, not waited for
            let (hw2, hn2, path2) = (hw.clone(), hn.clone(), path.to_string());
            let called = guarded(move || {
                let view = MessageView::from_slice(&wire).expect("well-framed");
                let ctx = CallContext::detached(&path2);
                [catch(|| hw2.handle_view(&view, &ctx)), catch(|| hw2.handle_with_ctx(&msg, &ctx)), catch(|| hn2.handle_view(&view, &ctx)), catch(|| hn2.handle_with_ctx(&msg, &ctx))]
            });
            let stuck = called.is_none();
            if stuck {
                out.oracle_fail("dispatch.probe.call_never_returned", &format!("route {:?}: handle_view / handle_with_ctx did not return within 12 s", path), &pops);
            }
            let [c0, c1, c2, c3] = called.unwrap_or_else(|| [Err("stuck".into()), Err("stuck".into()), Err("stuck".into()), Err("stuck".into())]);
            let four = [
                ("wrapped.handle_view", c0, &exp_w),
                ("wrapped.handle_with_ctx", c1, &exp_w),
                ("bare.handle_view", c2, &oc.exp),
                ("bare.handle_with_ctx", c3, &oc.exp),
            ];
            if four.iter().all(|(_, r, _)| r.is_ok()) {
                let res: Vec<&Result<Message, RepeError>> = four.iter().map(|(_, r, _)| r.as_ref().unwrap()).collect();
                // A handler has two entry points (borrowed view / owned message); which one a request reaches depends
                // on the transport, on the route kind and on whether middleware wraps it, so "the same request yields
                // the same response fields on every transport" needs them to agree (after the dispatch layer's echo).
                let norm: Vec<String> = res.iter().map(|x| normalised(x, &r.query)).collect();
                if norm[0] != norm[1] || norm[2] != norm[3] || (gate.is_none() && norm[0] != norm[2]) {
                    let (i, j) = if norm[2] != norm[3] { (2, 3) } else if norm[0] != norm[1] { (0, 1) } else { (0, 2) };
                    out.oracle_fail("dispatch.entry_points_disagree", &format!("route {:?} ({}), body format {}, body {}: {} gives {} but {} gives {}", path, rt.hk.token(), r.h.body_format, clip(&hex(&r.body)), four[i].0, clip(&norm[i]), four[j].0, clip(&norm[j])), &pops);
                }
                // every entry point against the independent expectation (decoding rule of the kind + registered closure)
                for (which, x, exp) in four.iter() {
                    let (ec, bf, body) = outcome_fields(x.as_ref().unwrap());
                    if let Some(what) = exp_mismatch(exp, ec, bf, &body) {
                        let sig = if oc.dec == DecClass::Bad && gate.is_none() { "dispatch.decode.undecodable_body".to_string() } else if oc.dec == DecClass::Fmt && gate.is_none() { "dispatch.decode.unacceptable_format".to_string() } else { format!("dispatch.expect.{}.{}", rt.hk.token(), what.split(':').next().unwrap()) };
                        out.oracle_fail(&sig, &format!("route {:?} ({}) via {}: body format {}, body {} ({:?}): {}", path, rt.hk.token(), which, r.h.body_format, clip(&hex(&r.body)), oc.dec, what), &pops);
                        break;
                    }
                }
                // shape of a built-in handler's success response (model: `builtinResponse`): request id, known query
                // format or raw binary, ec 0, no query, consistent lengths
                // (a closure may return `ErrorCode::Ok` as its error code: that is an error-shaped message with ec 0)
                if rt.hk != HK::Custom && gate.is_none() && matches!(oc.exp, Exp::Ok { .. } | Exp::Stateful) {
                    for x in [res[2], res[3]] {
                        if let Ok(m) = x {
                            let hh = &m.header;
                            if hh.ec == 0 && !(hh.id == r.h.id && hh.query_format == 1 && hh.notify == 0 && hh.reserved == 0 && hh.version == 1 && m.query.is_empty() && hh.body_length == m.body.len() as u64 && hh.length == 48 + m.body.len() as u64) {
                                out.oracle_fail("dispatch.builtin_response_shape", &format!("request id {}: a built-in handler's success response does not have the response_header_builder shape", r.h.id), &pops);
                            }
                        }
                    }
                }
                let s: Vec<String> = res.iter().map(|x| hout_str(x)).collect();
                // `=`: the owned outcome equals the borrowed one (`ho`), the bare router's equals the wrapped one's (`hvn`, `hon`)
                toks = (s[0].clone(), if s[1] == s[0] { "=".into() } else { s[1].clone() }, if s[2] == s[0] { "=".into() } else { s[2].clone() }, if s[3] == s[1] { "=".into() } else { s[3].clone() });
            } else {
                // handler panics are C16's subject: keep them out of C03 observations
                out.count("dispatch.probe_panicked_skipped");
                toks = ("panic".into(), "panic".into(), "=".into(), "=".into());
            }
            kv = format!("k={} bl={} dec={} cl={}", rt.hk.token(), rt.blocking as u8, match oc.dec { DecClass::Ok => "ok", DecClass::Bad => "bad", DecClass::Fmt => "fmt" }, oc.cl);
            out.count(&format!("dispatch.kind.{}.{}", rt.hk.token(), match (&oc.exp, oc.dec) { (_, DecClass::Bad) => "undecodable", (_, DecClass::Fmt) => "bad_format", (Exp::Ec(_), _) => "closure_err", (Exp::Stateful, _) => "stateful", _ => "ok" }));
            events_w += 1;
            *dispatched_paths.entry(hex(&r.query)).or_insert(0) += 1;
            if let Some(name) = oc.closure {
                events_n += 1;
                *closures_n.entry(name.to_string()).or_insert(0) += 1;
                if gate.is_none() { *closures_w.entry(name.to_string()).or_insert(0) += 1; }
            }
            if r.query == b"/reg/f" && !r.body.is_empty() && oc.dec == DecClass::Ok {
                // a registered function is called (once) when the request carries a decodable body
                events_n += 1;
                *closures_n.entry("/reg/f".into()).or_insert(0) += 1;
                if gate.is_none() { *closures_w.entry("/reg/f".into()).or_insert(0) += 1; }
            }
            exp_entry = Some((rt, exp_w, oc.exp.clone(), gate.is_some()));
        }
        exps.push(exp_entry);
        if r.h.notify != 1 {
            expect_ids.push(r.h.id);
        }
        is_off.push(off && dispatches);
        out.count(&format!("dispatch.route.{}", if r.h.version != 1 { "bad_version" } else if r.h.query_format != 1 { "bad_qfmt" } else if !utf8(&r.query) { "non_utf8" } else if !found { "not_found" } else if off { "offreader" } else { "inline" }));
        out.count(&format!("dispatch.notify.{}", match r.h.notify { 0 => "0", 1 => "1", _ => "other" }));
        if toks.0.starts_with("err:") { out.count(&format!("dispatch.handler_err.{}", toks.0.split(':').nth(1).unwrap())); }
        op_lines.push(format!("req {} {} {} {} {} {} {} {} {} {} {}{}", idx, r.h.fields(), hex(&r.query), hex(&r.body), found as u8, if off { "o" } else { "i" }, toks.0, toks.1, toks.2, toks.3, kv, if r.pings > 0 { format!(" pg={}", r.pings) } else { String::new() }));
    }
    let inv_line = format!("inv {}.inv chunk={} pressure={} cut={} stall={}", seqno, params.chunk, pressure as u8, params.cut, params.stall);
    // real servers, all endpoints at once (each has its own server, router and counters)
    let read_delay = if pressure { Duration::from_millis(2) } else { Duration::ZERO };
    let extra_x = !pressure && seqno % 8 == 3 && reqs.len() <= 16;
    let extra_k = seqno % 8 == 6 || (pressure && seqno % 16 == 15);
    let chosen: Vec<&Endpoint> = sv.eps.iter().filter(|ep| match ep.name {
        "wsb" | "tcps" | "atcps" => false, // scenario-only endpoints
        "wsp" => pressure, // the single-slot WebSocket server is only interesting under pressure (and slow otherwise)
        "ws" => !pressure,
        "tcpx" | "tcpy" => extra_x, // Nagle on: slow, a few short sequences only
        "tcpz" | "atcpz" | "wsq" | "wsl" => extra_k, // further knob pairs, some sequences
        _ => true,
    }).collect();
    let runs: Vec<EpRun> = std::thread::scope(|sc| {
        let hs: Vec<_> = chosen.iter().map(|ep| {
            let (ids, ep) = (&expect_ids, *ep);
            sc.spawn(move || run_on(sv, ep, reqs, ids, events_w, events_n, read_delay, params))
        }).collect();
        hs.into_iter().map(|h| h.join().expect("endpoint runner")).collect()
    });
    let mut all_ops: Vec<String> = op_lines.clone();
    all_ops.push(inv_line.clone());
    let pfx = if pressure { "dispatch.pressure" } else { "dispatch" };
    // ---- direct oracles -----------------------------------------------------------------
    for run in &runs {
        let (name, t) = (run.ep.name, &run.t);
        let name = if name == "wsp" { "ws" } else { name };
        for p in &t.problems {
            out.oracle_fail(&format!("{}.{}.{}", pfx, name, p.split(':').next().unwrap()), &format!("transport {}: {}", name, p), &all_ops);
        }
        // exactly one response per non-notify request, none for notify==1
        let mut count: BTreeMap<u64, u64> = BTreeMap::new();
        for f in &t.frames { *count.entry(f.h.id).or_insert(0) += 1; }
        for r in reqs {
            let n = count.get(&r.h.id).copied().unwrap_or(0);
            if r.h.notify == 1 && n != 0 {
                out.oracle_fail(&format!("{}.{}.notify_answered", pfx, name), &format!("notify request id {} got {} response(s)", r.h.id, n), &all_ops);
            }
            if r.h.notify != 1 && n != 1 && t.problems.is_empty() {
                out.oracle_fail(&format!("{}.{}.response_count", pfx, name), &format!("request id {} got {} responses", r.h.id, n), &all_ops);
            }
        }
        for f in &t.frames {
            if !reqs.iter().any(|r| r.h.id == f.h.id) {
                out.oracle_fail(&format!("{}.{}.unknown_id", pfx, name), &format!("response with id {} matches no request", f.h.id), &all_ops);
            }
            if f.h.notify != 0 || f.h.version != 1 {
                out.oracle_fail(&format!("{}.{}.response_header", pfx, name), &format!("response id {}: notify {} version {}", f.h.id, f.h.notify, f.h.version), &all_ops);
            }
        }
        // handler invoked exactly once per dispatched request, never for a rejected one: at the pipeline (wrapped
        // routers) and at the registered closure (every router; only requests whose body decodes reach it)
        if run.ep.wrapped && run.started != dispatched_paths && t.problems.is_empty() {
            out.oracle_fail(&format!("{}.{}.invocations", pfx, name), &format!("handler invocations {:?} != dispatched requests {:?}", run.started, dispatched_paths), &all_ops);
        }
        let want_c = if run.ep.wrapped { &closures_w } else { &closures_n };
        if run.closures != *want_c && t.problems.is_empty() {
            out.oracle_fail(&format!("{}.{}.closure_invocations", pfx, name), &format!("registered closures ran {:?} but the dispatched, decodable requests are {:?}", run.closures, want_c), &all_ops);
        }
        // arrival order for inline requests
        let pos: BTreeMap<u64, usize> = t.frames.iter().enumerate().map(|(i, f)| (f.h.id, i)).collect();
        let mut last: Option<usize> = None;
        for (k, r) in reqs.iter().enumerate() {
            if run.ep.kind == Kind::Ws && is_off[k] { continue; }
            if let Some(p) = pos.get(&r.h.id) {
                if let Some(l) = last { if *p < l { out.oracle_fail(&format!("{}.{}.order", pfx, name), &format!("inline responses out of arrival order (request id {})", r.h.id), &all_ops); break; } }
                last = Some(*p);
            }
        }
        // every response against the independent expectation, and the echo rule
        for (k, r) in reqs.iter().enumerate() {
            let Some(f) = t.frames.iter().find(|f| f.h.id == r.h.id) else { continue };
            if run.ep.foreign_refusal(f) { continue; }
            let mut want_q: &[u8] = &r.query;
            if let Some((rt, ew, en, gated)) = &exps[k] {
                let exp = if run.ep.wrapped { ew } else { en };
                if let Some(what) = exp_mismatch(exp, f.h.ec, f.h.body_format, if f.h.ec == 0 { &f.body[..] } else { &[][..] }) {
                    out.oracle_fail(&format!("{}.{}.expect.{}.{}", pfx, name, rt.hk.token(), what.split(':').next().unwrap()), &format!("request id {} to {:?}: {}", r.h.id, String::from_utf8_lossy(&r.query), what), &all_ops);
                }
                if rt.hk == HK::Custom && !(run.ep.wrapped && *gated) && matches!(exp, Exp::Ok { .. }) && r.body.first() != Some(&b'e') { want_q = OWN_QUERY; }
            } else {
                // rejected at routing: the specified code
                let want = if r.h.version != 1 { 1 } else if r.h.query_format != 1 || !utf8(&r.query) { 3 } else { 6 };
                if f.h.ec != want {
                    out.oracle_fail(&format!("{}.{}.reject_code", pfx, name), &format!("request id {} must be rejected with code {} but the response reports {}", r.h.id, want, f.h.ec), &all_ops);
                }
            }
            if f.query != want_q {
                out.oracle_fail(&format!("{}.{}.query_echo", pfx, name), &format!("request id {}: response query {} is not {}", r.h.id, clip(&hex(&f.query)), clip(&hex(want_q))), &all_ops);
            }
        }
    }
    // same response fields (incl. error bodies) on every transport: within the wrapped and the bare group always,
    // across the groups unless the gate middleware answered
    let healthy = runs.iter().all(|r| r.t.problems.is_empty());
    if healthy {
        for (k, r) in reqs.iter().enumerate() {
            let got: Vec<Option<&RawFrame>> = runs.iter().map(|run| run.t.frames.iter().find(|f| f.h.id == r.h.id)).collect();
            let gated = exps[k].as_ref().map(|e| e.3).unwrap_or(false);
            let ref_of = |wrapped: bool| runs.iter().position(|x| x.ep.wrapped == wrapped).unwrap();
            let mut differ: Vec<&str> = Vec::new();
            for (i, run) in runs.iter().enumerate() {
                let base = if gated { ref_of(run.ep.wrapped) } else { 0 };
                // `tcpx` serves only some sequences, so its registry / struct state lags behind the others'
                let stateful = matches!(&exps[k], Some((rt, _, _, _)) if (matches!(rt.hk, HK::Registry | HK::Struct) && rt.var != 1));
                let foreign = got[i].map(|f| run.ep.foreign_refusal(f)).unwrap_or(false);
                if got[i] != got[base] && !(stateful && run.ep.partial()) && !foreign { differ.push(run.ep.name); }
            }
            if !differ.is_empty() {
                out.oracle_fail(&format!("{}.transports_disagree.{}", pfx, differ.join("+")), &format!("request id {}: the response on {:?} differs from the one on {}", r.h.id, differ, runs[0].ep.name), &all_ops);
            }
        }
    }
    // ---- observation lines -------------------------------------------------------------------
    let by_col = |c: &str| runs.iter().find(|r| r.col == c);
    for (k, r) in reqs.iter().enumerate() {
        let show = |t: &TransportRun| t.frames.iter().find(|f| f.h.id == r.h.id).map(show_resp).unwrap_or_else(|| "noresp".into());
        let idx = format!("{}.{}", seqno, k);
        let nontrivial = runs[0].t.frames.iter().any(|f| f.h.id == r.h.id && f.h.ec == 0);
        let mut cols: Vec<String> = COLUMNS.iter().map(|c| format!("{}={}", c, by_col(c).map(|r| show(&r.t)).unwrap_or_else(|| "absent".into()))).collect();
        // `expn`: the error code a bare built-in handler's decoding decision leads to (model: `builtinHandle`)
        let expn = match (&exps[k], by_col("tcpn").and_then(|run| run.t.frames.iter().find(|f| f.h.id == r.h.id))) {
            (Some((_, _, en, _)), Some(f)) if !matches!(en, Exp::Stateful) => f.h.ec.to_string(),
            (Some(_), Some(_)) => "*".to_string(),
            _ => "-".to_string(),
        };
        cols.push(format!("expn={}", expn));
        out.case(&op_lines[k], &format!("{} {}", idx, cols.join(" ")), nontrivial);
    }
    let fmt = |d: &BTreeMap<String, u64>| d.iter().map(|(k, v)| format!("{}:{}", k, v)).collect::<Vec<_>>().join(",");
    let cols: Vec<String> = COLUMNS.iter().take(5).map(|c| format!("{}=[{}]", c, by_col(c).map(|r| fmt(&r.started)).unwrap_or_default())).collect();
    out.case(&inv_line, &format!("{}.inv {}", seqno, cols.join(" ")), false);
    if pressure { out.count("dispatch.pressure_sequences"); }
    if params.chunk != 0 { out.count("dispatch.chunked_sequences"); }
    // ---- a connection that has served other requests answers like a fresh one ---------------------
    let t_fresh = Instant::now();
    if !pressure && seqno % 4 == 1 && healthy {
        let pick = reqs.iter().enumerate().rev().find(|(k, r)| *k > 0 && r.h.notify != 1 && r.query != b"/slow" && !matches!(&exps[*k], Some((rt, _, _, _)) if (matches!(rt.hk, HK::Registry | HK::Struct) && rt.var != 1)));
        if let Some((_, r)) = pick {
            let one = [r.clone()];
            let dispatched = exps[reqs.iter().position(|x| x.h.id == r.h.id).unwrap()].is_some() as u64;
            for run in &runs {
                let Some(seen) = run.t.frames.iter().find(|f| f.h.id == r.h.id) else { continue };
                let ev = if run.ep.wrapped { dispatched } else { 0 };
                // on a bare router the closure may or may not run; waiting for the response is enough (inline or not)
                let fresh = match run.ep.kind { Kind::Tcp => run_tcp(run.ep, &one, &[r.h.id], ev, Duration::ZERO, SeqParams::default()), Kind::Ws => run_ws(sv, run.ep, &one, &[r.h.id], ev, Duration::ZERO, SeqParams::default()) };
                let quiet: Vec<&String> = fresh.problems.iter().filter(|p| *p != "handlers-not-finished").collect();
                if quiet.is_empty() && fresh.frames.first() != Some(seen) {
                    let mut ops = all_ops.clone();
                    ops.push(format!("fresh {}", r.h.id));
                    out.oracle_fail(&format!("dispatch.{}.reused_connection_differs", run.ep.name), &format!("request id {}: the response inside the pipelined sequence differs from the response to the same request sent alone on a fresh connection", r.h.id), &ops);
                }
                out.count("dispatch.fresh_vs_reused");
            }
        }
    }
    out.add("dispatch.ms.fresh_vs_reused", t_fresh.elapsed().as_millis() as u64);
}

// ------------------------------------------------------------------------------------------
// scenarios
// ------------------------------------------------------------------------------------------
/// Teardown scenario (WebSocket): a pipelined burst of inline requests with sizeable responses followed by an unusable
/// frame, the client reading only afterwards. The well-framed requests were all read and dispatched before the bad
/// frame, so each must still get its one response before the connection closes.
/// `garbage`: 0 text frame, 1 binary frame shorter than a header, 2 binary frame with a wrong magic, 3 a well-formed
/// frame followed by a stray byte in the same WebSocket message.
fn burst_then_garbage(out: &mut Out, sv: &Servers, epname: &str, n: usize, garbage: u64, seqno: usize) {
    use tokio_tungstenite::tungstenite::Message as WsMsg;
    let ep = sv.ep(epname);
    let body = format!("\"{}\"", "y".repeat(120_000)).into_bytes();
    let got: Option<Vec<u64>> = sv.rt.block_on(async {
        let mut ws = ws_connect(ep.addr).await?;
        for i in 0..n {
            let f = RawFrame::request(920_000 + i as u64, false, 1, b"/json", 2, &body).to_vec();
            ws.send(WsMsg::Binary(f)).await.ok()?;
        }
        let bad = match garbage {
            0 => WsMsg::Text("not a repe frame".into()),
            1 => WsMsg::Binary(vec![7u8; 16]),
            2 => { let mut f = RawFrame::request(1, false, 1, b"/json", 2, b"1"); f.h.spec = 0x1508; WsMsg::Binary(f.to_vec()) }
            _ => { let mut v = RawFrame::request(1, false, 1, b"/json", 2, b"1").to_vec(); v.push(0); WsMsg::Binary(v) }
        };
        ws.send(bad).await.ok()?;
        tokio::time::sleep(Duration::from_millis(150)).await;
        let mut ids = Vec::new();
        let t = Instant::now();
        while t.elapsed() < Duration::from_secs(20) {
            match tokio::time::timeout(Duration::from_secs(4), ws.next()).await {
                Ok(Some(Ok(WsMsg::Binary(b)))) => { if let Some(h) = RawHeader::parse(&b) { ids.push(h.id); } }
                Ok(Some(Ok(_))) => {}
                _ => break,
            }
        }
        Some(ids)
    });
    let ops = vec![format!("teardown {} {} {} {}", seqno, epname, n, garbage)];
    match got {
        None => out.count("dispatch.teardown.connect_failed"),
        Some(ids) => {
            let want: Vec<u64> = (0..n).map(|i| 920_000 + i as u64).collect();
            if ids != want {
                out.oracle_fail("dispatch.teardown.responses_lost", &format!("{}: {} well-framed requests were sent before an unusable frame (kind {}); responses received: {:?}", epname, n, garbage, ids), &ops);
            } else {
                out.count(&format!("dispatch.teardown.ok.{}", garbage));
            }
        }
    }
}

/// Teardown on the TCP transports: a burst of requests and then bytes that are no frame (wrong magic), in one write.
/// Every response was written before the server read the bad bytes, so all must arrive, in order, before EOF.
fn tcp_burst_then_garbage(out: &mut Out, sv: &Servers, epname: &str, n: usize, seqno: usize) {
    let ep = sv.ep(epname);
    let ops = vec![format!("tcpteardown {} {} {}", seqno, epname, n)];
    let Ok(mut s) = std::net::TcpStream::connect(ep.addr) else { out.count("dispatch.teardown.connect_failed"); return };
    let mut wire = Vec::new();
    for i in 0..n {
        wire.extend(RawFrame::request(930_000 + i as u64, i % 3 == 2, 1, b"/json", 2, format!("[{}]", i).as_bytes()).to_vec());
    }
    // exactly one header's worth of bytes, so the server has read everything when it gives up (a close with unread
    // bytes would reset the connection and could discard responses still in flight)
    let mut bad = RawFrame::request(1, false, 1, b"", 2, b"");
    bad.h.spec = 0x0715;
    wire.extend(bad.to_vec());
    if s.write_all(&wire).is_err() { out.count("dispatch.teardown.connect_failed"); return; }
    let bytes = net::drain(&mut s, 1 << 24, Duration::from_secs(10));
    let (frames, tail) = RawFrame::split_stream(&bytes);
    let ids: Vec<u64> = frames.iter().map(|f| f.h.id).collect();
    let want: Vec<u64> = (0..n).filter(|i| i % 3 != 2).map(|i| 930_000 + i as u64).collect();
    if ids != want || !tail.is_empty() {
        out.oracle_fail("dispatch.teardown.tcp_responses_lost", &format!("{}: {} requests then garbage in one write; responses received {:?} (+{} stray bytes), expected {:?}", epname, n, ids, tail.len(), want), &ops);
    } else {
        out.count("dispatch.teardown.tcp_ok");
    }
}

/// Requests that share one id (0, a small one, u64::MAX…) on one connection: each still gets its own response, in
/// arrival order on the inline paths (bodies tell them apart).
fn dup_ids(out: &mut Out, sv: &Servers, id: u64, n: usize, seqno: usize) {
    let ops = vec![format!("dupids {} {} {}", seqno, id, n)];
    let reqs: Vec<ReqSpec> = (0..n).map(|k| {
        let body = format!("[{}]", k).into_bytes();
        let f = RawFrame::request(id, false, 1, b"/json", 2, &body);
        ReqSpec { h: f.h, query: b"/json".to_vec(), body, pings: 0 }
    }).collect();
    let want: Vec<Vec<u8>> = (0..n).map(|k| serde_json::to_vec(&json!({"route": "/json", "got": [k]})).unwrap()).collect();
    for ep in sv.eps.iter().filter(|e| !matches!(e.name, "wsb" | "wsp" | "tcpx" | "tcpy" | "tcps" | "atcps" | "wsl")) {
        let ev = n as u64;
        let t = match ep.kind { Kind::Tcp => run_tcp(ep, &reqs, &[id], ev, Duration::ZERO, SeqParams::default()), Kind::Ws => run_ws(sv, ep, &reqs, &[id], ev, Duration::ZERO, SeqParams::default()) };
        let got: Vec<Vec<u8>> = t.frames.iter().map(|f| f.body.clone()).collect();
        if !t.problems.is_empty() || got != want || t.frames.iter().any(|f| f.h.id != id || f.h.ec != 0) {
            out.oracle_fail(&format!("dispatch.{}.duplicate_ids", ep.name), &format!("{} requests with id {}: got {} responses {:?} problems {:?}", n, id, t.frames.len(), t.frames.iter().map(|f| (f.h.id, f.h.ec, String::from_utf8_lossy(&f.body).into_owned())).collect::<Vec<_>>(), t.problems), &ops);
            return; // one failing input is enough; every further endpoint would wait out its watchdog
        } else {
            out.count("dispatch.dup_ids.ok");
        }
    }
}

/// Off-reader handlers that panic (three payload kinds) between ordinary requests on one WebSocket connection.
/// C03 says nothing about a panicking handler's own response (C16 does); asserted here: every *other* request still
/// gets exactly one response, inline ones in order, a notify none, and a panicking request at most one.
fn panic_offreader(out: &mut Out, sv: &Servers, epname: &str, seqno: usize) {
    let ep = sv.ep(epname);
    let ops = vec![format!("panicws {} {}", seqno, epname)];
    let mk = |id: u64, notify: bool, path: &[u8], body: &[u8]| {
        let f = RawFrame::request(id, notify, 1, path, 2, body);
        ReqSpec { h: f.h, query: path.to_vec(), body: body.to_vec(), pings: 0 }
    };
    let b = 940_000u64;
    let reqs = vec![
        mk(b + 1, false, b"/json", b"1"), mk(b + 2, false, b"/panic_b", b"{\"p\":\"str\"}"), mk(b + 3, false, b"/json_b", b"3"), mk(b + 4, true, b"/panic_b", b"{\"p\":\"string\"}"),
        mk(b + 5, false, b"/panic_b", b"{\"p\":\"any\"}"), mk(b + 6, false, b"/json", b"6"), mk(b + 7, false, b"/panic_b", b"{\"p\":\"calm\"}"),
    ];
    let calm = [b + 1, b + 3, b + 6, b + 7];
    // wrapped: pipeline exits are counted only for handlers that return; bare: closure entries, all seven
    let ev = if ep.wrapped { 4 } else { 7 };
    let t = run_ws(sv, ep, &reqs, &calm, ev, Duration::ZERO, SeqParams::default());
    let ids: Vec<u64> = t.frames.iter().map(|f| f.h.id).collect();
    let count = |id: u64| ids.iter().filter(|x| **x == id).count();
    let pos = |id: u64| ids.iter().position(|x| *x == id);
    let ok = t.problems.is_empty() && calm.iter().all(|id| count(*id) == 1) && count(b + 4) == 0 && count(b + 2) <= 1 && count(b + 5) <= 1 && pos(b + 1) < pos(b + 6);
    if !ok {
        out.oracle_fail(&format!("dispatch.{}.panic_disturbs_other_requests", epname), &format!("responses {:?} problems {:?}", ids, t.problems), &ops);
    } else {
        out.count("dispatch.panic_offreader.ok");
        out.add("dispatch.panic_offreader.panicking_answered", (count(b + 2) + count(b + 5)) as u64);
    }
}

/// (l) Off-reader responses that have to be handed to the writer while the outbound queue is full and the peer is not
/// reading: `m` off-reader requests with ~700 KB responses (several MB in all: more than the socket buffers hold)
/// and a few inline ones; the client starts reading only after `stall` ms. Every request must still be answered once.
fn offreader_backpressure(out: &mut Out, sv: &Servers, epname: &str, m: usize, stall: u64, seqno: usize) {
    let ep = sv.ep(epname);
    let ops = vec![format!("offfull {} {} {} {}", seqno, epname, m, stall)];
    let big = format!("\"{}\"", "z".repeat(700_000)).into_bytes();
    let mut reqs = Vec::new();
    for k in 0..m {
        let id = 950_000 + 2 * k as u64;
        let f = RawFrame::request(id, false, 1, b"/json_b", 2, &big);
        reqs.push(ReqSpec { h: f.h, query: b"/json_b".to_vec(), body: big.clone(), pings: 0 });
        let f = RawFrame::request(id + 1, false, 1, b"/json", 2, b"[1]");
        reqs.push(ReqSpec { h: f.h, query: b"/json".to_vec(), body: b"[1]".to_vec(), pings: 0 });
    }
    let ids: Vec<u64> = reqs.iter().map(|r| r.h.id).collect();
    let t = run_ws(sv, ep, &reqs, &ids, 2 * m as u64, Duration::ZERO, SeqParams { stall, ..SeqParams::default() });
    let mut got: Vec<u64> = t.frames.iter().map(|f| f.h.id).collect();
    got.sort();
    if !t.problems.is_empty() || got != ids {
        let missing: Vec<u64> = ids.iter().filter(|i| !got.contains(i)).cloned().collect();
        out.oracle_fail(&format!("dispatch.{}.offreader_response_lost_under_backpressure", epname), &format!("{} off-reader requests with large responses while the client did not read for {} ms: unanswered {:?}, problems {:?}", m, stall, missing, t.problems), &ops);
    } else {
        out.count("dispatch.offreader_backpressure.ok");
    }
}

/// (i) A sender that stalls in the middle of a frame for longer than the server's configured read timeout (300 ms).
/// The server may give the connection up; what it must not do is lose or reorder the answers to the requests it had
/// received in full before, or answer anything twice. With a stall shorter than the timeout everything is answered.
fn stalled_sender(out: &mut Rec, sv: &Servers, epname: &str, k: usize, cut: usize, long: bool, seqno: usize) {
    let ep = sv.ep(epname);
    let ops = vec![format!("stall {} {} {} {} {}", seqno, epname, k, cut, long as u8)];
    let Ok(mut s) = std::net::TcpStream::connect(ep.addr) else { out.count("dispatch.stall.connect_failed"); return };
    s.set_nodelay(true).ok();
    let mut wire = Vec::new();
    for i in 0..k {
        wire.extend(RawFrame::request(960_000 + i as u64, false, 1, b"/json", 2, format!("[{}]", i).as_bytes()).to_vec());
    }
    let last = RawFrame::request(960_000 + k as u64, false, 1, b"/json", 2, b"[\"late\"]").to_vec();
    let cut = cut.min(last.len() - 1).max(1);
    wire.extend(&last[..cut]);
    if s.write_all(&wire).is_err() { out.count("dispatch.stall.connect_failed"); return; }
    std::thread::sleep(Duration::from_millis(if long { 900 } else { 60 }));
    let _ = s.write_all(&last[cut..]);
    let _ = s.write_all(&sentinel(S1));
    // read until the sentinel's answer, EOF / reset, or 8 s of silence
    let mut bytes = Vec::new();
    let mut tmp = [0u8; 65536];
    s.set_read_timeout(Some(Duration::from_secs(8))).ok();
    loop {
        match s.read(&mut tmp) {
            Ok(0) | Err(_) => break,
            Ok(n) => bytes.extend_from_slice(&tmp[..n]),
        }
        if RawFrame::split_stream(&bytes).0.iter().any(|f| f.h.id == S1) { break; }
    }
    let (frames, _tail) = RawFrame::split_stream(&bytes);
    let ids: Vec<u64> = frames.iter().map(|f| f.h.id).filter(|i| *i != S1).collect();
    let full: Vec<u64> = (0..k as u64).map(|i| 960_000 + i).collect();
    let mut all = full.clone();
    all.push(960_000 + k as u64);
    let ok = if long { ids == full || ids == all } else { ids == all };
    if !ok {
        out.oracle_fail(&format!("dispatch.{}.stalled_sender", epname), &format!("{} whole requests, then a frame cut at byte {} and stalled {}: responses {:?}", k, cut, if long { "past the read timeout" } else { "briefly" }, ids), &ops);
    } else {
        out.count(if long { "dispatch.stall.long_ok" } else { "dispatch.stall.short_ok" });
    }
}

/// A connection that carries only notifies for longer than the configured read timeout (300 ms), each gap far below
/// it: the peer is never idle, so every notify must reach its handler and the request after them must be answered.
/// (If this machine was too slow to keep the gaps short the case is skipped, never failed.)
fn notify_keepalive(out: &mut Rec, sv: &Servers, epname: &str, n: usize, seqno: usize) {
    let ep = sv.ep(epname);
    let ops = vec![format!("keepalive {} {} {}", seqno, epname, n)];
    let Ok(mut s) = std::net::TcpStream::connect(ep.addr) else { out.count("dispatch.keepalive.connect_failed"); return };
    s.set_nodelay(true).ok();
    let before = ep.counters.closure_count("/json");
    let mut last = Instant::now();
    let mut worst = Duration::ZERO;
    for i in 0..n {
        if s.write_all(&RawFrame::request(995_000 + i as u64, true, 1, b"/json", 2, b"[0]").to_vec()).is_err() { break; }
        worst = worst.max(last.elapsed());
        last = Instant::now();
        std::thread::sleep(Duration::from_millis(50));
    }
    let _ = s.write_all(&RawFrame::request(996_000, false, 1, b"/json", 2, b"[1]").to_vec());
    worst = worst.max(last.elapsed());
    if worst > Duration::from_millis(150) { out.count("dispatch.keepalive.skipped_slow_machine"); return; }
    let bytes = {
        let mut bytes = Vec::new();
        let mut tmp = [0u8; 4096];
        s.set_read_timeout(Some(Duration::from_secs(8))).ok();
        loop {
            match s.read(&mut tmp) { Ok(0) | Err(_) => break, Ok(k) => bytes.extend_from_slice(&tmp[..k]) }
            if !RawFrame::split_stream(&bytes).0.is_empty() { break; }
        }
        bytes
    };
    let ids: Vec<u64> = RawFrame::split_stream(&bytes).0.iter().map(|f| f.h.id).collect();
    let ran = ep.counters.closure_count("/json") - before;
    if ids != [996_000] || ran != n as u64 + 1 {
        out.oracle_fail(&format!("dispatch.{}.notifies_do_not_keep_connection_alive", epname), &format!("{} notifies 50 ms apart (read timeout 300 ms), then a request: responses {:?}, handler ran {} times (expected {})", n, ids, ran, n + 1), &ops);
    } else {
        out.count("dispatch.keepalive.ok");
    }
}

/// (m) An inline handler that panics on a TCP server takes its connection down. C03 says nothing about that request;
/// the requests before it were answered and flushed before it was even read, so their responses must have arrived.
fn tcp_inline_panic(out: &mut Out, sv: &Servers, epname: &str, payload: &str, seqno: usize) {
    let ep = sv.ep(epname);
    let ops = vec![format!("tcppanic {} {} {}", seqno, epname, payload)];
    let Ok(mut s) = std::net::TcpStream::connect(ep.addr) else { out.count("dispatch.tcppanic.connect_failed"); return };
    let mut wire = Vec::new();
    wire.extend(RawFrame::request(970_001, false, 1, b"/json", 2, b"[1]").to_vec());
    wire.extend(RawFrame::request(970_002, false, 1, b"/typed", 2, b"{\"a\":2,\"b\":\"x\"}").to_vec());
    wire.extend(RawFrame::request(970_003, false, 1, b"/panic", 2, format!("{{\"p\":\"{}\"}}", payload).as_bytes()).to_vec());
    wire.extend(RawFrame::request(970_004, false, 1, b"/json", 2, b"[4]").to_vec());
    if s.write_all(&wire).is_err() { out.count("dispatch.tcppanic.connect_failed"); return; }
    let bytes = net::drain(&mut s, 1 << 20, Duration::from_secs(3));
    let (frames, _) = RawFrame::split_stream(&bytes);
    let ids: Vec<u64> = frames.iter().map(|f| f.h.id).collect();
    if ids.len() < 2 || ids[0] != 970_001 || ids[1] != 970_002 || ids.iter().filter(|i| **i == 970_003).count() > 1 || frames.iter().any(|f| f.h.id == 970_003 && f.h.ec == 0) {
        out.oracle_fail(&format!("dispatch.{}.panic_loses_earlier_responses", epname), &format!("two ordinary requests, then one whose inline handler panics ({}): responses {:?}", payload, ids), &ops);
    } else {
        out.count("dispatch.tcppanic.ok");
    }
}

/// (m) Shutdown while a connection is in use. `graceful = false`: `serve_listener_with_shutdown` only stops accepting;
/// a connection that is already open keeps being served. `graceful = true`: `serve_listener_with_graceful_drain`
/// cancels the readers; the responses of requests that were dispatched before (client not reading, writer blocked,
/// queue non-empty) must still be delivered by the drain.
fn shutdown_midflight(out: &mut Rec, sv: &Servers, graceful: bool, n: usize, seqno: usize) {
    use tokio_tungstenite::tungstenite::Message as WsMsg;
    let ops = vec![format!("shutdown {} {} {}", seqno, graceful as u8, n)];
    let c = Counters::default();
    let r = make_router(&c, false);
    let (tx, rx) = tokio::sync::oneshot::channel::<()>();
    let addr = sv.rt.block_on(async {
        let l = tokio::net::TcpListener::bind("127.0.0.1:0").await.unwrap();
        let a = l.local_addr().unwrap();
        tokio::spawn(async move {
            let s = repe::websocket_server::WebSocketServer::new(r);
            let sd = async { let _ = rx.await; };
            if graceful { let _ = s.serve_listener_with_graceful_drain(l, "/repe", sd, Duration::from_secs(15)).await; } else { let _ = s.serve_listener_with_shutdown(l, "/repe", sd).await; }
        });
        a
    });
    let body = format!("\"{}\"", "g".repeat(if graceful { 700_000 } else { 10 })).into_bytes();
    let closures = c.clone();
    let got: Option<Vec<u64>> = sv.rt.block_on(async {
        let mut ws = ws_connect(addr).await?;
        let mut ids = Vec::new();
        for i in 0..n {
            ws.send(WsMsg::Binary(RawFrame::request(980_000 + i as u64, false, 1, b"/json", 2, &body).to_vec())).await.ok()?;
        }
        if graceful {
            // all n dispatched (their responses are queued or on the way) before the shutdown is signalled
            let t = Instant::now();
            while closures.total_closures() < n as u64 && t.elapsed() < Duration::from_secs(10) { tokio::time::sleep(Duration::from_millis(5)).await; }
            if closures.total_closures() < n as u64 { return None; }
            let _ = tx.send(());
            tokio::time::sleep(Duration::from_millis(100)).await;
        } else {
            while ids.len() < n {
                match tokio::time::timeout(Duration::from_secs(8), ws.next()).await { Ok(Some(Ok(WsMsg::Binary(b)))) => ids.push(RawHeader::parse(&b)?.id), Ok(Some(Ok(_))) => {}, _ => return Some(ids) }
            }
            let _ = tx.send(());
            tokio::time::sleep(Duration::from_millis(50)).await;
            for i in n..2 * n {
                if ws.send(WsMsg::Binary(RawFrame::request(980_000 + i as u64, false, 1, b"/json", 2, &body).to_vec())).await.is_err() { return Some(ids); }
            }
        }
        let want = if graceful { n } else { 2 * n };
        while ids.len() < want {
            match tokio::time::timeout(Duration::from_secs(8), ws.next()).await { Ok(Some(Ok(WsMsg::Binary(b)))) => ids.push(RawHeader::parse(&b)?.id), Ok(Some(Ok(_))) => {}, _ => break }
        }
        Some(ids)
    });
    let want: Vec<u64> = (0..if graceful { n } else { 2 * n }).map(|i| 980_000 + i as u64).collect();
    match got {
        None => out.count("dispatch.shutdown.setup_failed"),
        Some(ids) if ids != want => out.oracle_fail(if graceful { "dispatch.shutdown.queued_responses_lost_in_drain" } else { "dispatch.shutdown.open_connection_not_served" }, &format!("responses {:?}, expected {:?}", ids, want), &ops),
        Some(_) => out.count(if graceful { "dispatch.shutdown.drain_ok" } else { "dispatch.shutdown.open_ok" }),
    }
}

/// Saturated off-reader cap: `limit` handlers of ONE connection are parked on a gate (not on sleeps) when `extra` more
/// non-notify off-reader requests and some inline ones arrive; then the gate opens. Whatever the server does with the
/// extra ones (refuse with ResourceExhausted or run them), C03 still says: every request id gets exactly one response,
/// a request that was answered with a refusal did not have its handler run, a request whose handler ran is answered
/// with the handler's result. `limit == 0`: the server's default cap (16).
fn saturate(out: &mut Rec, sv: &Servers, limit: usize, extra: usize, wrapped: bool, seqno: usize) {
    use tokio_tungstenite::tungstenite::Message as WsMsg;
    let ops = vec![format!("saturate {} {} {} {}", seqno, limit, extra, wrapped as u8)];
    let c = Counters::default();
    let r = make_router(&c, wrapped);
    let addr = sv.rt.block_on(async {
        let l = tokio::net::TcpListener::bind("127.0.0.1:0").await.unwrap();
        let a = l.local_addr().unwrap();
        tokio::spawn(async move {
            let mut s = repe::websocket_server::WebSocketServer::new(r);
            if limit != 0 { s = s.with_offreader_limit(limit); }
            let _ = s.serve_listener(l, "/repe").await;
        });
        a
    });
    let parked = if limit == 0 { 16 } else { limit };
    let c2 = c.clone();
    // (id, ec) of every response frame, in arrival order
    let got: Option<Vec<(u64, u32)>> = sv.rt.block_on(async {
        let mut ws = ws_connect(addr).await?;
        let mut seen: Vec<(u64, u32)> = Vec::new();
        for i in 0..parked {
            ws.send(WsMsg::Binary(RawFrame::request(990_000 + i as u64, false, 1, b"/gate_b", 2, b"1").to_vec())).await.ok()?;
        }
        // all `parked` handlers are inside their closure (holding every permit) before anything else is sent
        let t = Instant::now();
        while c2.closure_count("/gate_b") < parked as u64 {
            if t.elapsed() > Duration::from_secs(15) { return None; }
            tokio::time::sleep(Duration::from_millis(3)).await;
        }
        for i in 0..extra {
            ws.send(WsMsg::Binary(RawFrame::request(991_000 + i as u64, false, 1, b"/json_b", 2, format!("[{}]", i).as_bytes()).to_vec())).await.ok()?;
            ws.send(WsMsg::Binary(RawFrame::request(992_000 + i as u64, false, 1, b"/json", 2, b"[0]").to_vec())).await.ok()?;
        }
        ws.send(WsMsg::Binary(sentinel(S1))).await.ok()?;
        // read until the sentinel is answered (every frame was read, every refusal queued), give a late second answer
        // a moment, open the gate, then read until all parked requests are answered and the line is quiet
        let mut opened = false;
        let mut quiet_since = Instant::now();
        let t = Instant::now();
        loop {
            if t.elapsed() > Duration::from_secs(25) { break; }
            match tokio::time::timeout(Duration::from_millis(50), ws.next()).await {
                Ok(Some(Ok(WsMsg::Binary(b)))) => { let h = RawHeader::parse(&b)?; if h.notify == 0 { seen.push((h.id, h.ec)); } quiet_since = Instant::now(); }
                Ok(Some(Ok(_))) => {}
                Ok(None) | Ok(Some(Err(_))) => break,
                Err(_) => {}
            }
            let have_s1 = seen.iter().any(|(id, _)| *id == S1);
            if have_s1 && !opened && quiet_since.elapsed() > Duration::from_millis(150) { c2.open_gate(); opened = true; }
            let gated_done = (0..parked).all(|i| seen.iter().any(|(id, _)| *id == 990_000 + i as u64));
            let extras_done = (0..extra).all(|i| seen.iter().any(|(id, _)| *id == 991_000 + i as u64) && seen.iter().any(|(id, _)| *id == 992_000 + i as u64));
            if opened && gated_done && extras_done && quiet_since.elapsed() > Duration::from_millis(400) { break; }
        }
        c2.open_gate();
        Some(seen)
    });
    c.open_gate();
    let Some(seen) = got else { out.count("dispatch.saturate.setup_failed"); return };
    let count = |id: u64| seen.iter().filter(|(i, _)| *i == id).count();
    let mut bad = Vec::new();
    for i in 0..parked { if count(990_000 + i as u64) != 1 { bad.push(format!("parked request {} got {} responses", 990_000 + i as u64, count(990_000 + i as u64))); } }
    let mut ran_expected = 0u64;
    for i in 0..extra {
        let id = 991_000 + i as u64;
        if count(id) != 1 { bad.push(format!("off-reader request {} sent at the saturated cap got {} responses {:?}", id, count(id), seen.iter().filter(|(x, _)| *x == id).map(|(_, e)| *e).collect::<Vec<_>>())); }
        if seen.iter().any(|(x, e)| *x == id && *e == 0) { ran_expected += 1; }
        if count(992_000 + i as u64) != 1 { bad.push(format!("inline request {} got {} responses", 992_000 + i as u64, count(992_000 + i as u64))); }
    }
    // handlers of refused requests must not have run; handlers of answered ones ran once
    std::thread::sleep(Duration::from_millis(100));
    let ran = c.closure_count("/json_b");
    if bad.is_empty() && ran != ran_expected { bad.push(format!("{} off-reader handlers ran but {} of the extra requests were answered with a handler result (the others were refused)", ran, ran_expected)); }
    if bad.is_empty() { out.count(&format!("dispatch.saturate.ok.{}", limit)); } else {
        out.oracle_fail("dispatch.saturate.refused_request_also_dispatched", &format!("cap {} ({}), {} extra: {}", limit, if wrapped { "wrapped" } else { "bare" }, extra, bad.join("; ")), &ops);
    }
}

/// (s) Deliveries that stall for longer than any plausible internal timer, on endpoints whose configured read timeout
/// is none or 30 s: k whole requests, a frame cut mid-way, a stall, the rest, a sentinel. Nothing may be lost,
/// duplicated or reordered. All (endpoint, stall) pairs run at once, so the wall time is the longest stall.
fn long_stalls(out: &mut Out, sv: &Servers, stalls: &[u64], seqno: usize) {
    use tokio_tungstenite::tungstenite::protocol::frame::{coding::{Data, OpCode}, Frame, FrameHeader};
    use tokio_tungstenite::tungstenite::Message as WsMsg;
    let results: Vec<(String, u64, Vec<u64>, Vec<u64>)> = std::thread::scope(|sc| {
        let mut hs = Vec::new();
        for (j, ep) in sv.eps.iter().filter(|e| matches!(e.name, "tcp" | "tcpw" | "tcpn" | "atcp" | "atcpn" | "ws" | "wsn")).enumerate() {
            for (i, st) in stalls.iter().enumerate() {
                let (st, base) = (*st, 1_000_000 + (j * 10 + i) as u64 * 100);
                hs.push(sc.spawn(move || {
                    let k = 2 + (i + j) % 3;
                    let cut = [8usize, 48, 50, 55][(i + j) % 4];
                    let frames: Vec<Vec<u8>> = (0..=k as u64).map(|n| RawFrame::request(base + n, false, 1, b"/json", 2, format!("[{}]", n).as_bytes()).to_vec()).collect();
                    let want: Vec<u64> = (0..=k as u64).map(|n| base + n).collect();
                    let mut ids = Vec::new();
                    match ep.kind {
                        Kind::Tcp => {
                            if let Ok(mut s) = std::net::TcpStream::connect(ep.addr) {
                                s.set_nodelay(true).ok();
                                let mut wire: Vec<u8> = frames[..k].concat();
                                wire.extend(&frames[k][..cut]);
                                let _ = s.write_all(&wire);
                                std::thread::sleep(Duration::from_millis(st));
                                let _ = s.write_all(&frames[k][cut..]);
                                let _ = s.write_all(&sentinel(S1));
                                let mut bytes = Vec::new();
                                let mut tmp = [0u8; 65536];
                                s.set_read_timeout(Some(Duration::from_secs(10))).ok();
                                loop {
                                    match s.read(&mut tmp) { Ok(0) | Err(_) => break, Ok(n) => bytes.extend_from_slice(&tmp[..n]) }
                                    if RawFrame::split_stream(&bytes).0.iter().any(|f| f.h.id == S1) { break; }
                                }
                                ids = RawFrame::split_stream(&bytes).0.iter().map(|f| f.h.id).filter(|i| *i != S1).collect();
                            }
                        }
                        Kind::Ws => {
                            ids = sv.rt.block_on(async {
                                let mut ids = Vec::new();
                                let Some(mut ws) = ws_connect(ep.addr).await else { return ids };
                                for f in &frames[..k] { let _ = ws.send(WsMsg::Binary(f.clone())).await; }
                                // the last request as two message fragments with the stall in between
                                let h1 = FrameHeader { is_final: false, opcode: OpCode::Data(Data::Binary), ..FrameHeader::default() };
                                let h2 = FrameHeader { is_final: true, opcode: OpCode::Data(Data::Continue), ..FrameHeader::default() };
                                let _ = ws.send(WsMsg::Frame(Frame::from_payload(h1, frames[k][..cut].to_vec()))).await;
                                tokio::time::sleep(Duration::from_millis(st)).await;
                                let _ = ws.send(WsMsg::Frame(Frame::from_payload(h2, frames[k][cut..].to_vec()))).await;
                                let _ = ws.send(WsMsg::Binary(sentinel(S1))).await;
                                loop {
                                    match tokio::time::timeout(Duration::from_secs(10), ws.next()).await {
                                        Ok(Some(Ok(WsMsg::Binary(b)))) => match RawHeader::parse(&b) { Some(h) if h.id == S1 => break, Some(h) => ids.push(h.id), None => break },
                                        Ok(Some(Ok(_))) => {}
                                        _ => break,
                                    }
                                }
                                ids
                            });
                        }
                    }
                    (ep.name.to_string(), st, ids, want)
                }));
            }
        }
        hs.into_iter().map(|h| h.join().expect("stall runner")).collect()
    });
    for (name, st, ids, want) in results {
        if ids != want {
            out.oracle_fail(&format!("dispatch.{}.lost_after_long_stall", name), &format!("a frame delivered in two pieces {} ms apart: responses {:?}, expected {:?}", st, ids, want), &[format!("longstall {} {}", seqno, stalls.iter().map(|s| s.to_string()).collect::<Vec<_>>().join(","))]);
        } else {
            out.count(&format!("dispatch.long_stall.ok.{}", st));
        }
    }
}

/// (q) Many connections to one server at the same moment (12), each with its own pipelined requests: every connection
/// gets exactly its own responses, in its own order.
fn many_connections(out: &mut Out, sv: &Servers, epname: &str, conns: usize, seqno: usize) {
    let ep = sv.ep(epname);
    let results: Vec<(Vec<(u64, Vec<u8>)>, Vec<(u64, Vec<u8>)>)> = std::thread::scope(|sc| {
        let hs: Vec<_> = (0..conns).map(|cidx| sc.spawn(move || {
            let base = 2_000_000 + cidx as u64 * 1000;
            let k = 3 + cidx % 5;
            let reqs: Vec<ReqSpec> = (0..k as u64).map(|n| { let body = format!("[{},{}]", cidx, n).into_bytes(); let f = RawFrame::request(base + n, n % 4 == 3, 1, b"/json", 2, &body); ReqSpec { h: f.h, query: b"/json".to_vec(), body, pings: 0 } }).collect();
            let want: Vec<(u64, Vec<u8>)> = reqs.iter().filter(|r| r.h.notify != 1).map(|r| (r.h.id, serde_json::to_vec(&json!({"route": "/json", "got": serde_json::from_slice::<Value>(&r.body).unwrap()})).unwrap())).collect();
            let ids: Vec<u64> = want.iter().map(|w| w.0).collect();
            // the endpoint's progress counter is shared by all connections: ask for no handler-exit count here
            let t = match ep.kind { Kind::Tcp => run_tcp(ep, &reqs, &ids, 0, Duration::ZERO, SeqParams::default()), Kind::Ws => run_ws(sv, ep, &reqs, &ids, 0, Duration::ZERO, SeqParams::default()) };
            (t.frames.iter().map(|f| (f.h.id, f.body.clone())).collect(), want)
        })).collect();
        hs.into_iter().map(|h| h.join().expect("connection runner")).collect()
    });
    let bad = results.iter().filter(|(got, want)| got != want).count();
    if bad > 0 {
        let (got, want) = results.iter().find(|(g, w)| g != w).unwrap();
        out.oracle_fail(&format!("dispatch.{}.concurrent_connections", epname), &format!("{} of {} simultaneous connections did not get exactly their own responses in order; one got ids {:?}, expected {:?}", bad, conns, got.iter().map(|g| g.0).collect::<Vec<_>>(), want.iter().map(|g| g.0).collect::<Vec<_>>()), &[format!("manyconn {} {} {}", seqno, epname, conns)]);
    } else {
        out.count("dispatch.many_connections.ok");
    }
}

/// (j) Observer threads: route lookups and `execution()` on the very routers the servers dispatch through, all the
/// time the sequences run. Every observation must be the registered table's answer.
fn spawn_observers(sv: &Servers, stop: Arc<std::sync::atomic::AtomicBool>, bad: Arc<Mutex<Vec<String>>>, seen: Arc<std::sync::atomic::AtomicU64>) -> Vec<std::thread::JoinHandle<()>> {
    let routers: Vec<(&'static str, Router)> = sv.eps.iter().map(|e| (e.name, e.router.clone())).collect();
    (0..2u64).map(|t| {
        let (routers, stop, bad, seen) = (routers.clone(), stop.clone(), bad.clone(), seen.clone());
        std::thread::spawn(move || {
            let mut r = Rng::new(0xB5E7 + t);
            let probes: Vec<&str> = EXACT.iter().map(|e| e.path).chain(MOUNT_PATHS.iter().cloned()).chain(["/nope", "/devx", "/regx", "", "/json/"]).collect();
            while !stop.load(std::sync::atomic::Ordering::Relaxed) {
                let (name, router) = r.pick(&routers);
                let p = *r.pick(&probes);
                let want = expected_route(p);
                let got = router.get(p);
                let ok = match (&want, &got) { (None, None) => true, (Some(w), Some(h)) => (h.execution() == repe::Execution::OffReader) == w.blocking, _ => false };
                if !ok { let mut b = bad.lock().unwrap(); if b.len() < 4 { b.push(format!("{}: Router::get({:?}) observed {} while serving, table says {}", name, p, got.is_some(), want.is_some())); } }
                seen.fetch_add(1, std::sync::atomic::Ordering::Relaxed);
                std::thread::sleep(Duration::from_micros(250));
            }
        })
    }).collect()
}

/// A sequence that keeps outbound queues full: large echoed bodies interleaved with rejected requests
/// and small inline ones, read slowly by the client.
fn gen_pressure(r: &mut Rng, base_id: u64) -> Vec<ReqSpec> {
    let n = r.range(12, 28) as usize;
    let mut v = Vec::new();
    for k in 0..n {
        let id = base_id + k as u64 + 1;
        let mk = |f: RawFrame| ReqSpec { h: f.h, query: f.query, body: f.body, pings: 0 };
        let spec = match r.below(6) {
            0 | 1 => {
                // big echo through an inline JSON route
                let len = *r.pick(&[4_000usize, 20_000, 70_000, 70_000, 150_000]);
                let body = format!("\"{}\"", "x".repeat(len)).into_bytes();
                mk(RawFrame::request(id, false, 1, b"/json", 2, &body))
            }
            2 => {
                // rejected: unknown path / bad version / raw-binary query format
                let mut f = RawFrame::request(id, false, 1, b"/nope", 2, b"{}");
                match r.below(3) { 0 => {}, 1 => f.h.version = 2, _ => f.h.query_format = 0 }
                mk(f)
            }
            3 => mk(RawFrame::request(id, false, 1, b"/json_b", 2, b"{\"a\":1}")),
            // a small typed request right behind a large frame: the connection's read buffer is reused
            4 => mk(RawFrame::request(id, false, 1, b"/typed", *r.pick(&[2u16, 3]), b"{\"a\":4,\"b\":\"s\"}")),
            _ => mk(RawFrame::request(id, r.chance(1, 4), 1, b"/json", 2, b"[1,2]")),
        };
        v.push(spec);
    }
    v
}

/// (g) N identical events back to back on one connection, then one ordinary request: the N-th is treated like the
/// first. Returns the requests and whether the client should stall before reading (long runs against the default
/// outbound queue of 256).
fn gen_run(r: &mut Rng, base_id: u64, thorough: bool, first: bool) -> (Vec<ReqSpec>, u64) {
    // the first run of a run is always a long one of routing refusals (a counter of consecutive refusals must show early)
    let kind = if first { *r.pick(&[0u64, 1, 2, 3]) } else { r.below(16) };
    let mut n = if first { *r.pick(&[65usize, 257]) } else { *r.pick(&[1usize, 2, 7, 8, 9, 16, 17, 64, 65, 255, 256, 257]) };
    if thorough && r.chance(1, 6) { n = 1000; }
    // more than 16 concurrent off-reader requests may meet the per-connection cap (C16's subject)
    if kind == 13 { n = n.min(16); }
    let mk = |id: u64, notify: bool, path: &[u8], bf: u16, body: &[u8]| { let f = RawFrame::request(id, notify, 1, path, bf, body); ReqSpec { h: f.h, query: path.to_vec(), body: body.to_vec(), pings: 0 } };
    let mut v = Vec::new();
    if kind == 14 {
        // N keep-alives in a row before one request
        let mut q = mk(base_id + 1, false, b"/json", 2, b"[0]");
        q.pings = n as u32;
        v.push(q);
    } else {
        for k in 0..n {
            let id = base_id + 1 + k as u64;
            let mut q = match kind {
                0 => mk(id, false, b"/nope", 2, b"{}"),
                1 => { let mut q = mk(id, false, b"/json", 2, b"{}"); q.h.version = 2; q }
                2 => { let mut q = mk(id, false, b"/json", 2, b"{}"); q.h.query_format = 2; q }
                3 => mk(id, false, b"/\xff\xfe", 2, b"{}"),
                4 => mk(id, true, b"/json", 2, b"[4]"),
                5 => mk(id, true, b"/nope", 2, b"{}"),
                6 => mk(id, true, b"/typed", 2, b"{\"a\":"),
                7 => mk(id, false, b"/typed", 2, b"{\"a\":"),
                8 => mk(id, false, b"/slice", 2, b"[1.0]"),
                9 => mk(id, false, b"/json", 2, b"{\"fail\":true}"),
                10 => mk(id, false, b"/json", 2, b"#mw-err"),
                11 => mk(id, false, b"/custom", 0, b"!no"),
                12 => mk(id, false, b"/json", *r.pick(&[1u16, 2, 3]), b""),
                13 => mk(id, false, b"/json_b", 2, b"[13]"),
                _ => mk(id, false, b"/typed_beve", 2, b"{\"a\":15,\"b\":\"same\"}"),
            };
            if kind == 15 && k % 2 == 1 { q.h.notify = 1; }
            v.push(q);
        }
    }
    v.push(mk(base_id + 5000, false, b"/json", 2, b"[\"after\"]"));
    (v, if n >= 255 && r.chance(1, 2) { 300 } else { 0 })
}

/// (p) Every error a callback can hand to the dispatch layer, once each, on one connection: the custom handler's
/// `Err(RepeError)` of every variant (`Io` with every kind of the list), the gate middleware's, and every `ErrorCode` a
/// closure can return.
fn gen_error_sweep(base_id: u64) -> Vec<ReqSpec> {
    let mk = |id: u64, path: &[u8], bf: u16, body: Vec<u8>| { let f = RawFrame::request(id, false, 1, path, bf, &body); ReqSpec { h: f.h, query: path.to_vec(), body, pings: 0 } };
    let mut v = Vec::new();
    let mut id = base_id;
    let mut next = || { id += 1; id };
    for l in ERR_LETTERS {
        if *l == b'i' {
            for k in 0..IO_KINDS.len() as u8 { v.push(mk(next(), b"/custom", 0, vec![b'!', b'i', k])); }
        } else {
            v.push(mk(next(), b"/custom", 0, vec![b'!', *l]));
        }
        let mut g = b"#mw-err".to_vec();
        g.push(*l);
        g.push(3 + (*l % 2)); // Io: WouldBlock / TimedOut
        v.push(mk(next(), b"/json", 2, g));
    }
    for n in 0..11 {
        v.push(mk(next(), if n % 2 == 0 { b"/json" } else { b"/json_b" }, 2, format!("{{\"fail\":{}}}", n).into_bytes()));
    }
    v
}

/// Paths whose multi-byte characters straddle the byte offsets in `BOUNDARIES`, in every place a path is echoed or
/// quoted back (unknown path, path below a registry / struct / tree mount, rejected query format / version with such a
/// query, a registered route whose closure fails), each followed by an ordinary request on the same connection.
fn gen_straddle_sweep(r: &mut Rng, base_id: u64) -> Vec<ReqSpec> {
    let mk = |id: u64, path: &[u8], bf: u16, body: &[u8]| { let f = RawFrame::request(id, false, 1, path, bf, body); ReqSpec { h: f.h, query: path.to_vec(), body: body.to_vec(), pings: 0 } };
    let mut v = Vec::new();
    let mut id = base_id;
    for b in BOUNDARIES {
        for ch in WIDE {
            let j = r.range(1, ch.len() as u64 - 1) as usize;
            id += 1;
            let mut q = match r.below(6) {
                0 => mk(id, straddle_path("/reg/", b, ch, j, "").as_bytes(), 2, b""),
                1 => mk(id, straddle_path("/dev/", b, ch, j, "").as_bytes(), 2, b""),
                2 => { let mut q = mk(id, straddle_path("/", b, ch, j, "").as_bytes(), 2, b"{}"); q.h.query_format = *r.pick(&[0u16, 2]); q }
                3 => { let mut q = mk(id, straddle_path("/", b, ch, j, "").as_bytes(), 2, b"{}"); q.h.version = 2; q }
                _ => mk(id, straddle_path("/", b, ch, j, *r.pick(&["", "x"])).as_bytes(), 2, b"{}"),
            };
            if r.chance(1, 6) { q.h.notify = 1; }
            v.push(q);
        }
        id += 1;
        v.push(mk(id, straddle_routes()[BOUNDARIES.iter().position(|x| *x == b).unwrap()].as_bytes(), 2, if r.chance(1, 2) { b"{\"fail\":6}" } else { b"[1]" }));
        id += 1;
        v.push(mk(id, b"/json", 2, b"[\"behind\"]"));
    }
    v
}

/// (h) frames whose sizes sit just below / at / just above the crate's internal sizes: the 8 KiB `BufReader` /
/// `BufWriter` of both TCP servers (whole frames of 8191 / 8192 / 8193 bytes, so that later headers straddle the
/// buffer end), 16 KiB, 64 KiB, queries of 47 / 48 / 49 bytes, struct paths of 15 / 16 / 17 / 21 segments
/// (`STACK_SEGS` = 16, spill capacity 20), BEVE size-prefix switches at 64 and 16384 elements.
fn gen_sized(r: &mut Rng, base_id: u64, thorough: bool) -> Vec<ReqSpec> {
    let mk = |id: u64, path: &[u8], bf: u16, body: Vec<u8>| { let f = RawFrame::request(id, false, 1, path, bf, &body); ReqSpec { h: f.h, query: path.to_vec(), body, pings: 0 } };
    let mut v = Vec::new();
    let n = r.range(3, 7);
    for k in 0..n {
        let id = base_id + 1 + k;
        v.push(match r.below(6) {
            0 | 1 => {
                // total frame size T: 48 + 5 ("/json") + body, body = a JSON string
                let t = *r.pick(&[8191usize, 8192, 8193, 16383, 16384, 16385, 65535, 65536, 65537, 8192 - 48, 8192 + 48]);
                let body = format!("\"{}\"", "s".repeat(t - 48 - 5 - 2)).into_bytes();
                mk(id, b"/json", 2, body)
            }
            2 => { let q = format!("/{}", "q".repeat(*r.pick(&[46usize, 47, 48, 8191 - 48, 8192 - 48]))); mk(id, q.as_bytes(), 2, b"{}".to_vec()) }
            3 => { let q = gen_tree_path(r); mk(id, q.as_bytes(), 2, Vec::new()) }
            4 => { let n = if thorough || r.chance(1, 3) { *r.pick(&[16383usize, 16384]) } else { *r.pick(&[63usize, 64, 65]) }; mk(id, b"/slice", 1, enc_f64s(&vec![0.5; n])) }
            _ => mk(id, b"/typed", 2, b"{\"a\":1,\"b\":\"small\"}".to_vec()),
        });
    }
    v
}

/// (n) Public entry points of the anchored files this family drives, and those it knowingly does not (with the reason).
/// Anything else the tree under test declares is reported (`not_driven` in stats.json, stderr).
const DRIVEN: &[(&str, &[&str])] = &[
    ("server.rs", &["new", "get", "run", "ctx", "peer", "with", "with_json", "with_json_ctx", "with_json_blocking", "with_json_ctx_blocking", "with_typed", "with_typed_ctx",
        "with_typed_blocking", "with_typed_ctx_blocking", "with_typed_slice", "with_typed_slice_ref", "with_handler", "with_erased_handler", "with_middleware", "register_middleware",
        "with_registry", "register_registry", "with_struct", "with_struct_shared", "register_struct", "register_struct_shared", "json", "beve", "utf8", "raw_binary",
        "listen", "serve", "read_timeout", "write_timeout", "tcp_nodelay"]),
    ("async_server.rs", &["new", "listen", "serve", "read_timeout", "write_timeout"]),
    ("websocket_server.rs", &["new", "listen", "with_outbound_capacity", "with_offreader_limit", "with_limits", "serve_listener", "serve_listener_with_shutdown",
        "serve_listener_with_graceful_drain", "into_shared", "accept", "accept_with_handshake", "serve_connection", "serve_connection_with_handshake"]),
];
const NOT_DRIVEN: &[(&str, &str, &str)] = &[
    ("server.rs", "stop", "only ends the accept loop of a server value that `serve(self)` has consumed; no C03 clause"),
    ("server.rs", "poisoned", "LockError constructor, not on a dispatch path"),
    ("server.rs", "other", "LockError constructor, not on a dispatch path"),
    ("websocket_server.rs", "serve", "binds its own address, then serve_listener (driven)"),
    ("websocket_server.rs", "serve_with_shutdown", "binds its own address, then serve_listener_with_shutdown (driven)"),
    ("websocket_server.rs", "serve_with_graceful_drain", "binds its own address, then serve_listener_with_graceful_drain (driven)"),
    ("websocket_server.rs", "accept_with_limits", "reached through accept (driven)"),
    ("websocket_server.rs", "accept_with_handshake_and_limits", "reached through accept_with_handshake (driven)"),
    ("websocket_server.rs", "adopt_upgraded", "embedder-side upgrade: C15's family"),
    ("websocket_server.rs", "adopt_upgraded_partially_read", "embedder-side upgrade: C15's family"),
    ("websocket_server.rs", "serve_connection_with_cancel", "cancel tokens: C15's family"),
    ("websocket_server.rs", "serve_connection_with_cancel_and_handshake", "cancel tokens: C15's family"),
    ("websocket_server.rs", "cancel", "ShutdownToken: C15"), ("websocket_server.rs", "cancelled", "ShutdownToken: C15"), ("websocket_server.rs", "is_cancelled", "ShutdownToken: C15"),
    ("websocket_server.rs", "on_error", "hooks: C15 / C16"), ("websocket_server.rs", "on_peer_connect", "hooks: C15"), ("websocket_server.rs", "on_peer_connect_with_handshake", "hooks: C15"),
    ("websocket_server.rs", "on_peer_disconnect", "hooks: C15"), ("websocket_server.rs", "with_peer_registry", "C18"),
    ("websocket_server.rs", "proxy_connection", "proxy: C17"), ("websocket_server.rs", "proxy_connection_with_limits", "proxy: C17"),
    ("websocket_server.rs", "derive_accept_key", "handshake helper"), ("websocket_server.rs", "is_websocket_upgrade", "handshake helper"), ("websocket_server.rs", "from_http_request", "handshake helper"),
    ("websocket_server.rs", "header", "HandshakeContext getter"), ("websocket_server.rs", "headers", "HandshakeContext getter"), ("websocket_server.rs", "path", "HandshakeContext getter"),
    ("websocket_server.rs", "query", "HandshakeContext getter"), ("websocket_server.rs", "error_code", "ConnectionError getter"), ("websocket_server.rs", "limits", "getter"),
];
fn entry_point_audit(out: &mut Out) {
    let repo = std::env::var("VERIF_REPO").unwrap_or_else(|_| "/repo".into());
    let mut missing = Vec::new();
    for (file, driven) in DRIVEN {
        let text = std::fs::read_to_string(std::path::Path::new(&repo).join("src").join(file)).unwrap_or_default();
        let text = text.split("#[cfg(test)]").next().unwrap_or("").to_string();
        for line in text.lines() {
            let t = line.trim_start();
            for pre in ["pub async fn ", "pub fn "] {
                if let Some(rest) = t.strip_prefix(pre) {
                    let name: String = rest.chars().take_while(|c| c.is_alphanumeric() || *c == '_').collect();
                    let known = driven.contains(&name.as_str()) || NOT_DRIVEN.iter().any(|(f, n, _)| f == file && *n == name);
                    let item = format!("{}::{}", file, name);
                    if !name.is_empty() && !known && !missing.contains(&item) { missing.push(item); }
                }
            }
        }
    }
    if !missing.is_empty() {
        eprintln!("dispatch: public entry points of the anchored files that this family neither drives nor lists as not driven: {:?}", missing);
        out.add("dispatch.NOT_DRIVEN", missing.len() as u64);
    }
    out.extra.insert("not_driven".into(), json!(missing));
    out.extra.insert("not_driven_by_design".into(), json!(NOT_DRIVEN.iter().map(|(f, n, why)| format!("{}::{} - {}", f, n, why)).collect::<Vec<_>>()));
}

/// Results of a scenario that runs on its own server / endpoints in the background while the next sequences go on.
#[derive(Default)]
struct Rec {
    fails: Vec<(String, String, Vec<String>)>,
    counts: Vec<String>,
}
impl Rec {
    fn oracle_fail(&mut self, sig: &str, detail: &str, ops: &[String]) { self.fails.push((sig.to_string(), detail.to_string(), ops.to_vec())); }
    fn count(&mut self, k: &str) { self.counts.push(k.to_string()); }
    fn merge(self, out: &mut Out) {
        for (s, d, o) in self.fails { out.oracle_fail(&s, &d, &o); }
        for k in self.counts { out.count(&k); }
    }
}

/// (o) Run `f` (a call into the crate) on its own thread under a watchdog; `None` = it did not return in time and is
/// abandoned. Three expiries end the run.
static EXPIRIES: std::sync::atomic::AtomicU64 = std::sync::atomic::AtomicU64::new(0);
fn guarded<T: Send + 'static>(f: impl FnOnce() -> T + Send + 'static) -> Option<T> {
    let (tx, rx) = std::sync::mpsc::channel();
    std::thread::spawn(move || { let _ = tx.send(f()); });
    match rx.recv_timeout(Duration::from_secs(12)) {
        Ok(v) => Some(v),
        Err(_) => { EXPIRIES.fetch_add(1, std::sync::atomic::Ordering::SeqCst); None }
    }
}

fn kv<'a>(line: &'a str, key: &str) -> Option<&'a str> {
    words(line).into_iter().find_map(|w| w.strip_prefix(key).and_then(|r| r.strip_prefix('=')))
}

fn main() {
    let args = Args::parse();
    quiet_panics();
    let mut out = Out::new(&args.out);
    out.rule = "pipelined request sequences (length 1..64) over registered (ASCII and non-ASCII) / unregistered / non-UTF-8 / very long paths, every built-in handler kind (json, typed with each TypedResponse format, ctx, bulk slice, borrowed slice incl. the aligned wire form, JsonTypedHandler adapter, registry mounts, struct mounts over Mutex and RwLock, custom erased with own / empty response query, blocking variants), each served by routers behind a counting + gate middleware AND by bare routers, versions {1,0,2,3,127,128,254,255}, notify {0,1,2,3,127..255,random}, query formats {1,0,2,3,255..65535}, body formats 0..5/255/256/999/4095/4096/65535 with bodies tailored to the kind (boundary integers, empty / non-ASCII / 70 KiB strings, 0..1000-element arrays), malformed, truncated, wrong-typed, non-UTF-8, random and empty bodies, ids incl. 0 / 2^32 / 2^63 / u64::MAX, TCP writes in chunks of 0/1/7/48/49/1000 bytes, WebSocket pings between requests; sent raw to the real Server, AsyncServer and WebSocketServer (ten endpoints). Distinct by op line; non-trivial = answered with ec 0".into();
    entry_point_audit(&mut out);
    let sv = start_servers();
    let probe = Probes { wrapped: make_router(&Counters::default(), true), bare: make_router(&Counters::default(), false) };
    let mut rng = Rng::new(args.seed);
    if let Some(ops) = args.replay_ops() {
        // replay: rebuild the request sequence (or the scenario) from recorded op lines
        let mut reqs = Vec::new();
        let mut params = SeqParams::default();
        let mut rec = Rec::default();
        for l in &ops {
            let w = words(l);
            match w.first().copied() {
                Some("req") => {
                    let f: Vec<u64> = w[2..13].iter().map(|x| x.parse().unwrap()).collect();
                    let h = RawHeader { length: f[0], spec: f[1] as u16, version: f[2] as u8, notify: f[3] as u8, reserved: f[4] as u32, id: f[5], query_length: f[6], body_length: f[7], query_format: f[8] as u16, body_format: f[9] as u16, ec: f[10] as u32 };
                    reqs.push(ReqSpec { h, query: unhex(w[13]).unwrap(), body: unhex(w[14]).unwrap(), pings: kv(l, "pg").and_then(|x| x.parse().ok()).unwrap_or(0) });
                }
                Some("inv") => {
                    params.chunk = kv(l, "chunk").and_then(|x| x.parse().ok()).unwrap_or(0);
                    params.pressure = kv(l, "pressure") == Some("1");
                    params.cut = kv(l, "cut").and_then(|x| x.parse().ok()).unwrap_or(0);
                    params.stall = kv(l, "stall").and_then(|x| x.parse().ok()).unwrap_or(0);
                }
                Some("busy") => busy_pool_close(&mut out, &sv, w[2].parse().unwrap(), 0),
                Some("teardown") => burst_then_garbage(&mut out, &sv, w[2], w[3].parse().unwrap(), w[4].parse().unwrap(), 0),
                Some("tcpteardown") => tcp_burst_then_garbage(&mut out, &sv, w[2], w[3].parse().unwrap(), 0),
                Some("dupids") => dup_ids(&mut out, &sv, w[2].parse().unwrap(), w[3].parse().unwrap(), 0),
                Some("panicws") => panic_offreader(&mut out, &sv, w[2], 0),
                Some("longstall") => { let st: Vec<u64> = w[2].split(',').filter_map(|x| x.parse().ok()).collect(); long_stalls(&mut out, &sv, &st, 0) }
                Some("manyconn") => many_connections(&mut out, &sv, w[2], w[3].parse().unwrap(), 0),
                Some("saturate") => saturate(&mut rec, &sv, w[2].parse().unwrap(), w[3].parse().unwrap(), w[4] == "1", 0),
                Some("offfull") => offreader_backpressure(&mut out, &sv, w[2], w[3].parse().unwrap(), w[4].parse().unwrap(), 0),
                Some("keepalive") => notify_keepalive(&mut rec, &sv, w[2], w[3].parse().unwrap(), 0),
                Some("stall") => stalled_sender(&mut rec, &sv, w[2], w[3].parse().unwrap(), w[4].parse().unwrap(), w[5] == "1", 0),
                Some("tcppanic") => tcp_inline_panic(&mut out, &sv, w[2], w[3], 0),
                Some("shutdown") => shutdown_midflight(&mut rec, &sv, w[2] == "1", w[3].parse().unwrap(), 0),
                Some("probe") | Some("lookup") => {
                    // a probe-level failure: re-run the one request as a sequence of its own
                    let q = unhex(w[1]).unwrap();
                    let (bf, body) = if w.len() >= 4 { (w[2].parse().unwrap(), unhex(w[3]).unwrap()) } else { (2u16, Vec::new()) };
                    let f = RawFrame::request(1, false, 1, &q, bf, &body);
                    reqs.push(ReqSpec { h: f.h, query: q, body, pings: 0 });
                }
                _ => {}
            }
        }
        rec.merge(&mut out);
        if !reqs.is_empty() {
            run_sequence(&mut out, &sv, &probe, 0, &reqs, params);
        }
    } else {
        let nseq = if args.thorough() { 1000 } else { 104 };
        let stop = Arc::new(std::sync::atomic::AtomicBool::new(false));
        let bad = Arc::new(Mutex::new(Vec::<String>::new()));
        let seen = Arc::new(std::sync::atomic::AtomicU64::new(0));
        let observers = spawn_observers(&sv, stop.clone(), bad.clone(), seen.clone());
        // a broken tree must give its failing input soon: stop after 12 oracle failures, or after 3 sequences /
        // scenarios that had to wait for something that never came
        let mut slow_failures = 0;
        // (o) the run itself is bounded: no new sequence once the budget is used up (an unbroken tree needs a fifth of it)
        let (started, budget) = (Instant::now(), Duration::from_secs(if args.thorough() { 780 } else { 150 }));
        let sv = &sv;
        std::thread::scope(|sc| {
        // scenarios that use only their own server (or the scenario-only endpoints) run in the background, one at a time
        let mut deferred: Option<std::thread::ScopedJoinHandle<Rec>> = None;
        for s in 0..nseq {
            if out.oracle_failures >= 12 || slow_failures >= 3 || EXPIRIES.load(std::sync::atomic::Ordering::SeqCst) >= 3 {
                break;
            }
            if started.elapsed() > budget {
                out.count("dispatch.budget_stop");
                break;
            }
            let (fails0, t0) = (out.oracle_failures, Instant::now());
            let pressure = s % 8 == 7;
            let mut params = SeqParams { pressure, ..SeqParams::default() };
            let base = (s as u64) * 1000;
            let reqs: Vec<ReqSpec> = if pressure {
                if rng.chance(1, 2) { params.stall = 250; }
                gen_pressure(&mut rng, base)
            } else if s % 8 == 2 {
                let (v, stall) = gen_run(&mut rng, base, args.thorough(), s == 2);
                params.stall = stall;
                out.count("dispatch.run_sequences");
                v
            } else if s % 32 == 1 {
                out.count("dispatch.straddle_sweeps");
                gen_straddle_sweep(&mut rng, base)
            } else if s % 64 == 9 {
                out.count("dispatch.error_sweeps");
                gen_error_sweep(base)
            } else if s % 8 == 4 {
                out.count("dispatch.sized_sequences");
                gen_sized(&mut rng, base, args.thorough())
            } else {
                let len = match rng.below(6) { 0 => 1, 1 => rng.range(2, 4), 2 | 3 => rng.range(5, 16), 4 => rng.range(17, 40), _ => rng.range(41, 64) } as usize;
                let mut used = HashSet::new();
                (0..len).map(|k| { let id = gen_id(&mut rng, s as u64, k as u64, &mut used); gen_request(&mut rng, id) }).collect()
            };
            let bytes: usize = reqs.iter().map(|r| r.body.len() + r.query.len()).sum();
            if !pressure {
                match rng.below(6) {
                    0 | 1 => params.chunk = *rng.pick(&[1usize, 7, 48, 49, 1000]),
                    2 | 3 => params.cut = rng.next() | 1,
                    _ => {}
                }
                // byte-at-a-time writes of large bodies are slow without adding anything (thorough does some)
                if params.chunk == 1 && bytes > if args.thorough() { 60_000 } else { 20_000 } { params.chunk = 49; }
            }
            let t_seq = Instant::now();
            run_sequence(&mut out, &sv, &probe, s, &reqs, params);
            out.add(&format!("dispatch.ms.sequences.{}", if pressure { "pressure" } else if s % 8 == 2 { "run" } else if s % 8 == 4 { "sized" } else { "ordinary" }), t_seq.elapsed().as_millis() as u64);
            let t_scen = Instant::now();
            match s % 16 {
                5 => { let k = rng.range(3, 8) as usize; busy_pool_close(&mut out, &sv, k, s); }
                9 => { let k = rng.range(4, 10) as usize; let g = rng.below(4); burst_then_garbage(&mut out, &sv, *rng.pick(&["wsp", "wsn", "wsq"]), k, g, s); }
                11 => { let k = rng.range(2, 12) as usize; tcp_burst_then_garbage(&mut out, &sv, *rng.pick(&["tcp", "tcpw", "atcp", "atcpw", "tcpn", "atcpn", "tcpz", "atcpz"]), k, s); }
                13 => { let id = *rng.pick(&[0u64, 1, 7, u64::MAX, 1 << 63]); let k = *rng.pick(&[2usize, 3, 5, 9, 17, 65]); dup_ids(&mut out, &sv, id, k, s); }
                3 => panic_offreader(&mut out, &sv, *rng.pick(&["ws", "wsn", "wsq"]), s),
                1 => { let m = rng.range(3, 6) as usize; offreader_backpressure(&mut out, &sv, *rng.pick(&["wsq", "wsp", "wsb", "wsn"]), m, if args.thorough() { *rng.pick(&[400u64, 900]) } else { 350 }, s); }
                6 => { let long = rng.chance(1, 2); let k = rng.range(0, 5) as usize; let cut = *rng.pick(&[1usize, 8, 47, 48, 49, 53, 56]); let ep = *rng.pick(&["tcps", "atcps"]);
                    if let Some(h) = deferred.take() { h.join().expect("scenario").merge(&mut out); }
                    let keep = s % 32 == 22;
                    let n = rng.range(10, 16) as usize;
                    deferred = Some(sc.spawn(move || { let mut r = Rec::default(); if keep { notify_keepalive(&mut r, sv, ep, n, s) } else { stalled_sender(&mut r, sv, ep, k, cut, long, s) } r })); }
                8 => tcp_inline_panic(&mut out, &sv, *rng.pick(&["tcp", "tcpn", "atcp", "atcpn", "tcpw", "atcpw"]), *rng.pick(&["str", "any"]), s),
                12 => many_connections(&mut out, &sv, *rng.pick(&["tcp", "atcp", "ws", "wsn", "tcpn", "atcpn"]), 12, s),
                4 if s == 20 => long_stalls(&mut out, &sv, &[300, 600, 1100], s),
                4 if s == 36 && args.thorough() => long_stalls(&mut out, &sv, &[2500, 5500, 11000], s),
                10 => { let limit = *rng.pick(&[1usize, 2, 4, 0]); let extra = rng.range(1, 3) as usize; let w = rng.chance(1, 2);
                    if let Some(h) = deferred.take() { h.join().expect("scenario").merge(&mut out); }
                    deferred = Some(sc.spawn(move || { let mut r = Rec::default(); saturate(&mut r, sv, limit, extra, w, s); r })); }
                14 => { let g = s % 32 == 14; let n = if g { rng.range(5, 9) } else { rng.range(2, 8) } as usize;
                    if let Some(h) = deferred.take() { h.join().expect("scenario").merge(&mut out); }
                    deferred = Some(sc.spawn(move || { let mut r = Rec::default(); shutdown_midflight(&mut r, sv, g, n, s); r })); }
                _ => {}
            }
            out.add(&format!("dispatch.ms.scenario.{}", s % 16), t_scen.elapsed().as_millis() as u64);
            if out.oracle_failures > fails0 && t0.elapsed() > Duration::from_secs(8) { slow_failures += 1; }
        }
        if let Some(h) = deferred.take() { h.join().expect("scenario").merge(&mut out); }
        });
        stop.store(true, std::sync::atomic::Ordering::Relaxed);
        for h in observers { let _ = h.join(); }
        out.add("dispatch.observer.router_get", seen.load(std::sync::atomic::Ordering::Relaxed));
        for b in bad.lock().unwrap().iter() {
            out.oracle_fail("dispatch.observer.router_get", b, &["observe".to_string()]);
        }
    }
    out.finish();
    std::process::exit(0); // servers run detached threads
}
