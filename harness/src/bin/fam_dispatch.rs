//! Family `dispatch` (C03): pipelined request sequences through the real blocking TCP server, async TCP
//! server and WebSocket server (inline and off-reader routes); raw clients with an independent frame
//! codec; per-request handler outcomes are probed in-process and handed to the model.
use futures_util::{SinkExt, StreamExt};
use repe::constants::ErrorCode;
use repe::server::{HandlerErased, Middleware, Next};
use repe::{CallContext, Message, MessageView, Registry, RepeError, Router};
use repe_verif_harness::frames::{RawFrame, RawHeader};
use repe_verif_harness::*;
use serde::{Deserialize, Serialize};
use serde_json::{json, Value};
use std::collections::BTreeMap;
use std::io::{Read, Write};
use std::sync::{Arc, Mutex};
use std::time::{Duration, Instant};

const WATCHDOG: Duration = Duration::from_secs(20);
/// how long a response may take to arrive with no further request sent before that is reported
const GRACE: Duration = Duration::from_secs(6);

#[derive(Clone, Default)]
struct Counters {
    started: Arc<Mutex<BTreeMap<String, u64>>>,
    done: Arc<Mutex<u64>>,
    closures: Arc<Mutex<BTreeMap<String, u64>>>,
}
impl Counters {
    fn closure(&self, k: &str) {
        *self.closures.lock().unwrap().entry(k.to_string()).or_insert(0) += 1;
    }
    fn total_started(&self) -> u64 {
        self.started.lock().unwrap().values().sum()
    }
    fn total_done(&self) -> u64 {
        *self.done.lock().unwrap()
    }
}

struct CountingMw(Counters);
impl Middleware for CountingMw {
    fn handle(&self, req: &Message, next: Next<'_>) -> Result<Message, RepeError> {
        let key = hex(&req.query);
        *self.0.started.lock().unwrap().entry(key).or_insert(0) += 1;
        let r = next.run(req);
        *self.0.done.lock().unwrap() += 1;
        r
    }
}

#[derive(Serialize, Deserialize, Debug)]
struct TIn {
    a: i64,
    b: String,
}
#[derive(Serialize, Deserialize, Debug)]
struct TOut {
    sum: i64,
    echo: String,
}

#[derive(Default, Serialize, Deserialize, repe::RepeStruct)]
#[repe(methods(hello(&self) -> String, add(&self, v: Vec<i64>) -> i64))]
struct Device {
    gain: i32,
    label: String,
}
impl Device {
    fn hello(&self) -> String {
        "hi".into()
    }
    fn add(&self, v: Vec<i64>) -> i64 {
        v.iter().fold(0i64, |a, b| a.wrapping_add(*b))
    }
}

/// Custom erased handler that sets its own response query and unusual header fields.
struct Custom(Counters);
impl HandlerErased for Custom {
    fn handle(&self, req: &Message) -> Result<Message, RepeError> {
        self.0.closure("/custom");
        if req.body.first() == Some(&b'!') {
            return Err(RepeError::ServerError { code: ErrorCode::Timeout, message: "custom refused".into() });
        }
        let mut m = Message::builder().id(req.header.id).query_str("/own/query").query_format_code(1).body_bytes(req.body.clone()).body_format_code(1234).build();
        m.header.reserved = 0xABCD;
        Ok(m)
    }
}

fn make_router(c: &Counters) -> Router {
    let reg = Arc::new(Registry::new());
    reg.register_value("/a", json!({"b": 1, "list": [1, 2, 3]})).unwrap();
    reg.register_value("/s", json!("text")).unwrap();
    {
        let c2 = c.clone();
        reg.register_function("/f", move |v: Option<Value>| {
            c2.closure("/reg/f");
            Ok(json!({"called": v}))
        })
        .unwrap();
    }
    // two more registries whose prefixes are string prefixes (without a '/' boundary) of `/dev` and `/reg`
    let reg_de = Arc::new(Registry::new());
    reg_de.register_value("/v", json!("from-de")).unwrap();
    let reg_re = Arc::new(Registry::new());
    reg_re.register_value("/v", json!("from-re")).unwrap();
    let mk = |name: &'static str, c: &Counters| {
        let c = c.clone();
        move |v: Value| {
            c.closure(name);
            if v.get("fail").is_some() {
                return Err((ErrorCode::ApplicationErrorBase, format!("{} failed", name)));
            }
            Ok(json!({"route": name, "got": v}))
        }
    };
    let mkctx = |name: &'static str, c: &Counters| {
        let c = c.clone();
        move |ctx: &CallContext, v: Value| {
            c.closure(name);
            Ok(json!({"route": name, "method": ctx.method(), "got": v}))
        }
    };
    let mkt = |name: &'static str, c: &Counters| {
        let c = c.clone();
        move |i: TIn| -> Result<TOut, (ErrorCode, String)> {
            c.closure(name);
            if i.a == 13 {
                return Err((ErrorCode::InvalidBody, "unlucky".into()));
            }
            Ok(TOut { sum: i.a.wrapping_mul(2), echo: i.b })
        }
    };
    let mktctx = |name: &'static str, c: &Counters| {
        let c = c.clone();
        move |_ctx: &CallContext, i: TIn| -> Result<TOut, (ErrorCode, String)> {
            c.closure(name);
            Ok(TOut { sum: i.a.wrapping_add(1), echo: i.b })
        }
    };
    let c_sl = c.clone();
    let c_slr = c.clone();
    let c_tb = c.clone();
    let (router, _dev) = Router::new()
        .with_json("/json", mk("/json", c))
        .with_json("/__end", |_v| Ok(json!("end")))
        .with_typed::<TIn, TOut, _>("/typed", mkt("/typed", c))
        .with_typed::<TIn, TOut, _>("/typed_beve", move |i: TIn| -> Result<repe::TypedResponse<TOut>, (ErrorCode, String)> {
            c_tb.closure("/typed_beve");
            Ok(repe::TypedResponse::beve(TOut { sum: i.a, echo: i.b }))
        })
        .with_json_ctx("/json_ctx", mkctx("/json_ctx", c))
        .with_typed_ctx::<TIn, TOut, _>("/typed_ctx", mktctx("/typed_ctx", c))
        .with_typed_slice::<f64, f64, _>("/slice", move |v: Vec<f64>| {
            c_sl.closure("/slice");
            Ok(v.iter().map(|x| x * 2.0).collect())
        })
        .with_typed_slice_ref::<u32, u32, _>("/slice_ref", move |v: &[u32]| {
            c_slr.closure("/slice_ref");
            Ok(v.iter().rev().cloned().collect())
        })
        .with_registry("/reg", reg)
        .with_registry("/de", reg_de)
        .with_registry("/re", reg_re)
        .with_erased_handler("/custom", Arc::new(Custom(c.clone())))
        .with_json_blocking("/json_b", mk("/json_b", c))
        .with_json_blocking("/slow_b", |_v| {
            std::thread::sleep(Duration::from_millis(150));
            Ok(json!("slow"))
        })
        .with_json_ctx_blocking("/json_ctx_b", mkctx("/json_ctx_b", c))
        .with_typed_blocking::<TIn, TOut, _>("/typed_b", mkt("/typed_b", c))
        .with_typed_ctx_blocking::<TIn, TOut, _>("/typed_ctx_b", mktctx("/typed_ctx_b", c))
        .with_struct("/dev", Device { gain: 3, label: "x".into() });
    router.with_middleware(CountingMw(c.clone()))
}

// ------------------------------------------------------------------------------------------
// request descriptions
// ------------------------------------------------------------------------------------------
#[derive(Clone, Debug)]
struct ReqSpec {
    h: RawHeader,
    query: Vec<u8>,
    body: Vec<u8>,
}

fn gen_request(r: &mut Rng, id: u64) -> ReqSpec {
    let paths: &[&[u8]] = &[
        b"/json", b"/json", b"/typed", b"/typed_beve", b"/json_ctx", b"/typed_ctx", b"/slice", b"/slice_ref", b"/reg/a", b"/reg/a/b",
        b"/reg/a/list/1", b"/reg/f", b"/reg/s", b"/reg/missing", b"/reg", b"/reg/a~1b", b"/custom", b"/json_b", b"/json_ctx_b", b"/typed_b",
        b"/typed_ctx_b", b"/de/v", b"/de", b"/dex", b"/re/v", b"/regx", b"/devx", b"/dev/gain", b"/dev/label", b"/dev/hello", b"/dev/add", b"/dev", b"/dev/nope", b"/nope", b"", b"/", b"json",
        b"/json/", b"/jsonx", b"/\xff\xfe", b"\xc3\x28", b"/json\x00",
    ];
    let query = r.pick(paths).to_vec();
    let version = if r.chance(9, 10) { 1 } else { *r.pick(&[0u8, 2, 255]) };
    let notify = match r.below(10) { 0 | 1 | 2 => 1u8, 3 => *r.pick(&[2u8, 255]), _ => 0 };
    let qfmt = if r.chance(9, 10) { 1u16 } else { *r.pick(&[0u16, 2, 65535]) };
    let (bfmt, body): (u16, Vec<u8>) = match r.below(13) {
        0 => (2, b"{\"a\":5,\"b\":\"x\"}".to_vec()),
        1 => (2, b"{\"a\":13,\"b\":\"y\"}".to_vec()),
        2 => (2, b"[1,2,3]".to_vec()),
        3 => (2, b"{\"fail\":true}".to_vec()),
        4 => (2, b"{\"a\":".to_vec()), // malformed JSON
        5 => (3, b"{\"a\":7,\"b\":\"utf8\"}".to_vec()),
        6 => (1, beve::to_vec(&TIn { a: 21, b: "bv".into() }).unwrap()),
        7 => (1, { let mut m = Message::builder().body_typed_slice(&[1.5f64, -2.0, 1e300]).build(); std::mem::take(&mut m.body) }),
        8 => (1, { let mut m = Message::builder().body_typed_slice(&[7u32, 8, 9, 10]).build(); std::mem::take(&mut m.body) }),
        9 => match r.below(3) {
            0 => (*r.pick(&[0u16, 4, 999, 65535]), b"{\"a\":1,\"b\":\"z\"}".to_vec()),
            // invalid UTF-8 inside an otherwise valid JSON string, UTF-8- and JSON-framed
            1 => (*r.pick(&[2u16, 3]), b"{\"a\":7,\"b\":\"\xff\xfe\"}".to_vec()),
            _ => (*r.pick(&[2u16, 3]), b"[\"\xc3\x28\",1]".to_vec()),
        },
        10 => (*r.pick(&[1u16, 2, 3]), { let l = r.below(12) as usize; r.bytes(l) }),
        // text-framed bodies that are JSON except for bytes that are not UTF-8 (every decoder must refuse them alike)
        12 => (*r.pick(&[3u16, 3, 2]), r.pick(&[&b"{\"a\":7,\"b\":\"a\xffb\"}"[..], &b"{\"s\":\"\xed\xa0\x80\"}"[..], &b"\"\xf8\x88\x80\x80\x80\""[..], &b"{\"a\":1,\"b\":\"\xc0\xaf\"}"[..]]).to_vec()),
        _ => (*r.pick(&[0u16, 1, 2, 3]), Vec::new()),
    };
    let mut f = RawFrame::request(id, false, qfmt, &query, bfmt, &body);
    f.h.version = version;
    f.h.notify = notify;
    if r.chance(1, 8) {
        f.h.reserved = r.boundary(32) as u32;
    }
    if r.chance(1, 16) {
        f.h.ec = r.boundary(32) as u32;
    }
    ReqSpec { h: f.h, query, body }
}

fn hout_str(r: &Result<Message, RepeError>) -> String {
    match r {
        Ok(m) => format!("ok:{}:{}:{}", RawHeader::of(&m.header).fields().replace(' ', ","), hex(&m.query), hex(&m.body)),
        Err(e) => format!("err:{}:{}", e.to_error_code() as u32, hex(e.to_string().as_bytes())),
    }
}

fn show_resp(f: &RawFrame) -> String {
    format!("{},{},{},{},{},{}", f.h.id, f.h.ec, f.h.query_format, hex(&f.query), f.h.body_format, if f.h.ec != 0 { "E".to_string() } else { hex(&f.body) })
}

// ------------------------------------------------------------------------------------------
// transports
// ------------------------------------------------------------------------------------------
#[derive(Clone, Copy, PartialEq)]
enum Kind {
    Tcp,
    Ws,
}

struct Endpoint {
    name: &'static str,
    kind: Kind,
    addr: std::net::SocketAddr,
    counters: Counters,
}

struct Servers {
    eps: Vec<Endpoint>,
    rt: tokio::runtime::Runtime,
}

/// Five real endpoints: blocking TCP and async TCP, each with and without a configured write timeout
/// (different framing branches), and the WebSocket server; `wsp` is a WebSocket server whose outbound
/// channel holds a single message (used by the pressure sequences).
fn start_servers() -> Servers {
    let rt = tokio::runtime::Builder::new_multi_thread().worker_threads(4).enable_all().build().unwrap();
    let mut eps = Vec::new();
    for (name, wt) in [("tcp", None), ("tcpw", Some(Duration::from_secs(20)))] {
        let c = Counters::default();
        let listener = std::net::TcpListener::bind("127.0.0.1:0").unwrap();
        let addr = listener.local_addr().unwrap();
        let srv = repe::Server::new(make_router(&c)).write_timeout(wt);
        std::thread::spawn(move || {
            let _ = srv.serve(listener);
        });
        eps.push(Endpoint { name, kind: Kind::Tcp, addr, counters: c });
    }
    for (name, wt) in [("atcp", None), ("atcpw", Some(Duration::from_secs(20)))] {
        let c = Counters::default();
        let r = make_router(&c);
        let addr = rt.block_on(async {
            let l = tokio::net::TcpListener::bind("127.0.0.1:0").await.unwrap();
            let a = l.local_addr().unwrap();
            tokio::spawn(async move {
                let _ = repe::AsyncServer::new(r).write_timeout(wt).serve(l).await;
            });
            a
        });
        eps.push(Endpoint { name, kind: Kind::Tcp, addr, counters: c });
    }
    for (name, cap) in [("ws", None), ("wsp", Some(1usize))] {
        let c = Counters::default();
        let r = make_router(&c);
        let addr = rt.block_on(async {
            let l = tokio::net::TcpListener::bind("127.0.0.1:0").await.unwrap();
            let a = l.local_addr().unwrap();
            tokio::spawn(async move {
                let mut s = repe::websocket_server::WebSocketServer::new(r);
                if let Some(cap) = cap {
                    s = s.with_outbound_capacity(cap);
                }
                let _ = s.serve_listener(l, "/repe").await;
            });
            a
        });
        eps.push(Endpoint { name, kind: Kind::Ws, addr, counters: c });
    }
    // `wsb`: a WebSocket server on a runtime whose blocking pool has ONE thread (off-reader handlers queue up)
    {
        let c = Counters::default();
        let r = make_router(&c);
        let (tx, rx) = std::sync::mpsc::channel();
        std::thread::spawn(move || {
            let rt2 = tokio::runtime::Builder::new_multi_thread().worker_threads(2).max_blocking_threads(1).enable_all().build().unwrap();
            rt2.block_on(async move {
                let l = tokio::net::TcpListener::bind("127.0.0.1:0").await.unwrap();
                tx.send(l.local_addr().unwrap()).unwrap();
                let _ = repe::websocket_server::WebSocketServer::new(r).serve_listener(l, "/repe").await;
            });
        });
        let addr = rx.recv().unwrap();
        eps.push(Endpoint { name: "wsb", kind: Kind::Ws, addr, counters: c });
    }
    Servers { eps, rt }
}

/// Busy-pool scenario: one slow off-reader request occupies the only blocking thread, K notifies to a blocking
/// route queue up behind it, and the client closes at once. Every dispatched handler must still be invoked
/// exactly once (the property's "a dispatched request's handler is invoked exactly once").
fn busy_pool_close(out: &mut Out, sv: &Servers, k: usize, seqno: usize) {
    use tokio_tungstenite::tungstenite::Message as WsMsg;
    let ep = sv.eps.iter().find(|e| e.name == "wsb").unwrap();
    let key_n = hex(b"/json_b");
    let key_s = hex(b"/slow_b");
    let get = |key: &str| ep.counters.started.lock().unwrap().get(key).copied().unwrap_or(0);
    let (n0, s0) = (get(&key_n), get(&key_s));
    let url = format!("ws://{}/repe", ep.addr);
    let ok = sv.rt.block_on(async {
        let Ok((mut ws, _)) = tokio_tungstenite::connect_async(&url).await else { return false };
        let slow = RawFrame::request(900_000 + seqno as u64, false, 1, b"/slow_b", 2, b"null").to_vec();
        if ws.send(WsMsg::Binary(slow)).await.is_err() { return false; }
        for i in 0..k {
            let f = RawFrame::request(910_000 + i as u64, true, 1, b"/json_b", 2, b"{\"n\":1}").to_vec();
            if ws.send(WsMsg::Binary(f)).await.is_err() { return false; }
        }
        // a sentinel the reader answers inline proves every earlier frame was read and dispatched
        if ws.send(WsMsg::Binary(sentinel(S1))).await.is_err() { return false; }
        let t = Instant::now();
        while t.elapsed() < Duration::from_secs(10) {
            match tokio::time::timeout(Duration::from_millis(200), ws.next()).await {
                Ok(Some(Ok(WsMsg::Binary(b)))) => if RawHeader::parse(&b).map(|h| h.id == S1).unwrap_or(false) { break },
                Ok(None) | Ok(Some(Err(_))) => return false,
                _ => {}
            }
        }
        drop(ws); // close abruptly while the notifies are still queued behind the slow handler
        true
    });
    let ops = vec![format!("busy {} {}", seqno, k)];
    if !ok { out.oracle_fail("dispatch.wsb.connection", "busy-pool scenario: connection failed before all frames were dispatched", &ops); return; }
    let t = Instant::now();
    loop {
        let (n, s) = (get(&key_n) - n0, get(&key_s) - s0);
        if n == k as u64 && s == 1 { out.count("dispatch.busy_pool.ok"); break; }
        if n > k as u64 || s > 1 { out.oracle_fail("dispatch.wsb.handler_invoked_twice", &format!("{} notifies / {} slow invoked for {} / 1 dispatched", n, s, k), &ops); break; }
        if t.elapsed() > Duration::from_secs(15) {
            out.oracle_fail("dispatch.wsb.dispatched_handler_not_invoked", &format!("after the client closed, only {} of {} dispatched notify handlers (and {} of 1 request handler) were ever invoked", n, k, s), &ops);
            break;
        }
        std::thread::sleep(Duration::from_millis(20));
    }
}

/// What one transport returned for a sequence.
#[derive(Default)]
struct TransportRun {
    frames: Vec<RawFrame>, // in arrival order, sentinels removed
    problems: Vec<String>,
}

fn sentinel(id: u64) -> Vec<u8> {
    RawFrame::request(id, false, 1, b"/__end", 2, b"null").to_vec()
}

const S1: u64 = 0xFFFF_FFFF_0000_0001;
const S2: u64 = 0xFFFF_FFFF_0000_0002;

/// Raw TCP client: a writer thread sends the pipelined requests and the first sentinel while this
/// thread reads (so large sequences cannot deadlock on full socket buffers); `read_delay` slows the
/// reader down per frame (pressure sequences).
fn run_tcp(ep: &Endpoint, reqs: &[ReqSpec], expect_ids: &[u64], expect_dispatch: u64, read_delay: Duration) -> TransportRun {
    let counters = &ep.counters;
    let mut out = TransportRun::default();
    let base_done = counters.total_done();
    let mut s = match std::net::TcpStream::connect(ep.addr) {
        Ok(s) => s,
        Err(e) => { out.problems.push(format!("connect: {e}")); return out; }
    };
    s.set_nodelay(true).ok();
    let mut wire = Vec::new();
    for r in reqs {
        wire.extend(RawFrame { h: r.h.clone(), query: r.query.clone(), body: r.body.clone() }.to_vec());
    }
    let mut ws = s.try_clone().expect("clone");
    let writer = std::thread::spawn(move || ws.write_all(&wire).is_ok());
    let deadline = Instant::now() + WATCHDOG;
    // every response must arrive without any further request being sent: the first sentinel goes out only
    // once all expected responses are in (or after a grace period, which is then reported)
    let grace = Instant::now() + GRACE;
    let mut sent_s1 = false;
    let mut buf: Vec<u8> = Vec::new();
    let mut seen_s1 = false;
    let mut seen_s2 = false;
    let mut sent_s2 = false;
    s.set_read_timeout(Some(Duration::from_millis(4))).ok();
    let mut tmp = [0u8; 65536];
    loop {
        while let Some((f, n)) = RawFrame::parse_prefix(&buf) {
            buf.drain(..n);
            if f.h.id == S1 && f.query == b"/__end" { seen_s1 = true; continue; }
            if f.h.id == S2 && f.query == b"/__end" { seen_s2 = true; continue; }
            out.frames.push(f);
            if !read_delay.is_zero() { std::thread::sleep(read_delay); }
        }
        if seen_s2 { break; }
        if !sent_s1 && writer.is_finished() {
            let have: Vec<u64> = out.frames.iter().map(|f| f.h.id).collect();
            let all = expect_ids.iter().all(|i| have.contains(i));
            if all || Instant::now() > grace {
                if !all { out.problems.push("response-withheld-until-next-request".into()); }
                if s.write_all(&sentinel(S1)).is_err() { out.problems.push("write-s1".into()); break; }
                sent_s1 = true;
            }
        }
        if seen_s1 && !sent_s2 {
            let have: Vec<u64> = out.frames.iter().map(|f| f.h.id).collect();
            let all = expect_ids.iter().all(|i| have.contains(i));
            let quiesced = counters.total_done() - base_done >= expect_dispatch + 1;
            if (all && quiesced) || Instant::now() > deadline - Duration::from_secs(5) {
                if !all { out.problems.push("missing-response".into()); }
                if !quiesced { out.problems.push("handlers-not-finished".into()); }
                if s.write_all(&sentinel(S2)).is_err() { out.problems.push("write-s2".into()); break; }
                sent_s2 = true;
            }
        }
        if Instant::now() > deadline { out.problems.push("watchdog".into()); break; }
        match s.read(&mut tmp) {
            Ok(0) => { out.problems.push("connection-closed".into()); break; }
            Ok(n) => buf.extend_from_slice(&tmp[..n]),
            Err(e) if e.kind() == std::io::ErrorKind::WouldBlock || e.kind() == std::io::ErrorKind::TimedOut => {}
            Err(e) => { out.problems.push(format!("read: {e}")); break; }
        }
    }
    if !buf.is_empty() { out.problems.push("trailing-partial-frame".into()); }
    let _ = s.shutdown(std::net::Shutdown::Both);
    let _ = writer.join();
    out
}

fn run_ws(sv: &Servers, ep: &Endpoint, reqs: &[ReqSpec], expect_ids: &[u64], expect_dispatch: u64, read_delay: Duration) -> TransportRun {
    use tokio_tungstenite::tungstenite::Message as WsMsg;
    let counters = ep.counters.clone();
    let base_done = counters.total_done();
    let url = format!("ws://{}/repe", ep.addr);
    let reqs: Vec<Vec<u8>> = reqs.iter().map(|r| RawFrame { h: r.h.clone(), query: r.query.clone(), body: r.body.clone() }.to_vec()).collect();
    let expect_ids = expect_ids.to_vec();
    sv.rt.block_on(async move {
        let mut out = TransportRun::default();
        let ws = match tokio_tungstenite::connect_async(&url).await {
            Ok((x, _)) => x,
            Err(e) => { out.problems.push(format!("connect: {e}")); return out; }
        };
        let (mut sink, mut stream) = ws.split();
        let (s2_tx, mut s2_rx) = tokio::sync::mpsc::channel::<u64>(2);
        let sent_all = Arc::new(std::sync::atomic::AtomicBool::new(false));
        let sent_all2 = sent_all.clone();
        // sender task: all requests, then each sentinel when the reader asks for it
        let sender = tokio::spawn(async move {
            for r in reqs {
                if sink.send(WsMsg::Binary(r)).await.is_err() { return false; }
            }
            sent_all2.store(true, std::sync::atomic::Ordering::SeqCst);
            while let Some(id) = s2_rx.recv().await {
                if sink.send(WsMsg::Binary(sentinel(id))).await.is_err() { return false; }
            }
            let _ = tokio::time::timeout(Duration::from_millis(300), sink.close()).await;
            true
        });
        let deadline = Instant::now() + WATCHDOG;
        let grace = Instant::now() + GRACE;
        let mut sent_s1 = false;
        let (mut seen_s1, mut sent_s2) = (false, false);
        loop {
            if !sent_s1 && sent_all.load(std::sync::atomic::Ordering::SeqCst) {
                let have: Vec<u64> = out.frames.iter().map(|f| f.h.id).collect();
                let all = expect_ids.iter().all(|i| have.contains(i));
                if all || Instant::now() > grace {
                    if !all { out.problems.push("response-withheld-until-next-request".into()); }
                    if s2_tx.send(S1).await.is_err() { out.problems.push("send-s1".into()); break; }
                    sent_s1 = true;
                }
            }
            if seen_s1 && !sent_s2 {
                let have: Vec<u64> = out.frames.iter().map(|f| f.h.id).collect();
                let all = expect_ids.iter().all(|i| have.contains(i));
                let quiesced = counters.total_done() - base_done >= expect_dispatch + 1;
                if (all && quiesced) || Instant::now() > deadline - Duration::from_secs(5) {
                    if !all { out.problems.push("missing-response".into()); }
                    if !quiesced { out.problems.push("handlers-not-finished".into()); }
                    if s2_tx.send(S2).await.is_err() { out.problems.push("send-s2".into()); break; }
                    sent_s2 = true;
                }
            }
            if Instant::now() > deadline { out.problems.push("watchdog".into()); break; }
            match tokio::time::timeout(Duration::from_millis(4), stream.next()).await {
                Err(_) => continue,
                Ok(None) => { out.problems.push("connection-closed".into()); break; }
                Ok(Some(Err(e))) => { out.problems.push(format!("ws-error: {e}")); break; }
                Ok(Some(Ok(WsMsg::Binary(b)))) => match RawFrame::parse_prefix(&b) {
                    Some((f, n)) if n == b.len() => {
                        if f.h.id == S1 && f.query == b"/__end" { seen_s1 = true; continue; }
                        if f.h.id == S2 && f.query == b"/__end" { break; }
                        out.frames.push(f);
                        if !read_delay.is_zero() { tokio::time::sleep(read_delay).await; }
                    }
                    _ => out.problems.push("malformed-ws-message".into()),
                },
                Ok(Some(Ok(_))) => {}
            }
        }
        drop(s2_tx);
        let _ = tokio::time::timeout(Duration::from_millis(500), sender).await;
        out
    })
}

// ------------------------------------------------------------------------------------------
// one sequence
// ------------------------------------------------------------------------------------------
/// The route table as this harness registered it, and the lookup rule the property states (exact path wins;
/// a mount gets its prefix itself or an extension at a '/' boundary) — independent of `Router::get`.
const EXACT: &[&str] = &["/json", "/__end", "/typed", "/typed_beve", "/json_ctx", "/typed_ctx", "/slice", "/slice_ref", "/custom", "/json_b", "/slow_b", "/json_ctx_b", "/typed_b", "/typed_ctx_b"];
const MOUNTS: &[&str] = &["/reg", "/de", "/re", "/dev"];
fn expected_found(path: &str) -> bool {
    EXACT.contains(&path) || MOUNTS.iter().any(|m| path == *m || (path.starts_with(m) && path.as_bytes().get(m.len()) == Some(&b'/')))
}

fn utf8(q: &[u8]) -> bool {
    std::str::from_utf8(q).is_ok()
}

fn run_sequence(out: &mut Out, sv: &Servers, probe: &Router, seqno: usize, reqs: &[ReqSpec], pressure: bool) {
    // in-process probe of each request (handler-level outcome on both entry points)
    let mut op_lines = Vec::new();
    let mut expect_ids = Vec::new();
    let mut expect_dispatch = 0u64;
    let mut dispatched_paths: BTreeMap<String, u64> = BTreeMap::new();
    let mut is_off = Vec::new();
    for (k, r) in reqs.iter().enumerate() {
        let idx = format!("{}.{}", seqno, k);
        let h = r.h.to_repe();
        let path_ok = r.h.version == 1 && r.h.query_format == 1 && utf8(&r.query);
        let handler = if utf8(&r.query) { probe.get(std::str::from_utf8(&r.query).unwrap()) } else { None };
        let found = handler.is_some();
        if utf8(&r.query) {
            let p = std::str::from_utf8(&r.query).unwrap();
            if expected_found(p) != found {
                out.oracle_fail("dispatch.lookup.found_mismatch", &format!("Router::get({:?}) is {} but the registered routes/mounts say {}", p, found, expected_found(p)), &[format!("lookup {}", hex(&r.query))]);
            }
        }
        let off = handler.as_ref().map(|h| h.execution() == repe::Execution::OffReader).unwrap_or(false);
        let (hv, ho) = match (&handler, path_ok) {
            (Some(hd), true) => {
                let wire = RawFrame { h: r.h.clone(), query: r.query.clone(), body: r.body.clone() }.to_vec();
                let view = MessageView::from_slice(&wire).expect("well-framed");
                let path = std::str::from_utf8(&r.query).unwrap();
                let ctx = CallContext::detached(path);
                let v = catch(|| hd.handle_view(&view, &ctx));
                let msg = Message { header: h, query: r.query.clone(), body: r.body.clone() };
                let o = catch(|| hd.handle_with_ctx(&msg, &ctx));
                // shape of a built-in handler's success response (model: `builtinResponse`): request id, known query
                // format or raw binary, ec 0, no query, consistent lengths
                if let (Ok(Ok(m)), false) = (&v, r.query.starts_with(b"/custom")) {
                    let want_qf = if r.h.query_format <= 1 { r.h.query_format } else { 0 };
                    let hh = &m.header;
                    if m.header.ec == 0 && !(hh.id == r.h.id && hh.query_format == want_qf && hh.notify == 0 && hh.reserved == 0 && hh.version == 1 && m.query.is_empty()
                        && hh.body_length == m.body.len() as u64 && hh.length == 48 + m.body.len() as u64) {
                        out.oracle_fail("dispatch.builtin_response_shape", &format!("request id {}: a built-in handler's success response does not have the response_header_builder shape", r.h.id), &[format!("probe {}", hex(&r.query))]);
                    }
                }
                // A handler has two entry points (borrowed view / owned message); which one a request reaches depends on the
                // transport and on the route kind, so "the same request yields the same response fields on every
                // transport" needs them to agree. And the built-in JSON handlers must refuse a body that is not JSON
                // (decided here with the harness's own parse of the raw bytes) with ParseError, and decode one that is.
                if let (Ok(a), Ok(b)) = (&v, &o) {
                    let (sa, sb) = (hout_str(a), hout_str(b));
                    if sa != sb && !r.query.starts_with(b"/custom") {
                        out.oracle_fail("dispatch.entry_points_disagree", &format!("route {:?}, body format {}, body {}: handle_view gives {} but handle_with_ctx gives {}", path, r.h.body_format, hex(&r.body), &sa[..sa.len().min(90)], &sb[..sb.len().min(90)]), &[format!("probe {}", hex(&r.query))]);
                    }
                    if matches!(path, "/json" | "/json_b" | "/json_ctx" | "/json_ctx_b") && (r.h.body_format == 2 || r.h.body_format == 3) {
                        let decodable = serde_json::from_slice::<Value>(&r.body).is_ok();
                        for (which, res) in [("handle_view", a), ("handle_with_ctx", b)] {
                            let accepted = match res { Ok(m) => m.header.ec != ErrorCode::ParseError as u32, Err(e) => e.to_error_code() != ErrorCode::ParseError };
                            let wants_fail = serde_json::from_slice::<Value>(&r.body).ok().map(|v| v.get("fail").is_some()).unwrap_or(false);
                            if accepted != decodable && !wants_fail {
                                out.oracle_fail("dispatch.decode.undecodable_body", &format!("route {:?} via {}: body format {}, body {} is {} JSON but the handler {} it", path, which, r.h.body_format, hex(&r.body), if decodable { "valid" } else { "not" }, if accepted { "accepted" } else { "refused with ParseError" }), &[format!("probe {}", hex(&r.query))]);
                            }
                        }
                    }
                }
                match (v, o) {
                    (Ok(v), Ok(o)) => (hout_str(&v), hout_str(&o)),
                    _ => ("panic".to_string(), "panic".to_string()),
                }
            }
            _ => ("none".to_string(), "none".to_string()),
        };
        if hv == "panic" {
            // handler panics are C16's subject: keep them out of C03 sequences
            out.count("dispatch.probe_panicked_skipped");
        }
        let dispatches = path_ok && found;
        if r.h.notify != 1 {
            expect_ids.push(r.h.id);
        }
        if dispatches {
            expect_dispatch += 1;
            *dispatched_paths.entry(hex(&r.query)).or_insert(0) += 1;
        }
        is_off.push(off && dispatches);
        out.count(&format!("dispatch.route.{}", if r.h.version != 1 { "bad_version" } else if r.h.query_format != 1 { "bad_qfmt" } else if !utf8(&r.query) { "non_utf8" } else if !found { "not_found" } else if off { "offreader" } else { "inline" }));
        out.count(&format!("dispatch.notify.{}", r.h.notify));
        if hv.starts_with("err:") { out.count(&format!("dispatch.handler_err.{}", hv.split(':').nth(1).unwrap())); }
        op_lines.push(format!("req {} {} {} {} {} {} {} {}", idx, r.h.fields(), hex(&r.query), hex(&r.body), found as u8, if off { "o" } else { "i" }, hv, ho));
        if pressure { op_lines.last_mut().unwrap().push_str(" P"); }
    }
    // real servers
    let snap = |c: &Counters| c.started.lock().unwrap().clone();
    let read_delay = if pressure { Duration::from_millis(2) } else { Duration::ZERO };
    let mut runs: Vec<(&'static str, Kind, TransportRun, BTreeMap<String, u64>)> = Vec::new();
    for ep in &sv.eps {
        // the single-slot WebSocket server is only interesting under pressure (and slow otherwise)
        if ep.name == "wsb" { continue; }
        if ep.name == "wsp" && !pressure { continue; }
        if ep.name == "ws" && pressure { continue; }
        let base = snap(&ep.counters);
        let t = match ep.kind {
            Kind::Tcp => run_tcp(ep, reqs, &expect_ids, expect_dispatch, read_delay),
            Kind::Ws => run_ws(sv, ep, reqs, &expect_ids, expect_dispatch, read_delay),
        };
        let now = ep.counters.started.lock().unwrap().clone();
        let endk = hex(b"/__end");
        let d: BTreeMap<String, u64> = now.iter().filter(|(k, _)| **k != endk).map(|(k, v)| (k.clone(), v - base.get(k).copied().unwrap_or(0))).filter(|(_, v)| *v > 0).collect();
        // the two WebSocket servers share the observation column `ws`
        runs.push((if ep.kind == Kind::Ws { "ws" } else { ep.name }, ep.kind, t, d));
    }
    let all_ops: Vec<String> = op_lines.clone();
    let pfx = if pressure { "dispatch.pressure" } else { "dispatch" };
    // ---- direct oracles -----------------------------------------------------------------
    for (name, kind, t, d) in &runs {
        for p in &t.problems {
            out.oracle_fail(&format!("{}.{}.{}", pfx, name, p.split(':').next().unwrap()), &format!("transport {}: {}", name, p), &all_ops);
        }
        // exactly one response per non-notify request, none for notify==1
        let mut count: BTreeMap<u64, u64> = BTreeMap::new();
        for f in &t.frames { *count.entry(f.h.id).or_insert(0) += 1; }
        for r in reqs {
            let n = count.get(&r.h.id).copied().unwrap_or(0);
            if r.h.notify == 1 && n != 0 {
                out.oracle_fail(&format!("{}.{}.notify_answered", pfx, name), &format!("notify request id {} got {} response(s)", r.h.id, n), &all_ops);
            }
            if r.h.notify != 1 && n != 1 && t.problems.is_empty() {
                out.oracle_fail(&format!("{}.{}.response_count", pfx, name), &format!("request id {} got {} responses", r.h.id, n), &all_ops);
            }
        }
        for f in &t.frames {
            if !reqs.iter().any(|r| r.h.id == f.h.id) {
                out.oracle_fail(&format!("{}.{}.unknown_id", pfx, name), &format!("response with id {} matches no request", f.h.id), &all_ops);
            }
        }
        // handler invoked exactly once per dispatched request, never for a rejected one
        if *d != dispatched_paths && t.problems.is_empty() {
            out.oracle_fail(&format!("{}.{}.invocations", pfx, name), &format!("handler invocations {:?} != dispatched requests {:?}", d, dispatched_paths), &all_ops);
        }
        // arrival order for inline requests
        let pos: BTreeMap<u64, usize> = t.frames.iter().enumerate().map(|(i, f)| (f.h.id, i)).collect();
        let mut last: Option<usize> = None;
        for (k, r) in reqs.iter().enumerate() {
            if *kind == Kind::Ws && is_off[k] { continue; }
            if let Some(p) = pos.get(&r.h.id) {
                if let Some(l) = last { if *p < l { out.oracle_fail(&format!("{}.{}.order", pfx, name), &format!("inline responses out of arrival order (request id {})", r.h.id), &all_ops); break; } }
                last = Some(*p);
            }
        }
    }
    // same response fields (incl. error bodies) on every transport
    let healthy = runs.iter().all(|(_, _, t, _)| t.problems.is_empty());
    for r in reqs {
        let got: Vec<Option<RawFrame>> = runs.iter().map(|(_, _, t, _)| t.frames.iter().find(|f| f.h.id == r.h.id).cloned()).collect();
        if healthy && got.iter().any(|g| *g != got[0]) {
            let names: Vec<&str> = runs.iter().zip(got.iter()).filter(|(_, g)| **g != got[0]).map(|(r, _)| r.0).collect();
            out.oracle_fail(&format!("{}.transports_disagree.{}", pfx, names.join("+")), &format!("request id {}: the response differs between tcp and {:?}", r.h.id, names), &all_ops);
        }
        if let Some(f) = &got[0] {
            if f.h.id != r.h.id { out.oracle_fail("dispatch.id", "response id differs", &all_ops); }
            if f.query != r.query && f.query != b"/own/query" { out.oracle_fail("dispatch.query_echo", &format!("request id {}: response query is neither the request's nor the handler's own", r.h.id), &all_ops); }
        }
    }
    // ---- observation lines -------------------------------------------------------------------
    for (k, r) in reqs.iter().enumerate() {
        let show = |t: &TransportRun| t.frames.iter().find(|f| f.h.id == r.h.id).map(show_resp).unwrap_or_else(|| "noresp".into());
        let idx = format!("{}.{}", seqno, k);
        let nontrivial = runs[0].2.frames.iter().any(|f| f.h.id == r.h.id && f.h.ec == 0);
        let cols: Vec<String> = runs.iter().map(|(n, _, t, _)| format!("{}={}", n, show(t))).collect();
        out.case(&op_lines[k], &format!("{} {}", idx, cols.join(" ")), nontrivial);
    }
    let fmt = |d: &BTreeMap<String, u64>| d.iter().map(|(k, v)| format!("{}:{}", k, v)).collect::<Vec<_>>().join(",");
    let cols: Vec<String> = runs.iter().map(|(n, _, _, d)| format!("{}=[{}]", n, fmt(d))).collect();
    out.case(&format!("inv {}.inv", seqno), &format!("{}.inv {}", seqno, cols.join(" ")), false);
    if pressure { out.count("dispatch.pressure_sequences"); }
}

/// Teardown scenario: a pipelined burst of requests with sizeable responses followed by an unusable (text) frame, the
/// client reading only afterwards. The well-framed requests were all read and dispatched before the bad frame, so
/// each must still get its one response before the connection closes.
fn burst_then_garbage(out: &mut Out, sv: &Servers, n: usize, seqno: usize) {
    use tokio_tungstenite::tungstenite::Message as WsMsg;
    let ep = sv.eps.iter().find(|e| e.name == "wsp").unwrap();
    let url = format!("ws://{}/repe", ep.addr);
    let body = format!("\"{}\"", "y".repeat(120_000)).into_bytes();
    let got: Option<Vec<u64>> = sv.rt.block_on(async {
        let (mut ws, _) = tokio_tungstenite::connect_async(&url).await.ok()?;
        for i in 0..n {
            let f = RawFrame::request(920_000 + i as u64, false, 1, b"/json", 2, &body).to_vec();
            ws.send(WsMsg::Binary(f)).await.ok()?;
        }
        ws.send(WsMsg::Text("not a repe frame".into())).await.ok()?;
        tokio::time::sleep(Duration::from_millis(150)).await;
        let mut ids = Vec::new();
        let t = Instant::now();
        while t.elapsed() < Duration::from_secs(15) {
            match tokio::time::timeout(Duration::from_secs(3), ws.next()).await {
                Ok(Some(Ok(WsMsg::Binary(b)))) => { if let Some(h) = RawHeader::parse(&b) { ids.push(h.id); } }
                Ok(Some(Ok(_))) => {}
                _ => break,
            }
        }
        Some(ids)
    });
    let ops = vec![format!("teardown {} {}", seqno, n)];
    match got {
        None => out.count("dispatch.teardown.connect_failed"),
        Some(ids) => {
            let want: Vec<u64> = (0..n).map(|i| 920_000 + i as u64).collect();
            if ids != want {
                out.oracle_fail("dispatch.teardown.responses_lost", &format!("{} well-framed requests were sent before an unusable frame; responses received: {:?}", n, ids), &ops);
            } else {
                out.count("dispatch.teardown.ok");
            }
        }
    }
}

/// A sequence that keeps outbound queues full: large echoed bodies interleaved with rejected requests
/// and small inline ones, read slowly by the client.
fn gen_pressure(r: &mut Rng, base_id: u64) -> Vec<ReqSpec> {
    let n = r.range(12, 28) as usize;
    let mut v = Vec::new();
    for k in 0..n {
        let id = base_id + k as u64 + 1;
        let spec = match r.below(5) {
            0 | 1 => {
                // big echo through an inline JSON route
                let len = *r.pick(&[20_000usize, 70_000, 150_000]);
                let body = format!("\"{}\"", "x".repeat(len)).into_bytes();
                let f = RawFrame::request(id, false, 1, b"/json", 2, &body);
                ReqSpec { h: f.h, query: b"/json".to_vec(), body }
            }
            2 => {
                // rejected: unknown path / bad version / raw-binary query format
                let mut f = RawFrame::request(id, false, 1, b"/nope", 2, b"{}");
                match r.below(3) { 0 => {}, 1 => f.h.version = 2, _ => f.h.query_format = 0 }
                ReqSpec { h: f.h, query: b"/nope".to_vec(), body: b"{}".to_vec() }
            }
            3 => {
                let f = RawFrame::request(id, false, 1, b"/json_b", 2, b"{\"a\":1}");
                ReqSpec { h: f.h, query: b"/json_b".to_vec(), body: b"{\"a\":1}".to_vec() }
            }
            _ => {
                let f = RawFrame::request(id, r.chance(1, 4), 1, b"/json", 2, b"[1,2]");
                ReqSpec { h: f.h, query: b"/json".to_vec(), body: b"[1,2]".to_vec() }
            }
        };
        v.push(spec);
    }
    v
}

fn main() {
    let args = Args::parse();
    quiet_panics();
    let mut out = Out::new(&args.out);
    out.rule = "pipelined request sequences (length 1..64) over registered/unregistered/non-UTF-8 paths, every built-in handler kind (json, typed, ctx, bulk slice, borrowed slice, registry mount, struct mount, custom erased, blocking variants; all behind a counting middleware), versions {1,0,2,255}, notify {0,1,2,255}, query formats {1,0,2,65535}, body formats 0..4/999 with well-formed, malformed, BEVE, typed-array, random and empty bodies; sent raw to the real Server, AsyncServer and WebSocketServer. Distinct by op line; non-trivial = answered with ec 0".into();
    let sv = start_servers();
    let probe_c = Counters::default();
    let probe = make_router(&probe_c);
    let mut rng = Rng::new(args.seed);
    if let Some(ops) = args.replay_ops() {
        // replay: rebuild the request sequence from recorded op lines
        let mut reqs = Vec::new();
        for l in ops.iter().filter(|l| l.starts_with("req ")) {
            let w = words(l);
            let f: Vec<u64> = w[2..13].iter().map(|x| x.parse().unwrap()).collect();
            let h = RawHeader { length: f[0], spec: f[1] as u16, version: f[2] as u8, notify: f[3] as u8, reserved: f[4] as u32, id: f[5], query_length: f[6], body_length: f[7], query_format: f[8] as u16, body_format: f[9] as u16, ec: f[10] as u32 };
            reqs.push(ReqSpec { h, query: unhex(w[13]).unwrap(), body: unhex(w[14]).unwrap() });
        }
        let pressure = ops.iter().any(|l| l.starts_with("req ") && l.ends_with(" P"));
        run_sequence(&mut out, &sv, &probe, 0, &reqs, pressure);
    } else {
        let nseq = if args.thorough() { 1500 } else { 120 };
        for s in 0..nseq {
            let len = match rng.below(6) { 0 => 1, 1 => rng.range(2, 4), 2 | 3 => rng.range(5, 16), 4 => rng.range(17, 40), _ => rng.range(41, 64) } as usize;
            let reqs: Vec<ReqSpec> = (0..len).map(|k| gen_request(&mut rng, (s as u64) * 1000 + k as u64 + 1)).collect();
            let pressure = s % 8 == 7;
            let reqs = if pressure { gen_pressure(&mut rng, (s as u64) * 1000) } else { reqs };
            run_sequence(&mut out, &sv, &probe, s, &reqs, pressure);
            if s % 16 == 5 {
                let k = rng.range(3, 8) as usize;
                busy_pool_close(&mut out, &sv, k, s);
            }
            if s % 16 == 9 {
                let k = rng.range(4, 10) as usize;
                burst_then_garbage(&mut out, &sv, k, s);
            }
        }
    }
    out.finish();
    std::process::exit(0); // servers run detached threads
}
