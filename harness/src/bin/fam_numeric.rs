//! Family `numeric` (C08): bulk numeric bodies.  Every op line names an element type by BEVE
//! (class, byte-code) and carries raw little-endian element bytes, so "bit-for-bit" is byte equality
//! and NaN payloads need no float handling.  Usage: fam_numeric --tier T --seed N --out DIR
//!
//! ops (observation = what the Lean driver prints for the same line):
//!   enc|cenc|genc|gcenc <i> <cls> <code> <n> <payload>      encoders (bulk / bulk complex / serde / serde complex)
//!   dec|cdec <i> <cls> <code> <fmt> <body>                   Message::decode_typed_slice / decode_complex_slice
//!   gdec|gcdec <i> <cls> <code> <body>                       serde decoder on an encoder's output
//!   aenc <i> <cls> <code> <qlen> <n> <payload>               body_aligned_typed_slice behind a qlen-byte query
//!   adec <i> <cls> <code> <addr%8> <body>                    beve aligned readers at a chosen address residue
//!   aref <i> <cls> <code> <mis> <qlen> <qafter> <wire> <n> <payload>   aligned request -> borrowing route, in memory
//!   ref <i> <cls> <code> <fmt> <mis> <qlen> <body>           arbitrary body -> borrowing route (view + owned)
//!   slice <i> <cls> <code> <fmt> <qlen> <body>               arbitrary body -> bulk route (view + owned)
//!   wrong <i> <cls> <code> <cls2> <code2> <form> <n> <payload>   valid body of another element type
//!   wrongfmt <i> <cls> <code> <fmt> <n> <payload>            valid body under another body format
//!   stream|cstream <i> <cls> <code> <id> <notify> <ec> <qfmt> <query> <n> <payload>   streaming writers
//!   net <i> <server> <client> <kind> <route> <cls> <code> <plen> <n> <payload>        real servers and clients
//!   hseq <i> <kind> <wrap> <cls> <code> <query> <k> {<hk> <fmt> <mis> <body>}*k   k requests through ONE handler
//!                                   instance (bulk / borrowing route, bare or behind a middleware); hk = what the
//!                                   user closure does: same | bytes | err | panics | panicstr | panicint
//!   abld <i> <cls> <code> <mis> <wire> <query> <n> <payload>   aligned request behind arbitrary query bytes, served
//!   capq <i> <client> <kind> <cls> <code> <path> <n> <payload>  like cap, the path given as UTF-8 bytes
//!   capr <i> <client> <kind> <cls> <code> <cls2> <code2> <n2> <payload2>  the peer answers with an array of type 2
//!   capt <i> <client>                                           the peer does not answer: the call times out
//!   frag <i> <server> <cuts> <kind> <route> <cls> <code> <plen> <n> <payload>   the request written raw to a real
//!                                   server in pieces (cuts: `1` = byte by byte, or offsets `a,b,c`; suffix `s` = stall)
//!   seq <i> <cls> <code> <s1> <s2> <qafter> <qlen> <cap> <p1> <p2>   two body setters in a row on one builder
//!   cap <i> <client> <kind> <cls> <code> <plen> <n> <payload>    the raw request frame a client helper puts on the
//!                                                                wire (capture peer), then served by the borrowing route
use half::{bf16, f16};
use repe::server::{HandlerErased, Router};
use repe::{CallContext, Complex, Message, MessageView};
use repe_verif_harness::frames::RawFrame;
use repe_verif_harness::*;
use std::sync::{Arc, Mutex};

// ------------------------------------------------------------------------------------------
// (n) which public entry points of the anchored files this family drives
// ------------------------------------------------------------------------------------------
/// Entry points (by name) of message.rs / io.rs / server.rs / client.rs / async_client.rs / websocket_client.rs that
/// reach the bulk numeric paths and are driven by some op of this family.
const DRIVEN: &[&str] = &[
    "body_typed_slice", "body_complex_slice", "body_aligned_typed_slice", "body_beve", "body_bytes", "body_utf8", "body_json",
    "decode_typed_slice", "decode_complex_slice", "beve_body", "into_wire_bytes",
    "write_message_streaming", "write_message_typed_slice", "write_message_complex_slice",
    "with_typed_slice", "with_typed_slice_ref",
    "call_typed_slice", "call_typed_slice_with_timeout", "call_typed_slice_aligned", "call_typed_slice_aligned_with_timeout",
    "call_typed_beve", "call_typed_beve_with_timeout",
    // frame parsers the frames are handed to (`Message::from_slice*`, `MessageView::from_slice`), `TypedResponse::beve`
    "from_slice", "from_slice_exact", "beve",
];
/// Matching names that are deliberately not driven, and why.
const NOT_DRIVEN_BECAUSE: &[(&str, &str)] = &[
    ("notify_typed_beve", "serde notify: no result to observe; the property speaks of results of calls"),
    ("body_format", "plain field setter (C01)"),
    ("body_format_code", "plain field setter, used by the harness as a stand-in (C01)"),
    ("write_message_streaming_async", "async twin of the generic streaming core, no bulk writer goes through it (C01)"),
];

/// `pub fn` / `pub async fn` names of the anchored files of the tree under test whose name says they touch a bulk /
/// BEVE / body path.  Anything that is neither driven nor explained is reported (`not_driven` in stats.json, stderr).
fn entry_point_audit(out: &mut Out) -> Vec<String> {
    let repo = std::env::var("VERIF_REPO").unwrap_or_else(|_| "/repo".into());
    let mut missing = Vec::new();
    let mut seen = 0u64;
    for file in ["message.rs", "io.rs", "async_io.rs", "server.rs", "client.rs", "async_client.rs", "websocket_client.rs"] {
        let text = std::fs::read_to_string(std::path::Path::new(&repo).join("src").join(file)).unwrap_or_default();
        // message.rs has code after its test module: drop test modules by brace matching
        let mut code = String::new();
        let mut rest = text.as_str();
        while let Some(i) = rest.find("#[cfg(test)]") {
            code.push_str(&rest[..i]);
            let tail = &rest[i..];
            match tail.find('{') {
                Some(b) => {
                    let mut depth = 0i32;
                    let mut end = tail.len();
                    for (k, ch) in tail[b..].char_indices() {
                        if ch == '{' { depth += 1 } else if ch == '}' { depth -= 1; if depth == 0 { end = b + k + 1; break; } }
                    }
                    rest = &tail[end..];
                }
                None => { rest = ""; }
            }
        }
        code.push_str(rest);
        for line in code.lines() {
            let t = line.trim_start();
            for pre in ["pub async fn ", "pub fn "] {
                if let Some(r) = t.strip_prefix(pre) {
                    let name: String = r.chars().take_while(|c| c.is_alphanumeric() || *c == '_').collect();
                    let relevant = ["slice", "complex", "aligned", "beve", "streaming", "into_wire_bytes", "body_"].iter().any(|k| name.contains(k));
                    if !relevant { continue; }
                    seen += 1;
                    if !DRIVEN.contains(&name.as_str()) && !NOT_DRIVEN_BECAUSE.iter().any(|(n, _)| *n == name) {
                        let item = format!("{}::{}", file, name);
                        if !missing.contains(&item) { missing.push(item); }
                    }
                }
            }
        }
    }
    out.add("entry_points.relevant_seen", seen);
    for m in &missing {
        out.count(&format!("NOT_DRIVEN.{}", m));
    }
    out.extra.insert("not_driven".into(), serde_json::json!(missing));
    out.extra.insert("not_driven_because".into(), serde_json::json!(NOT_DRIVEN_BECAUSE.iter().map(|(n, w)| format!("{}: {}", n, w)).collect::<Vec<_>>()));
    missing
}

// ------------------------------------------------------------------------------------------
// element types as raw bytes
// ------------------------------------------------------------------------------------------
trait Elem:
    Copy + beve::BeveTypedSlice + serde::Serialize + serde::de::DeserializeOwned + Send + Sync + 'static
{
    const W: usize;
    fn from_le(b: &[u8]) -> Self;
    fn put_le(&self, out: &mut Vec<u8>);
    /// `body_beve(&Vec<Complex<Self>>)` (serde impls exist per concrete scalar only)
    fn complex_serde_body(xs: &Vec<Complex<Self>>) -> Message;
    fn complex_serde_decode(m: &Message) -> Result<Vec<Complex<Self>>, repe::RepeError>;
}
macro_rules! complex_serde {
    () => {
        fn complex_serde_body(xs: &Vec<Complex<Self>>) -> Message {
            Message::builder().body_beve(xs).expect("serde encode").build()
        }
        fn complex_serde_decode(m: &Message) -> Result<Vec<Complex<Self>>, repe::RepeError> {
            m.beve_body::<Vec<Complex<Self>>>()
        }
    };
}
macro_rules! elem_int {
    ($t:ty, $w:expr) => {
        impl Elem for $t {
            const W: usize = $w;
            fn from_le(b: &[u8]) -> Self {
                <$t>::from_le_bytes(b.try_into().unwrap())
            }
            fn put_le(&self, out: &mut Vec<u8>) {
                out.extend_from_slice(&self.to_le_bytes());
            }
            complex_serde!();
        }
    };
}
elem_int!(u8, 1);
elem_int!(u16, 2);
elem_int!(u32, 4);
elem_int!(u64, 8);
elem_int!(i8, 1);
elem_int!(i16, 2);
elem_int!(i32, 4);
elem_int!(i64, 8);
elem_int!(i128, 16);
elem_int!(u128, 16);
macro_rules! elem_float {
    ($t:ty, $bits:ty, $w:expr) => {
        impl Elem for $t {
            const W: usize = $w;
            fn from_le(b: &[u8]) -> Self {
                <$t>::from_bits(<$bits>::from_le_bytes(b.try_into().unwrap()))
            }
            fn put_le(&self, out: &mut Vec<u8>) {
                out.extend_from_slice(&self.to_bits().to_le_bytes());
            }
            complex_serde!();
        }
    };
}
elem_float!(f32, u32, 4);
elem_float!(f64, u64, 8);
elem_float!(f16, u16, 2);
elem_float!(bf16, u16, 2);

fn vec_of<T: Elem>(p: &[u8]) -> Vec<T> {
    p.chunks_exact(T::W).map(T::from_le).collect()
}
fn bytes_of<T: Elem>(xs: &[T]) -> Vec<u8> {
    let mut out = Vec::with_capacity(xs.len() * T::W);
    for x in xs {
        x.put_le(&mut out);
    }
    out
}
fn cvec_of<T: Elem>(p: &[u8]) -> Vec<Complex<T>> {
    p.chunks_exact(2 * T::W).map(|c| Complex { re: T::from_le(&c[..T::W]), im: T::from_le(&c[T::W..]) }).collect()
}
fn cbytes_of<T: Elem>(xs: &[Complex<T>]) -> Vec<u8> {
    let mut out = Vec::with_capacity(xs.len() * 2 * T::W);
    for x in xs {
        x.re.put_le(&mut out);
        x.im.put_le(&mut out);
    }
    out
}

/// (class, code, width) of the element types the property quantifies over.
const TYPES: [(u8, u8, usize); 14] = [
    (0, 0, 2), (0, 1, 2), (0, 2, 4), (0, 3, 8),
    (1, 0, 1), (1, 1, 2), (1, 2, 4), (1, 3, 8),
    (2, 0, 1), (2, 1, 2), (2, 2, 4), (2, 3, 8),
    (1, 4, 16), (2, 4, 16),
];

macro_rules! dispatch {
    ($cls:expr, $code:expr, $f:ident ( $($a:expr),* )) => {
        match ($cls, $code) {
            (0, 0) => $f::<bf16>($($a),*),
            (0, 1) => $f::<f16>($($a),*),
            (0, 2) => $f::<f32>($($a),*),
            (0, 3) => $f::<f64>($($a),*),
            (1, 0) => $f::<i8>($($a),*),
            (1, 1) => $f::<i16>($($a),*),
            (1, 2) => $f::<i32>($($a),*),
            (1, 3) => $f::<i64>($($a),*),
            (1, 4) => $f::<i128>($($a),*),
            (2, 4) => $f::<u128>($($a),*),
            (2, 0) => $f::<u8>($($a),*),
            (2, 1) => $f::<u16>($($a),*),
            (2, 2) => $f::<u32>($($a),*),
            (2, 3) => $f::<u64>($($a),*),
            _ => panic!("unknown element type in op line"),
        }
    };
}

// ------------------------------------------------------------------------------------------
// observation helpers
// ------------------------------------------------------------------------------------------
fn show_elems(n: usize, payload: &[u8]) -> String {
    format!("{} {}", n, hex(payload))
}
fn cls_of(e: &repe::RepeError) -> String {
    err_class(e)
}

/// A 16-aligned backing store (`Vec<u128>`) holding `frame` at byte offset `mis`.
struct Placed {
    backing: Vec<u128>,
    mis: usize,
    len: usize,
}
impl Placed {
    fn new(frame: &[u8], mis: usize) -> Placed {
        let mut backing = vec![0u128; (mis + frame.len()) / 16 + 2];
        // SAFETY: the Vec<u128> is 16-aligned and large enough; u8 has no invalid bit patterns.
        let bytes = unsafe { std::slice::from_raw_parts_mut(backing.as_mut_ptr() as *mut u8, backing.len() * 16) };
        bytes[mis..mis + frame.len()].copy_from_slice(frame);
        Placed { backing, mis, len: frame.len() }
    }
    fn bytes(&self) -> &[u8] {
        let all = unsafe { std::slice::from_raw_parts(self.backing.as_ptr() as *const u8, self.backing.len() * 16) };
        &all[self.mis..self.mis + self.len]
    }
    fn contains(&self, p: usize) -> bool {
        let lo = self.backing.as_ptr() as usize;
        p >= lo && p < lo + self.backing.len() * 16
    }
}

#[derive(Default, Clone)]
struct Seen {
    calls: u32,
    ptr: usize,
    n: usize,
    payload: Vec<u8>,
}

fn path_of(qlen: usize) -> String {
    if qlen == 0 { String::new() } else { format!("/{}", "q".repeat(qlen - 1)) }
}

/// Outcome of one handler invocation, canonical.
#[derive(Clone, PartialEq, Debug)]
enum HOut {
    Called { resp_body: Vec<u8>, seen: (usize, Vec<u8>), ptr: usize },
    Reject(u32),
    Err(String),
    Panic,
    Odd(String),
}

fn run_handler(h: &Arc<dyn HandlerErased>, seen: &Arc<Mutex<Seen>>, path: &str, view: Option<&MessageView>, owned: Option<&Message>) -> HOut {
    *seen.lock().unwrap() = Seen::default();
    let r = catch(|| match (view, owned) {
        (Some(v), _) => h.handle_view(v, &CallContext::detached(path)),
        (_, Some(m)) => h.handle(m),
        _ => unreachable!(),
    });
    let s = seen.lock().unwrap().clone();
    match r {
        Err(_) => HOut::Panic,
        Ok(Err(e)) => {
            if s.calls != 0 { HOut::Odd("closure ran but handler returned Err".into()) } else { HOut::Err(cls_of(&e)) }
        }
        Ok(Ok(resp)) => {
            if resp.header.ec != 0 {
                if s.calls != 0 { HOut::Odd("closure ran but an error response came back".into()) } else { HOut::Reject(resp.header.ec) }
            } else if s.calls != 1 {
                HOut::Odd(format!("ok response but closure ran {} times", s.calls))
            } else if resp.header.body_format != 1 {
                HOut::Odd(format!("ok response with body format {}", resp.header.body_format))
            } else if resp.header.id != view.map(|v| v.header.id).or(owned.map(|m| m.header.id)).unwrap_or(0) || !resp.query.is_empty() || resp.header.notify != 0 {
                HOut::Odd("response does not carry the request id / has a query / is a notify".into())
            } else {
                HOut::Called { resp_body: resp.body.clone(), seen: (s.n, s.payload), ptr: s.ptr }
            }
        }
    }
}

fn ref_router<T: Elem>(path: &str) -> (Arc<dyn HandlerErased>, Arc<Mutex<Seen>>) {
    let seen = Arc::new(Mutex::new(Seen::default()));
    let s2 = seen.clone();
    let router = Router::new().with_typed_slice_ref::<T, T, _>(path, move |xs: &[T]| {
        let mut g = s2.lock().unwrap();
        g.calls += 1;
        g.ptr = xs.as_ptr() as usize;
        g.n = xs.len();
        g.payload = bytes_of(xs);
        Ok(xs.to_vec())
    });
    (router.get(path).expect("registered route"), seen)
}

fn slice_router<T: Elem>(path: &str) -> (Arc<dyn HandlerErased>, Arc<Mutex<Seen>>) {
    let seen = Arc::new(Mutex::new(Seen::default()));
    let s2 = seen.clone();
    let router = Router::new().with_typed_slice::<T, T, _>(path, move |xs: Vec<T>| {
        let mut g = s2.lock().unwrap();
        g.calls += 1;
        g.ptr = xs.as_ptr() as usize;
        g.n = xs.len();
        g.payload = bytes_of(&xs);
        Ok(xs)
    });
    (router.get(path).expect("registered route"), seen)
}

fn show_hout(o: &HOut, flag: Option<bool>) -> String {
    match o {
        HOut::Called { resp_body, .. } => match flag {
            Some(b) => format!("called {} {}", if b { "borrowed" } else { "copied" }, hex(resp_body)),
            None => format!("called {}", hex(resp_body)),
        },
        HOut::Reject(ec) => format!("reject {}", ec),
        HOut::Err(c) => format!("err {}", c),
        HOut::Panic => "PANIC".into(),
        HOut::Odd(s) => format!("ODD {}", s.replace(' ', "_")),
    }
}

/// Independent reading of the aligned wire layout (BEVE spec §4): offset of DATA and element count,
/// if `body` is a well-formed aligned array whose numeric header names (cls, code).
fn aligned_layout(body: &[u8], cls: u8, code: u8, w: usize) -> Option<(usize, usize)> {
    if body.len() < 2 || body[0] != 0x5C || body[1] != ((code << 5) | (cls << 3) | 4) {
        return None;
    }
    let b0 = *body.get(2)?;
    let extra = [0usize, 1, 3, 7][(b0 & 3) as usize];
    if body.len() < 3 + extra {
        return None;
    }
    let mut n: u64 = (b0 >> 2) as u64;
    for i in 0..extra {
        n |= (body[3 + i] as u64) << (6 + 8 * i);
    }
    let pl = 3 + extra;
    let pad = *body.get(pl)? as usize;
    let data = pl + 1 + pad;
    let bytes = (n as usize).checked_mul(w)?;
    if data > body.len() || body.len() - data < bytes {
        return None;
    }
    Some((data, n as usize))
}

// ------------------------------------------------------------------------------------------
// executing op lines
// ------------------------------------------------------------------------------------------
struct Ctx<'a> {
    out: &'a mut Out,
    line: &'a str,
    idx: &'a str,
    net: Option<&'static Net>,
}
impl Ctx<'_> {
    fn fail(&mut self, sig: &str, detail: String) {
        let ops = vec![self.line.to_string()];
        self.out.oracle_fail(sig, &detail, &ops);
    }
}

fn msg_with(fmt: u16, body: &[u8]) -> Message {
    let mut m = Message::builder().id(9).body_bytes(body.to_vec()).build();
    m.header.body_format = fmt;
    m
}

fn dec_typed<T: Elem>(fmt: u16, body: &[u8]) -> Result<Result<(usize, Vec<u8>), String>, ()> {
    let m = msg_with(fmt, body);
    match catch(|| m.decode_typed_slice::<T>()) {
        Err(_) => Err(()),
        Ok(Ok(v)) => Ok(Ok((v.len(), bytes_of(&v)))),
        Ok(Err(e)) => Ok(Err(cls_of(&e))),
    }
}
fn dec_complex<T: Elem>(fmt: u16, body: &[u8]) -> Result<Result<(usize, Vec<u8>), String>, ()> {
    let m = msg_with(fmt, body);
    match catch(|| m.decode_complex_slice::<T>()) {
        Err(_) => Err(()),
        Ok(Ok(v)) => Ok(Ok((v.len(), cbytes_of(&v)))),
        Ok(Err(e)) => Ok(Err(cls_of(&e))),
    }
}
fn show_dec(r: &Result<Result<(usize, Vec<u8>), String>, ()>) -> String {
    match r {
        Err(()) => "PANIC".into(),
        Ok(Ok((n, p))) => format!("ok {}", show_elems(*n, p)),
        Ok(Err(c)) => format!("err {}", c),
    }
}

fn op_enc<T: Elem>(c: &mut Ctx, complex: bool, n: usize, payload: &[u8]) -> (String, bool) {
    let q = vec![b'/'; n % 5];
    let (body, body_q, fmt, lowlevel, generic, size, back_bulk, back_generic);
    if !complex {
        let xs: Vec<T> = vec_of(payload);
        let m = Message::builder().body_typed_slice(&xs).build();
        body_q = Message::builder().query_bytes(q).body_typed_slice(&xs).build().body;
        fmt = m.header.body_format;
        lowlevel = beve::to_vec_typed_slice(&xs);
        generic = if n > 0 { Some(Message::builder().body_beve(&xs).expect("serde encode").build().body) } else { None };
        size = beve::typed_slice_size(&xs);
        back_bulk = dec_typed::<T>(1, &m.body);
        back_generic = m.beve_body::<Vec<T>>().ok().map(|v| (v.len(), bytes_of(&v)));
        body = m.body;
    } else {
        let xs: Vec<Complex<T>> = cvec_of(payload);
        let m = Message::builder().body_complex_slice(&xs).build();
        body_q = Message::builder().query_bytes(q).body_complex_slice(&xs).build().body;
        fmt = m.header.body_format;
        lowlevel = beve::to_vec_complex_slice(&xs);
        generic = if n > 0 { Some(T::complex_serde_body(&xs).body) } else { None };
        size = beve::complex_slice_size(&xs);
        back_bulk = dec_complex::<T>(1, &m.body);
        back_generic = T::complex_serde_decode(&m).ok().map(|v| (v.len(), cbytes_of(&v)));
        body = m.body;
    }
    let k = if complex { "cenc" } else { "enc" };
    if body != indep_body(if complex { "complex" } else { "regular" }, T::CLASS, T::BYTE_CODE, T::W, n, payload, 0) {
        c.fail(&format!("numeric.{}.body_ne_spec", k), "the bulk body differs from header byte + SIZE + element bytes written from the BEVE spec".into());
    }
    if let Some(g) = &generic {
        if *g != body {
            c.fail(&format!("numeric.{}.bulk_ne_generic", k), format!("bulk body {} differs from the serde body {}", hex(&body[..body.len().min(24)]), hex(&g[..g.len().min(24)])));
        }
    }
    if body_q != body || lowlevel != body {
        c.fail(&format!("numeric.{}.builder_variants_differ", k), "body depends on the query headroom / differs from beve::to_vec_*".into());
    }
    if size != body.len() as u64 {
        c.fail(&format!("numeric.{}.size_closed_form", k), format!("closed-form size {} but {} bytes written", size, body.len()));
    }
    if fmt != 1 {
        c.fail(&format!("numeric.{}.format_not_beve", k), format!("body format {}", fmt));
    }
    if !matches!(&back_bulk, Ok(Ok((m, p))) if *m == n && p == payload) {
        c.fail(&format!("numeric.{}.bulk_roundtrip", k), format!("bulk decoder on the bulk body: {}", &show_dec(&back_bulk)[..show_dec(&back_bulk).len().min(80)]));
    }
    if !matches!(&back_generic, Some((m, p)) if *m == n && p == payload) {
        c.fail(&format!("numeric.cross.generic_decoder_on_bulk{}", if n == 0 { ".empty" } else { "" }), "serde decoder does not return the original elements from the bulk body".into());
    }
    (format!("{} {} size {}", c.idx, hex(&body), size), n > 0)
}

fn op_genc<T: Elem>(c: &mut Ctx, complex: bool, n: usize, payload: &[u8]) -> (String, bool) {
    let (body, back_generic, back_bulk);
    if !complex {
        let xs: Vec<T> = vec_of(payload);
        let m = Message::builder().body_beve(&xs).expect("serde encode").build();
        back_generic = m.beve_body::<Vec<T>>().ok().map(|v| (v.len(), bytes_of(&v)));
        back_bulk = dec_typed::<T>(m.header.body_format, &m.body);
        body = m.body;
    } else {
        let xs: Vec<Complex<T>> = cvec_of(payload);
        let m = T::complex_serde_body(&xs);
        back_generic = T::complex_serde_decode(&m).ok().map(|v| (v.len(), cbytes_of(&v)));
        back_bulk = dec_complex::<T>(m.header.body_format, &m.body);
        body = m.body;
    }
    if !matches!(&back_generic, Some((m, p)) if *m == n && p == payload) {
        c.fail("numeric.genc.generic_roundtrip", "serde decoder does not return the original elements from the serde body".into());
    }
    if !matches!(&back_bulk, Ok(Ok((m, p))) if *m == n && p == payload) {
        let kind = if complex { "complex_" } else { "" };
        let sig = if n == 0 { format!("numeric.cross.{}bulk_decoder_rejects_generic_empty", kind) } else { format!("numeric.cross.{}bulk_decoder_on_generic", kind) };
        c.fail(&sig, format!("bulk decoder on the serde body {} of a {}-element vector: {}", hex(&body[..body.len().min(16)]), n, &show_dec(&back_bulk)[..show_dec(&back_bulk).len().min(60)]));
    }
    (format!("{} {}", c.idx, hex(&body)), true)
}

/// What a bulk decoder of element type `T` may accept at all: a body opening with the typed-array
/// (or complex-array) header that names `T`, or exactly serde's empty vector `05 00`, read as empty.
/// Anything else that is accepted has been reinterpreted.
fn accepted_form_ok<T: Elem>(complex: bool, body: &[u8], n: usize) -> bool {
    if body == [0x05, 0x00] {
        return n == 0;
    }
    let tag = (T::BYTE_CODE << 5) | (T::CLASS << 3);
    if complex {
        body.len() >= 2 && body[0] == 0x1E && (body[1] & 0xF9) == (tag | 1)
    } else {
        body.first() == Some(&(tag | 4))
    }
}

fn op_dec<T: Elem>(c: &mut Ctx, complex: bool, fmt: u16, body: &[u8]) -> (String, bool) {
    let r = if complex { dec_complex::<T>(fmt, body) } else { dec_typed::<T>(fmt, body) };
    {
        // one Message decoded three times (after a failure too): the decoders keep no state
        let m = msg_with(fmt, body);
        let show = |m: &Message| -> String {
            if complex { format!("{:?}", m.decode_complex_slice::<T>().map(|v| cbytes_of(&v)).map_err(|e| cls_of(&e))) } else { format!("{:?}", m.decode_typed_slice::<T>().map(|v| bytes_of(&v)).map_err(|e| cls_of(&e))) }
        };
        if let Ok((a, b2, c3)) = catch(|| (show(&m), show(&m), show(&m))) {
            if a != b2 || b2 != c3 {
                c.fail("numeric.dec.repeat_differs", "decoding the same message again gave another result".into());
            }
        }
    }
    if let Ok(Ok((n, _))) = &r {
        if !accepted_form_ok::<T>(complex, body, *n) {
            c.fail("numeric.dec.reinterpreted", format!("a body opening {} that is neither an array of the element type nor the empty vector decoded to {} elements", hex(&body[..body.len().min(4)]), n));
        }
    }
    if r.is_err() {
        c.fail("numeric.dec.panic", "bulk decoder panicked".into());
    }
    if fmt != 1 && !matches!(&r, Ok(Err(cl)) if cl == "UnexpectedBodyFormat") {
        c.fail("numeric.dec.wrong_format_not_rejected", format!("body format {} gave {}", fmt, &show_dec(&r)[..show_dec(&r).len().min(60)]));
    }
    let nt = matches!(r, Ok(Ok(_)));
    (format!("{} {}", c.idx, show_dec(&r)), nt)
}

fn op_gdec<T: Elem>(c: &mut Ctx, complex: bool, body: &[u8]) -> (String, bool) {
    let m = msg_with(1, body);
    let r = if complex {
        catch(|| T::complex_serde_decode(&m).map(|v| (v.len(), cbytes_of(&v))))
    } else {
        catch(|| m.beve_body::<Vec<T>>().map(|v| (v.len(), bytes_of(&v))))
    };
    let s = match &r {
        Err(_) => {
            c.fail("numeric.gdec.panic", "serde decoder panicked".into());
            "PANIC".to_string()
        }
        Ok(Ok((n, p))) => format!("ok {}", show_elems(*n, p)),
        Ok(Err(e)) => format!("err {}", cls_of(e)),
    };
    (format!("{} {}", c.idx, s), true)
}

fn op_aenc<T: Elem>(c: &mut Ctx, cls: u8, code: u8, qlen: usize, n: usize, payload: &[u8]) -> (String, bool) {
    let xs: Vec<T> = vec_of(payload);
    let q = path_of(qlen).into_bytes();
    let m = Message::builder().query_bytes(q).body_aligned_typed_slice(&xs).build();
    let body = m.body.clone();
    let align = std::mem::align_of::<T>();
    let size = beve::aligned_typed_slice_size(&xs, 48 + qlen);
    let off = 48 + qlen + body.len() - payload.len();
    if off % align != 0 {
        c.fail("numeric.aenc.payload_not_aligned_in_frame", format!("payload at frame offset {} (query {} bytes, align {})", off, qlen, align));
    }
    if body != indep_body("aligned", cls, code, T::W, n, payload, 48 + qlen) {
        c.fail("numeric.aenc.body_ne_spec", format!("aligned body behind a {}-byte query differs from the spec layout", qlen));
    }
    if !body.ends_with(payload) {
        c.fail("numeric.aenc.payload_bytes", "aligned body does not end with the element bytes".into());
    }
    if size != body.len() {
        c.fail("numeric.aenc.size_closed_form", format!("aligned_typed_slice_size {} but {} bytes written", size, body.len()));
    }
    if m.header.body_format != 1 {
        c.fail("numeric.aenc.format_not_beve", format!("body format {}", m.header.body_format));
    }
    match aligned_layout(&body, cls, code, T::W) {
        Some((d, k)) if d == body.len() - payload.len() && k == n => {}
        other => c.fail("numeric.aenc.layout", format!("aligned body does not follow the spec layout: {:?}", other)),
    }
    match beve::read_aligned_typed_slice::<T>(&body) {
        Ok(v) if bytes_of(&v) == payload && v.len() == n => {}
        _ => c.fail("numeric.aenc.owned_roundtrip", "read_aligned_typed_slice does not return the elements".into()),
    }
    // a regular route / decoder must not reinterpret the aligned form
    if let Ok(Ok(_)) = dec_typed::<T>(1, &body) {
        c.fail("numeric.aenc.regular_decoder_accepts_aligned", "decode_typed_slice accepted an aligned body".into());
    }
    (format!("{} {} off {} size {}", c.idx, hex(&body), off, size), true)
}

fn op_adec<T: Elem>(c: &mut Ctx, addr: usize, body: &[u8]) -> (String, bool) {
    let placed = Placed::new(body, addr % 16);
    let b = placed.bytes();
    let owned = catch(|| beve::read_aligned_typed_slice::<T>(b));
    let borrowed = catch(|| beve::read_aligned_typed_slice_ref::<T>(b).map(|s| (s.as_ptr() as usize, s.len(), bytes_of(s))));
    let s = match (&owned, &borrowed) {
        (Err(_), _) | (_, Err(_)) => {
            c.fail("numeric.adec.panic", "aligned reader panicked".into());
            "PANIC".to_string()
        }
        (Ok(Err(_)), Ok(Ok(_))) => {
            c.fail("numeric.adec.borrow_without_owned", "borrowing reader accepted what the owned reader rejects".into());
            "err Beve".to_string()
        }
        (Ok(Err(_)), _) => "err Beve".to_string(),
        (Ok(Ok(v)), Ok(Ok((p, k, bb)))) => {
            if p % std::mem::align_of::<T>() != 0 || !placed.contains(*p) && *k > 0 {
                c.fail("numeric.adec.borrow_unsound", format!("borrowed slice at {:#x} (align {})", p, std::mem::align_of::<T>()));
            }
            if *k != v.len() || *bb != bytes_of(v) {
                c.fail("numeric.adec.owned_ne_borrowed", "borrowed and owned elements differ".into());
            }
            format!("ok {} borrowed", show_elems(v.len(), &bytes_of(v)))
        }
        (Ok(Ok(v)), Ok(Err(_))) => format!("ok {} copied", show_elems(v.len(), &bytes_of(v))),
    };
    (format!("{} {}", c.idx, s), matches!(owned, Ok(Ok(_))))
}

#[allow(clippy::too_many_arguments)]
fn op_aref<T: Elem>(c: &mut Ctx, cls: u8, code: u8, mis: usize, qlen: usize, qafter: bool, wire: u8, n: usize, payload: &[u8]) -> (String, bool) {
    let xs: Vec<T> = vec_of(payload);
    let path = path_of(qlen);
    let mk = || {
        let b = Message::builder().id(77).query_format_code(1);
        if qafter {
            b.body_aligned_typed_slice(&xs).query_bytes(path.clone().into_bytes()).build()
        } else {
            b.query_bytes(path.clone().into_bytes()).body_aligned_typed_slice(&xs).build()
        }
    };
    let m = mk();
    let body = m.body.clone();
    // (a clone would lose the headroom the builder reserved: the in-place branch needs the builder's own buffer)
    let frame = if wire == 1 { mk().into_wire_bytes() } else { m.to_vec() };
    if wire == 1 && frame != m.to_vec() {
        c.fail("numeric.aref.into_wire_bytes_ne_to_vec", "into_wire_bytes on the builder's own buffer differs from to_vec".into());
    }
    let placed = Placed::new(&frame, mis);
    let (h, seen) = ref_router::<T>(&path);
    let align = std::mem::align_of::<T>();
    let view = match MessageView::from_slice(placed.bytes()) {
        Ok(v) => v,
        Err(e) => {
            c.fail("numeric.aref.frame_unparsable", format!("built frame does not parse: {}", cls_of(&e)));
            return (format!("{} {} unparsable", c.idx, hex(&body)), false);
        }
    };
    if view.body != &body[..] {
        c.fail("numeric.aref.frame_body", "frame body differs from the built body".into());
    }
    let o = run_handler(&h, &seen, &path, Some(&view), None);
    let o2 = run_handler(&h, &seen, &path, None, Some(&m));
    let mut flag = None;
    match &o {
        HOut::Called { resp_body, seen: (k, p), ptr } => {
            let borrowed = placed.contains(*ptr) && *k > 0 || (*k == 0 && placed.contains(*ptr));
            flag = Some(borrowed);
            if *k != n || p != payload {
                c.fail("numeric.aref.elements_differ", format!("handler saw {} elements, bits equal: {}", k, p == payload));
            }
            if borrowed && ptr % align != 0 {
                c.fail("numeric.aref.borrowed_misaligned", format!("borrowed slice at {:#x}, align {}", ptr, align));
            }
            // borrowed <=> the payload's absolute address is aligned
            let data_addr = placed.bytes().as_ptr() as usize + 48 + qlen + (body.len() - payload.len());
            let aligned = data_addr % align == 0;
            if borrowed != aligned {
                c.fail(if aligned { "numeric.aref.aligned_but_copied" } else { "numeric.aref.unaligned_but_borrowed" },
                       format!("payload address residue {} mod {}, borrowed={}", data_addr % align, align, borrowed));
            }
            // the padding was sized for this query: aligned exactly when the frame base is
            if !qafter && aligned != (mis % align == 0) {
                c.fail("numeric.aref.padding_wrong_for_query", format!("frame base misalignment {} but payload aligned={} (query {} bytes, align {})", mis, aligned, qlen, align));
            }
            match dec_typed::<T>(1, resp_body) {
                Ok(Ok((k2, p2))) if k2 == n && p2 == payload => {}
                _ => c.fail("numeric.aref.response_differs", "response does not decode to the request elements".into()),
            }
        }
        other => c.fail("numeric.aref.not_served", format!("aligned request was not served: {}", show_hout(other, None))),
    }
    let same = match (&o, &o2) {
        (HOut::Called { resp_body: a, seen: sa, .. }, HOut::Called { resp_body: b2, seen: sb, .. }) => a == b2 && sa == sb,
        (a, b2) => a == b2,
    };
    if !same {
        c.fail("numeric.aref.owned_view_differ", format!("handle(owned) gave {} but handle_view gave {}", &show_hout(&o2, None)[..show_hout(&o2, None).len().min(60)], &show_hout(&o, None)[..show_hout(&o, None).len().min(60)]));
    }
    let _ = (cls, code);
    (format!("{} {} {}", c.idx, hex(&body), show_hout(&o, flag)), n > 0)
}

fn op_ref<T: Elem>(c: &mut Ctx, cls: u8, code: u8, fmt: u16, mis: usize, qlen: usize, body: &[u8]) -> (String, bool) {
    let path = path_of(qlen);
    let frame = RawFrame::request(5, false, 1, path.as_bytes(), fmt, body).to_vec();
    let placed = Placed::new(&frame, mis);
    let (h, seen) = ref_router::<T>(&path);
    let align = std::mem::align_of::<T>();
    let view = MessageView::from_slice(placed.bytes()).expect("independent frame parses");
    let owned = Message::from_slice(&frame).expect("independent frame parses");
    let o = run_handler(&h, &seen, &path, Some(&view), None);
    let o2 = run_handler(&h, &seen, &path, None, Some(&owned));
    let mut flag = None;
    match &o {
        HOut::Panic => c.fail("numeric.ref.panic", "borrowing route panicked".into()),
        HOut::Odd(s) => c.fail("numeric.ref.odd", s.clone()),
        HOut::Called { resp_body, seen: (k, p), ptr } => {
            let borrowed = placed.contains(*ptr);
            flag = Some(borrowed);
            if fmt != 1 {
                c.fail("numeric.ref.wrong_format_served", format!("body format {} was served", fmt));
            }
            if borrowed && ptr % align != 0 {
                c.fail("numeric.ref.borrowed_misaligned", format!("borrowed slice at {:#x}, align {}", ptr, align));
            }
            if let Some((d, cnt)) = aligned_layout(body, cls, code, T::W) {
                let data_addr = placed.bytes().as_ptr() as usize + 48 + qlen + d;
                let aligned = data_addr % align == 0;
                if borrowed != aligned {
                    c.fail(if aligned { "numeric.ref.aligned_but_copied" } else { "numeric.ref.unaligned_but_borrowed" },
                           format!("payload address residue {} mod {}, borrowed={}", data_addr % align, align, borrowed));
                }
                if *k != cnt || p[..] != body[d..d + cnt * T::W] {
                    c.fail("numeric.ref.elements_differ", "handler saw other elements than the DATA block".into());
                }
            } else {
                if borrowed {
                    c.fail("numeric.ref.borrowed_non_aligned_form", "a body that is not an aligned array was borrowed".into());
                }
                if body.first() != Some(&0x5C) && !accepted_form_ok::<T>(false, body, *k) {
                    c.fail("numeric.ref.reinterpreted", format!("a body opening {} that is neither an array of the element type nor the empty vector was served as {} elements", hex(&body[..body.len().min(4)]), k));
                }
            }
            match dec_typed::<T>(1, resp_body) {
                Ok(Ok((k2, p2))) if k2 == *k && p2 == *p => {}
                _ => c.fail("numeric.ref.response_differs", "response does not decode to the elements the handler saw".into()),
            }
        }
        HOut::Reject(ec) => {
            if fmt == 1 || *ec != 4 {
                c.fail("numeric.ref.reject", format!("reject ec {} for body format {}", ec, fmt));
            }
        }
        HOut::Err(_) => {
            if fmt != 1 {
                c.fail("numeric.ref.wrong_format_decoded", format!("body format {} reached the decoder", fmt));
            }
        }
    }
    let same = match (&o, &o2) {
        (HOut::Called { resp_body: a, seen: sa, .. }, HOut::Called { resp_body: b2, seen: sb, .. }) => a == b2 && sa == sb,
        (a, b2) => a == b2,
    };
    if !same {
        c.fail("numeric.ref.owned_view_differ", format!("handle(owned) gave {} but handle_view gave {}", &show_hout(&o2, None)[..show_hout(&o2, None).len().min(60)], &show_hout(&o, None)[..show_hout(&o, None).len().min(60)]));
    }
    let nt = matches!(o, HOut::Called { .. });
    (format!("{} {}", c.idx, show_hout(&o, flag)), nt)
}

fn op_slice<T: Elem>(c: &mut Ctx, fmt: u16, qlen: usize, body: &[u8]) -> (String, bool) {
    let path = path_of(qlen);
    let frame = RawFrame::request(6, false, 1, path.as_bytes(), fmt, body).to_vec();
    let (h, seen) = slice_router::<T>(&path);
    let view = MessageView::from_slice(&frame).expect("independent frame parses");
    let owned = Message::from_slice(&frame).expect("independent frame parses");
    let o = run_handler(&h, &seen, &path, Some(&view), None);
    let o2 = run_handler(&h, &seen, &path, None, Some(&owned));
    match &o {
        HOut::Panic => c.fail("numeric.slice.panic", "bulk route panicked".into()),
        HOut::Odd(s) => c.fail("numeric.slice.odd", s.clone()),
        HOut::Called { resp_body, seen: (k, p), .. } => {
            if fmt != 1 {
                c.fail("numeric.slice.wrong_format_served", format!("body format {} was served", fmt));
            }
            if !accepted_form_ok::<T>(false, body, *k) {
                c.fail("numeric.slice.reinterpreted", format!("a body opening {} that is neither an array of the element type nor the empty vector was served as {} elements", hex(&body[..body.len().min(4)]), k));
            }
            match dec_typed::<T>(1, resp_body) {
                Ok(Ok((k2, p2))) if k2 == *k && p2 == *p => {}
                _ => c.fail("numeric.slice.response_differs", "response does not decode to the elements the handler saw".into()),
            }
        }
        HOut::Reject(ec) => {
            if fmt == 1 || *ec != 4 {
                c.fail("numeric.slice.reject", format!("reject ec {} for body format {}", ec, fmt));
            }
        }
        HOut::Err(_) => {
            if fmt != 1 {
                c.fail("numeric.slice.wrong_format_decoded", format!("body format {} reached the decoder", fmt));
            }
        }
    }
    let same = match (&o, &o2) {
        (HOut::Called { resp_body: a, seen: sa, .. }, HOut::Called { resp_body: b2, seen: sb, .. }) => a == b2 && sa == sb,
        (a, b2) => a == b2,
    };
    if !same {
        c.fail("numeric.slice.owned_view_differ", "handle(owned) and handle_view disagree".into());
    }
    let nt = matches!(o, HOut::Called { .. });
    (format!("{} {}", c.idx, show_hout(&o, None)), nt)
}

/// Encode `payload` as elements of type `U` in the given wire form.
fn encode_as<U: Elem>(form: &str, payload: &[u8]) -> Vec<u8> {
    match form {
        "regular" => Message::builder().body_typed_slice(&vec_of::<U>(payload)).build().body,
        "aligned" => Message::builder().query_bytes(b"/qqq".to_vec()).body_aligned_typed_slice(&vec_of::<U>(payload)).build().body,
        "complex" => Message::builder().body_complex_slice(&cvec_of::<U>(payload)).build().body,
        _ => panic!("unknown form"),
    }
}

fn all_decoders<T: Elem>(fmt: u16, body: &[u8]) -> (String, Vec<(&'static str, bool)>) {
    let path = path_of(4);
    let d = dec_typed::<T>(fmt, body);
    let cd = dec_complex::<T>(fmt, body);
    let frame = RawFrame::request(8, false, 1, path.as_bytes(), fmt, body).to_vec();
    let view = MessageView::from_slice(&frame).expect("frame");
    let (hs, ss) = slice_router::<T>(&path);
    let (hr, sr) = ref_router::<T>(&path);
    let s = run_handler(&hs, &ss, &path, Some(&view), None);
    let r = run_handler(&hr, &sr, &path, Some(&view), None);
    let short = |x: String| -> String { x.split(' ').take(2).collect::<Vec<_>>().join(":") };
    let acc = vec![
        ("dec", matches!(d, Ok(Ok(_)) | Err(()))),
        ("cdec", matches!(cd, Ok(Ok(_)) | Err(()))),
        ("slice", matches!(s, HOut::Called { .. } | HOut::Panic | HOut::Odd(_))),
        ("ref", matches!(r, HOut::Called { .. } | HOut::Panic | HOut::Odd(_))),
    ];
    (format!("dec={} cdec={} slice={} ref={}", short(show_dec(&d)), short(show_dec(&cd)), short(show_hout(&s, None)), short(show_hout(&r, None))), acc)
}

fn op_wrong<T: Elem>(c: &mut Ctx, body: &[u8], form: &str) -> (String, bool) {
    let (s, acc) = all_decoders::<T>(1, body);
    for (name, accepted) in acc {
        // the complex decoder legitimately reads a complex body of *its own* type only; every pairing here differs in type
        if accepted {
            c.fail(&format!("numeric.wrong_type.{}.{}_accepted", form, name), format!("a {} body of another element type was not rejected by {}", form, name));
        }
    }
    (format!("{} {} {}", c.idx, hex(body), s), true)
}

/// A body of the decoder's *own* element type in each wire form: the three forms are distinct types.
fn op_form<T: Elem>(c: &mut Ctx, body: &[u8], form: &str) -> (String, bool) {
    let (s, acc) = all_decoders::<T>(1, body);
    for (name, accepted) in acc {
        let expect = match (form, name) {
            ("regular", "dec") | ("regular", "slice") | ("regular", "ref") => true,
            ("aligned", "ref") => true,
            ("complex", "cdec") => true,
            _ => false,
        };
        if accepted != expect {
            c.fail(&format!("numeric.form.{}.{}_{}", form, name, if accepted { "accepted" } else { "rejected" }),
                   format!("a {} body of the decoder's own element type was {} by {}", form, if accepted { "accepted" } else { "rejected" }, name));
        }
    }
    (format!("{} {} {}", c.idx, hex(body), s), true)
}

fn op_wrongfmt<T: Elem>(c: &mut Ctx, fmt: u16, body: &[u8]) -> (String, bool) {
    let (s, acc) = all_decoders::<T>(fmt, body);
    for (name, accepted) in acc {
        if accepted {
            c.fail(&format!("numeric.wrong_format.{}_accepted", name), format!("body format {} was not rejected by {}", fmt, name));
        }
    }
    (format!("{} {}", c.idx, s), true)
}

#[allow(clippy::too_many_arguments)]
fn op_stream<T: Elem>(c: &mut Ctx, complex: bool, id: u64, notify: bool, ec: u32, qfmt: u16, q: &[u8], n: usize, payload: &[u8]) -> (String, bool) {
    let mut h = repe::Header::new();
    h.id = id;
    h.notify = notify as u8;
    h.ec = ec;
    h.query_format = qfmt;
    // fields the writer must overwrite
    h.body_format = 3;
    h.length = 7;
    h.query_length = 9;
    h.body_length = 11;
    let mut streamed = Vec::new();
    let mkb = || {
        let mut b = Message::builder().id(id).notify(notify).query_format_code(qfmt).query_bytes(q.to_vec());
        if let Ok(code) = repe::ErrorCode::try_from(ec) {
            b = b.error_code(code);
        }
        b
    };
    let (r, built, built_own) = if complex {
        let xs: Vec<Complex<T>> = cvec_of(payload);
        (catch(|| repe::write_message_complex_slice(&mut streamed, h, q, &xs)), mkb().body_complex_slice(&xs).build(), mkb().body_complex_slice(&xs).build())
    } else {
        let xs: Vec<T> = vec_of(payload);
        (catch(|| repe::write_message_typed_slice(&mut streamed, h, q, &xs)), mkb().body_typed_slice(&xs).build(), mkb().body_typed_slice(&xs).build())
    };
    let k = if complex { "cstream" } else { "stream" };
    match r {
        Ok(Ok(())) => {}
        _ => {
            c.fail(&format!("numeric.{}.failed", k), "streaming writer failed on a Vec sink".into());
            return (format!("{} FAILED", c.idx), false);
        }
    }
    let buffered = built.to_vec();
    let mut written = Vec::new();
    repe::write_message(&mut written, &built).unwrap();
    // the builder's own buffer (with its reserved headroom), not a clone: the in-place branch
    let wire = built_own.into_wire_bytes();
    if streamed != buffered || written != buffered || wire != buffered {
        c.fail(&format!("numeric.{}.streaming_ne_buffered", k), format!("streamed {} bytes, buffered {} bytes; write_message equal: {}, into_wire_bytes equal: {}", streamed.len(), buffered.len(), written == buffered, wire == buffered));
    }
    {
        // user callbacks that fail: a body writer returning Err, a sink failing after some bytes — the
        // writers must return the error (no panic) and what reached the sink is a prefix of the frame
        struct FailAfter { out: Vec<u8>, left: usize, kind: std::io::ErrorKind }
        impl std::io::Write for FailAfter {
            fn write(&mut self, buf: &[u8]) -> std::io::Result<usize> {
                if self.left == 0 {
                    return Err(std::io::Error::new(self.kind, "sink failed"));
                }
                let n = buf.len().min(self.left);
                self.out.extend_from_slice(&buf[..n]);
                self.left -= n;
                Ok(n)
            }
            fn flush(&mut self) -> std::io::Result<()> { Ok(()) }
        }
        use std::io::ErrorKind as K;
        // every error kind a sink can report (Interrupted apart: `write_all` retries it, see the sink below)
        let kinds = [K::NotFound, K::PermissionDenied, K::ConnectionRefused, K::ConnectionReset, K::ConnectionAborted, K::NotConnected, K::AddrInUse,
                     K::AddrNotAvailable, K::BrokenPipe, K::AlreadyExists, K::WouldBlock, K::InvalidInput, K::InvalidData, K::TimedOut, K::WriteZero,
                     K::UnexpectedEof, K::Unsupported, K::OutOfMemory, K::Other];
        for (ki, left) in [0usize, 1, 47, 48, 48 + q.len(), 49 + q.len(), buffered.len().saturating_sub(1), 7, 50, 60, 48 + q.len() / 2, 3, 2, 46, 51, 52, 53, 54, 55].into_iter().enumerate() {
            if left >= buffered.len() {
                continue;
            }
            let mut sink = FailAfter { out: Vec::new(), left, kind: kinds[(ki + n) % kinds.len()] };
            let r = catch(|| if complex { repe::write_message_complex_slice(&mut sink, h, q, &cvec_of::<T>(payload)) } else { repe::write_message_typed_slice(&mut sink, h, q, &vec_of::<T>(payload)) });
            // (whether the writer reports the error is not the property's business; a panic or other bytes are)
            // a writer that says Ok has emitted the frame: with a sink that failed before the end that cannot be
            if r.is_err() || !buffered.starts_with(&sink.out) || matches!(r, Ok(Ok(()))) {
                c.fail(&format!("numeric.{}.failing_sink", k), format!("sink failing with {:?} after {} bytes: result {}, bytes in the sink are a prefix of the frame: {}", sink.kind, left, match &r { Ok(Ok(())) => "Ok", Ok(Err(_)) => "Err", Err(_) => "PANIC" }, buffered.starts_with(&sink.out)));
            }
        }
        let mut sink = Vec::new();
        let r = catch(|| repe::write_message_streaming(&mut sink, h, q, 3, |_w: &mut Vec<u8>| Err::<(), std::io::Error>(std::io::Error::new(std::io::ErrorKind::Other, "producer failed"))));
        if r.is_err() {
            c.fail(&format!("numeric.{}.failing_body_writer", k), "a body writer returning Err made the streaming writer panic".into());
        }
    }
    {
        // a sink that reports `Interrupted` on every other call and takes a few bytes otherwise
        struct Interrupting { out: Vec<u8>, tick: u32, max: usize }
        impl std::io::Write for Interrupting {
            fn write(&mut self, buf: &[u8]) -> std::io::Result<usize> {
                self.tick += 1;
                if self.tick % 2 == 1 {
                    return Err(std::io::Error::new(std::io::ErrorKind::Interrupted, "signal"));
                }
                let n = buf.len().min(self.max);
                self.out.extend_from_slice(&buf[..n]);
                Ok(n)
            }
            fn flush(&mut self) -> std::io::Result<()> { Ok(()) }
        }
        for max in [5usize, 48, 4096] {
            let mut sink = Interrupting { out: Vec::new(), tick: 0, max };
            let r = catch(|| if complex { repe::write_message_complex_slice(&mut sink, h, q, &cvec_of::<T>(payload)) } else { repe::write_message_typed_slice(&mut sink, h, q, &vec_of::<T>(payload)) });
            if !matches!(r, Ok(Ok(()))) || sink.out != buffered {
                c.fail(&format!("numeric.{}.interrupted_sink_ne_buffered", k), format!("a sink reporting Interrupted between writes of {} bytes: {} bytes arrived, builder frame {}", max, sink.out.len(), buffered.len()));
            }
        }
    }
    {
        // two frames into ONE sink, one after the other: the concatenation of the two builder frames
        let mut sink = Vec::new();
        let ok = catch(|| {
            for _ in 0..2 {
                let r = if complex { repe::write_message_complex_slice(&mut sink, h, q, &cvec_of::<T>(payload)) } else { repe::write_message_typed_slice(&mut sink, h, q, &vec_of::<T>(payload)) };
                r.expect("Vec sink");
            }
        });
        let mut twice = buffered.clone();
        twice.extend_from_slice(&buffered);
        if ok.is_err() || sink != twice {
            c.fail(&format!("numeric.{}.second_frame_differs", k), "two frames streamed into one sink are not the two builder frames".into());
        }
    }
    // the same writers into sinks that take only a few bytes per call (plain and gathering), and the
    // core `write_message_streaming` with the body written by the caller
    for max in short_limits(q.len()) {
        for gather in [false, true] {
            let run = |typed: bool| -> Result<Vec<u8>, ()> {
                macro_rules! go {
                    ($sink:expr) => {{
                        let mut sw = $sink;
                        let r = catch(|| {
                            if !typed {
                                let body = &built.body;
                                let mut hh = h;
                                hh.body_format = 1;
                                repe::write_message_streaming(&mut sw, hh, q, body.len() as u64, |w| std::io::Write::write_all(w, body))
                            } else if complex {
                                repe::write_message_complex_slice(&mut sw, h, q, &cvec_of::<T>(payload))
                            } else {
                                repe::write_message_typed_slice(&mut sw, h, q, &vec_of::<T>(payload))
                            }
                        });
                        match r {
                            Ok(Ok(())) => Ok(sw.out),
                            _ => Err(()),
                        }
                    }};
                }
                if gather { go!(ShortGather { out: Vec::new(), max }) } else { go!(ShortWriter { out: Vec::new(), max }) }
            };
            for typed in [true, false] {
                let got = run(typed);
                if got.as_ref().ok() != Some(&buffered) {
                    let what = if typed { k } else { "write_message_streaming" };
                    let sink = if gather { "gathering sink" } else { "write-only sink" };
                    let detail = match &got {
                        Ok(g) => {
                            let at = g.iter().zip(buffered.iter()).position(|(a, b)| a != b).unwrap_or(g.len().min(buffered.len()));
                            format!("{} into a {} taking {} bytes per call: {} bytes written, builder frame {} bytes, first difference at byte {} (query {} bytes)", what, sink, max, g.len(), buffered.len(), at, q.len())
                        }
                        Err(()) => format!("{} into a {} taking {} bytes per call failed", what, sink, max),
                    };
                    c.fail(&format!("numeric.{}.short_sink_ne_buffered", k), detail);
                }
            }
        }
    }
    match Message::from_slice_exact(&streamed) {
        Ok(m) => {
            let back = if complex { dec_complex::<T>(m.header.body_format, &m.body) } else { dec_typed::<T>(m.header.body_format, &m.body) };
            if !matches!(&back, Ok(Ok((k2, p2))) if *k2 == n && p2 == payload) || m.query != q {
                c.fail(&format!("numeric.{}.roundtrip", k), "streamed frame does not decode to the elements".into());
            }
        }
        Err(e) => c.fail(&format!("numeric.{}.frame_inconsistent", k), format!("streamed frame does not parse: {}", cls_of(&e))),
    }
    (format!("{} {}", c.idx, hex(&streamed)), true)
}

/// A sink that implements only `write` + `flush` (so `write_vectored` is std's default: the first
/// non-empty buffer) and accepts at most `max` bytes per call.
struct ShortWriter {
    out: Vec<u8>,
    max: usize,
}
impl std::io::Write for ShortWriter {
    fn write(&mut self, buf: &[u8]) -> std::io::Result<usize> {
        let n = buf.len().min(self.max.max(1));
        self.out.extend_from_slice(&buf[..n]);
        Ok(n)
    }
    fn flush(&mut self) -> std::io::Result<()> {
        Ok(())
    }
}
/// A gathering sink: `write_vectored` takes bytes across the buffers, at most `max` per call.
struct ShortGather {
    out: Vec<u8>,
    max: usize,
}
impl std::io::Write for ShortGather {
    fn write(&mut self, buf: &[u8]) -> std::io::Result<usize> {
        let n = buf.len().min(self.max.max(1));
        self.out.extend_from_slice(&buf[..n]);
        Ok(n)
    }
    fn write_vectored(&mut self, bufs: &[std::io::IoSlice<'_>]) -> std::io::Result<usize> {
        let mut left = self.max.max(1);
        let mut n = 0;
        for b in bufs {
            let k = b.len().min(left);
            self.out.extend_from_slice(&b[..k]);
            n += k;
            left -= k;
            if left == 0 {
                break;
            }
        }
        Ok(n)
    }
    fn flush(&mut self) -> std::io::Result<()> {
        Ok(())
    }
}

/// Per-call limits of the short-write sinks for a query of `q` bytes: around the header end, around
/// the end of the query, tiny and large.
fn short_limits(q: usize) -> Vec<usize> {
    let mut v = vec![1, 2, 7, 47, 48, 49, 48 + q, 48 + q + 1, 1000];
    if q > 0 {
        v.push(48 + q - 1);
        v.push(48 + q / 2);
    }
    v.sort();
    v.dedup();
    v
}

// ------------------------------------------------------------------------------------------
// real servers
// ------------------------------------------------------------------------------------------
const PLENS: [usize; 9] = [1, 8, 9, 10, 11, 12, 13, 14, 15];

struct Net {
    rt: tokio::runtime::Runtime,
    addr: [String; 3],
    sync_client: [repe::Client; 3],
    async_client: [repe::AsyncClient; 3],
    /// clients connected to the capture peer, and the frames it recorded
    /// WebSocket server (same router) and its client: only the serde helper exists there
    ws_client: repe::websocket_client::WebSocketClient,
    cap_sync: repe::Client,
    cap_async: repe::AsyncClient,
    captured: Mutex<std::sync::mpsc::Receiver<Vec<u8>>>,
}

/// A stand-in peer that records every request frame byte for byte and answers it: the request body
/// comes back as the response body (an aligned request is answered with an empty array of its type).
/// What the capture peer answers next instead of the echo (set by `capr`).
static NEXT_RESPONSE: Mutex<Option<(u16, Vec<u8>)>> = Mutex::new(None);
/// Error code the capture peer puts on its next answer (set by `capre`).
static NEXT_EC: std::sync::atomic::AtomicU32 = std::sync::atomic::AtomicU32::new(0);

fn start_capture() -> (String, std::sync::mpsc::Receiver<Vec<u8>>) {
    use std::io::{Read, Write};
    let listener = std::net::TcpListener::bind("127.0.0.1:0").unwrap();
    let addr = listener.local_addr().unwrap().to_string();
    let (tx, rx) = std::sync::mpsc::channel::<Vec<u8>>();
    std::thread::spawn(move || {
        for stream in listener.incoming() {
            let Ok(mut stream) = stream else { continue };
            let tx = tx.clone();
            std::thread::spawn(move || {
                let _ = stream.set_nodelay(true);
                loop {
                    let mut hdr = [0u8; 48];
                    if stream.read_exact(&mut hdr).is_err() {
                        return;
                    }
                    let id = u64::from_le_bytes(hdr[16..24].try_into().unwrap());
                    let q = u64::from_le_bytes(hdr[24..32].try_into().unwrap()) as usize;
                    let b = u64::from_le_bytes(hdr[32..40].try_into().unwrap()) as usize;
                    if q > (1 << 26) || b > (1 << 28) {
                        return;
                    }
                    let mut rest = vec![0u8; q + b];
                    if stream.read_exact(&mut rest).is_err() {
                        return;
                    }
                    let mut frame = hdr.to_vec();
                    frame.extend_from_slice(&rest);
                    let body = &rest[q..];
                    let forced = NEXT_RESPONSE.lock().unwrap().take();
                    let (resp_fmt, resp_body): (u16, Vec<u8>) = match forced {
                        Some(fb) => fb,
                        None if body.first() == Some(&0x5C) && body.len() > 1 => (1, vec![body[1], 0]),
                        None => (1, body.to_vec()),
                    };
                    let mut resp = RawFrame::request(id, false, 1, &rest[..q], resp_fmt, &resp_body);
                    resp.h.ec = NEXT_EC.swap(0, std::sync::atomic::Ordering::Relaxed);
                    let resp = resp.to_vec();
                    // a request for "/!noanswer" is recorded and never answered
                    let notify = hdr[11] != 0 || rest[..q].starts_with(b"/!noanswer");
                    if tx.send(frame).is_err() {
                        return;
                    }
                    if !notify {
                        let qb = &rest[..q];
                        let ok = if qb.starts_with(b"/!stall") {
                            // the answer stalls mid-frame for the number of milliseconds in the path
                            let ms: u64 = std::str::from_utf8(&qb[7..]).ok().and_then(|x| x.parse().ok()).unwrap_or(300);
                            let cut = (48 + resp.len()) / 2;
                            let cut = cut.min(resp.len());
                            let a = stream.write_all(&resp[..cut]).is_ok() && stream.flush().is_ok();
                            std::thread::sleep(std::time::Duration::from_millis(ms));
                            a && stream.write_all(&resp[cut..]).is_ok()
                        } else if qb.starts_with(b"/!frag") {
                            // the answer arrives in pieces (byte by byte for "/!frag1"), with a stall in the middle
                            let step = if qb.starts_with(b"/!frag1") { 1 } else { (resp.len() / 3).max(1) };
                            let mut good = true;
                            for (i, piece) in resp.chunks(step).enumerate() {
                                good &= stream.write_all(piece).is_ok() && stream.flush().is_ok();
                                if i == 1 {
                                    std::thread::sleep(std::time::Duration::from_millis(25));
                                }
                            }
                            good
                        } else {
                            stream.write_all(&resp).is_ok()
                        };
                        if !ok {
                            return;
                        }
                    }
                }
            });
        }
    });
    (addr, rx)
}

fn net_path(route: &str, cls: u8, code: u8, plen: usize) -> String {
    if route == "missing" {
        return format!("/missing{}", "m".repeat(plen.saturating_sub(8)));
    }
    if plen == 1 {
        // the one-byte path "/" is registered for f64 on the borrowing route only
        return "/".to_string();
    }
    let head = format!("/{}{}{}", &route[..1], cls, code);
    format!("{}{}", head, "p".repeat(plen.saturating_sub(head.len())))
}

fn add_routes<T: Elem>(mut r: Router, cls: u8, code: u8) -> Router {
    for plen in PLENS {
        if plen == 1 {
            continue;
        }
        r = r.with_typed_slice::<T, T, _>(&net_path("slice", cls, code, plen), Ok);
        r = r.with_typed_slice_ref::<T, T, _>(&net_path("ref", cls, code, plen), |xs: &[T]| Ok(xs.to_vec()));
        r = r.with_typed::<Vec<T>, Vec<T>, _>(&net_path("typed", cls, code, plen), |xs: Vec<T>| Ok(repe::server::TypedResponse::beve(xs)));
    }
    r
}

fn make_router() -> Router {
    let mut r = Router::new().with_typed_slice_ref::<f64, f64, _>("/", |xs: &[f64]| Ok(xs.to_vec()));
    for (cls, code, _) in TYPES {
        r = dispatch!(cls, code, add_routes(r, cls, code));
    }
    r
}

/// Calls into the code under test that did not come back within the watchdog bound.
static EXPIRIES: std::sync::atomic::AtomicUsize = std::sync::atomic::AtomicUsize::new(0);
/// Timeout handed to the `_with_timeout` entry points, and the watchdog for the entry points without one.
const CALL_BOUND: std::time::Duration = std::time::Duration::from_secs(15);
const WATCHDOG: std::time::Duration = std::time::Duration::from_secs(20);

/// Run a blocking call of the code under test on its own thread; `None` if it does not return within the
/// watchdog (the thread is abandoned).
fn guarded_call<R: Send + 'static>(f: impl FnOnce() -> R + Send + 'static) -> Option<R> {
    let (tx, rx) = std::sync::mpsc::channel();
    std::thread::spawn(move || {
        let _ = tx.send(f());
    });
    match rx.recv_timeout(WATCHDOG) {
        Ok(r) => Some(r),
        Err(_) => {
            EXPIRIES.fetch_add(1, std::sync::atomic::Ordering::Relaxed);
            None
        }
    }
}
fn never_returned() -> repe::RepeError {
    repe::RepeError::Io(std::io::Error::new(std::io::ErrorKind::Other, "WATCHDOG: the call never returned"))
}

static SEED: std::sync::atomic::AtomicU64 = std::sync::atomic::AtomicU64::new(1);

/// Index of a TCP server token (0 blocking, 1 async, 3 blocking with read/write timeouts and nodelay) in the tables.
fn srv_ix(token: usize) -> usize {
    if token == 3 { 2 } else { token }
}

fn start_net() -> Net {
    // odd seeds: a starved runtime (one worker, one blocking thread); even seeds: two of each
    let k = 1 + (SEED.load(std::sync::atomic::Ordering::Relaxed) % 2) as usize;
    let rt = tokio::runtime::Builder::new_multi_thread().worker_threads(k).max_blocking_threads(k).enable_all().build().unwrap();
    let l3 = std::net::TcpListener::bind("127.0.0.1:0").unwrap();
    let a3 = l3.local_addr().unwrap().to_string();
    let srv3 = repe::Server::new(make_router())
        // (set, but far longer than any run: an idle client connection must not be closed under the harness)
        .read_timeout(Some(std::time::Duration::from_secs(3600)))
        .write_timeout(Some(std::time::Duration::from_secs(3600)))
        .tcp_nodelay(true);
    std::thread::spawn(move || {
        let _ = srv3.serve(l3);
    });
    let listener = std::net::TcpListener::bind("127.0.0.1:0").unwrap();
    let a0 = listener.local_addr().unwrap().to_string();
    let srv = repe::Server::new(make_router());
    std::thread::spawn(move || {
        let _ = srv.serve(listener);
    });
    let a1 = rt.block_on(async {
        let l = repe::AsyncServer::listen("127.0.0.1:0").await.unwrap();
        let a = l.local_addr().unwrap().to_string();
        let r = make_router();
        tokio::spawn(async move {
            let _ = repe::AsyncServer::new(r).serve(l).await;
        });
        a
    });
    let sync_client = [repe::Client::connect(&a0).unwrap(), repe::Client::connect(&a1).unwrap(), repe::Client::connect(&a3).unwrap()];
    let async_client = rt.block_on(async { [repe::AsyncClient::connect(&a0).await.unwrap(), repe::AsyncClient::connect(&a1).await.unwrap(), repe::AsyncClient::connect(&a3).await.unwrap()] });
    let ws_url = rt.block_on(async {
        let l = tokio::net::TcpListener::bind("127.0.0.1:0").await.unwrap();
        let a = l.local_addr().unwrap();
        let r = make_router();
        tokio::spawn(async move {
            let _ = repe::websocket_server::WebSocketServer::new(r).serve_listener(l, "/repe").await;
        });
        format!("ws://{}/repe", a)
    });
    let ws_client = rt.block_on(async { repe::websocket_client::WebSocketClient::connect(&ws_url).await.unwrap() });
    let (ca, rx) = start_capture();
    let cap_sync = repe::Client::connect(&ca).unwrap();
    let cap_async = rt.block_on(async { repe::AsyncClient::connect(&ca).await.unwrap() });
    Net { rt, addr: [a0, a1, a3], sync_client, async_client, ws_client, cap_sync, cap_async, captured: Mutex::new(rx) }
}

#[allow(clippy::too_many_arguments)]
fn op_net<T: Elem>(c: &mut Ctx, server: usize, client: &str, kind: &str, route: &str, cls: u8, code: u8, plen: usize, n: usize, payload: &[u8]) -> (String, bool) {
    let net = c.net.expect("net started");
    let xs: Vec<T> = vec_of(payload);
    let path = net_path(route, cls, code, plen);
    let t = CALL_BOUND;
    let r: Result<Vec<T>, repe::RepeError> = {
        let (client, kind, path, xs) = (client.to_string(), kind.to_string(), path.to_string(), xs.clone());
        // every call into the clients runs under the harness watchdog
        guarded_call(move || {
            let (client, kind, path, xs) = (client.as_str(), kind.as_str(), path.as_str(), &xs);
            let r: Result<Vec<T>, repe::RepeError> = match (client, kind) {
        ("sync", "bulk") => net.sync_client[srv_ix(server)].call_typed_slice_with_timeout(&path, &xs, t),
        ("sync", "aligned") => net.sync_client[srv_ix(server)].call_typed_slice_aligned_with_timeout(&path, &xs, t),
        ("sync", "serde") => net.sync_client[srv_ix(server)].call_typed_beve_with_timeout(&path, &xs, t),
        ("async", "bulk") => net.rt.block_on(net.async_client[srv_ix(server)].call_typed_slice_with_timeout(&path, &xs, t)),
        ("async", "aligned") => net.rt.block_on(net.async_client[srv_ix(server)].call_typed_slice_aligned_with_timeout(&path, &xs, t)),
        ("async", "serde") => net.rt.block_on(net.async_client[srv_ix(server)].call_typed_beve_with_timeout(&path, &xs, t)),
        // server index 2: the WebSocket server, reached by the WebSocket client's serde helper
        ("ws", "serde") => net.rt.block_on(net.ws_client.call_typed_beve_with_timeout(&path, &xs, t)),
        _ => panic!("unknown client kind"),
            };
            r
        })
        .unwrap_or_else(|| Err(never_returned()))
    };
    let _ = &net.addr;
    let expect_served = !(kind == "aligned" && route != "ref") && route != "missing";
    let s = match &r {
        Ok(v) => {
            let p = bytes_of(v);
            if v.len() != n || p != payload {
                c.fail(&format!("numeric.net.{}.{}.elements_differ", kind, route), format!("echo returned {} elements, bits equal: {}", v.len(), p == payload));
            }
            if !expect_served {
                c.fail(&format!("numeric.net.{}.{}.aligned_accepted_by_regular_route", kind, route), "an aligned body was served by a route that does not understand it".into());
            }
            format!("ok {}", show_elems(v.len(), &p))
        }
        Err(e) if e.to_string().contains("WATCHDOG") => {
            c.fail(&format!("numeric.net.{}.{}.call_never_returned", kind, route), format!("the {} client's call did not return within {} s", client, WATCHDOG.as_secs()));
            "err never-returned".to_string()
        }
        Err(e) => {
            let cl = cls_of(e);
            if expect_served {
                // the empty vector travels as serde's empty generic array in exactly these pairings
                let generic_empty = n == 0 && ((kind == "serde" && route != "typed") || (kind == "bulk" && route == "typed"));
                let sig = if generic_empty { format!("numeric.net.{}.{}.rejects_generic_empty", kind, route) } else { format!("numeric.net.{}.{}.failed", kind, route) };
                c.fail(&sig, format!("echo of {} elements over {} client / server {} failed: {}", n, client, server, cl));
            }
            format!("err {}", cl)
        }
    };
    (format!("{} {}", c.idx, s), r.is_ok())
}

/// Apply one body setter (`bytes` with a buffer of at least `cap` bytes capacity, `utf8`, `json`,
/// `beve`, `typed`, `complex`, `aligned`) to a builder.
fn apply_setter<T: Elem>(b: repe::message::MessageBuilder, name: &str, p: &[u8], cap: usize) -> repe::message::MessageBuilder {
    match name {
        "bytes" => {
            let mut v = Vec::with_capacity(cap.max(p.len()));
            v.extend_from_slice(p);
            b.body_bytes(v)
        }
        "utf8" => b.body_utf8(&hex(p)),
        "json" => b.body_json(&serde_json::Value::String(hex(p))).expect("json encode"),
        "beve" => b.body_beve(&vec_of::<T>(p)).expect("serde encode"),
        "typed" => b.body_typed_slice(&vec_of::<T>(p)),
        "complex" => b.body_complex_slice(&cvec_of::<T>(p)),
        "aligned" => b.body_aligned_typed_slice(&vec_of::<T>(p)),
        other => panic!("unknown setter {}", other),
    }
}

/// Two body setters in a row on one builder (query set before or after them): the last setter wins —
/// the message is the one a fresh builder makes with the last setter alone (`body_bytes` keeps the
/// format the earlier setter left), through `to_vec`, `write_message` and `into_wire_bytes`.
#[allow(clippy::too_many_arguments)]
fn op_seq<T: Elem>(c: &mut Ctx, s1: &str, s2: &str, qafter: bool, qlen: usize, cap: usize, p1: &[u8], p2: &[u8]) -> (String, bool) {
    let q = path_of(qlen).into_bytes();
    let start = || {
        let b = Message::builder().id(7);
        if qafter { b } else { b.query_bytes(q.clone()) }
    };
    let finish = |b: repe::message::MessageBuilder| if qafter { b.query_bytes(q.clone()).build() } else { b.build() };
    let both = finish(apply_setter::<T>(apply_setter::<T>(start(), s1, p1, cap), s2, p2, cap));
    // the reference: the last setter alone (after a format-only stand-in for the first when the last is body_bytes)
    let fresh = if s2 == "bytes" {
        let fmt_of_first = finish(apply_setter::<T>(start(), s1, p1, cap)).header.body_format;
        finish(apply_setter::<T>(start().body_format_code(fmt_of_first), s2, p2, 0))
    } else {
        finish(apply_setter::<T>(start(), s2, p2, 0))
    };
    let frame = both.to_vec();
    let mut written = Vec::new();
    repe::write_message(&mut written, &both).unwrap();
    let wire = finish(apply_setter::<T>(apply_setter::<T>(start(), s1, p1, cap), s2, p2, cap)).into_wire_bytes();
    if both.body != fresh.body || both.header.body_length != fresh.body.len() as u64 {
        let at = both.body.iter().zip(fresh.body.iter()).position(|(a, b)| a != b).unwrap_or(both.body.len().min(fresh.body.len()));
        c.fail(&format!("numeric.seq.{}_then_{}.stale_body", s1, s2), format!("after {} then {} the body has {} bytes (declared {}), a fresh builder with {} alone gives {} bytes; first difference at byte {}", s1, s2, both.body.len(), both.header.body_length, s2, fresh.body.len(), at));
    }
    if frame != fresh.to_vec() {
        c.fail(&format!("numeric.seq.{}_then_{}.frame_ne_fresh", s1, s2), format!("the frame ({} bytes) differs from the fresh builder's ({} bytes)", frame.len(), fresh.to_vec().len()));
    }
    {
        // a third setter on the same builder (the first kind again): still only the last one counts
        let three = finish(apply_setter::<T>(apply_setter::<T>(apply_setter::<T>(start(), s1, p1, cap), s2, p2, cap), s1, p1, cap));
        let fresh1 = if s1 == "bytes" {
            finish(apply_setter::<T>(start().body_format_code(both.header.body_format), s1, p1, 0))
        } else {
            finish(apply_setter::<T>(start(), s1, p1, 0))
        };
        if three.to_vec() != fresh1.to_vec() {
            c.fail(&format!("numeric.seq.{}_then_{}_then_{}.frame_ne_fresh", s1, s2, s1), "after three setters the frame is not the fresh builder's frame for the last one".into());
        }
    }
    if written != frame || wire != frame {
        c.fail(&format!("numeric.seq.{}_then_{}.routes_differ", s1, s2), format!("write_message equal: {}, into_wire_bytes equal: {}", written == frame, wire == frame));
    }
    (format!("{} {}", c.idx, hex(&frame)), true)
}

/// Independent writer of the three wire forms (BEVE spec: header byte, SIZE, padding), used as the
/// expectation of the byte-level oracles instead of anything the crate under test computes.
fn indep_size(n: usize) -> Vec<u8> {
    let n = n as u64;
    let (form, extra) = if n < 64 { (0u8, 0) } else if n < (1 << 14) { (1, 1) } else if n < (1 << 30) { (2, 3) } else { (3, 7) };
    let mut v = vec![(((n & 63) as u8) << 2) | form];
    v.extend_from_slice(&(n >> 6).to_le_bytes()[..extra]);
    v
}
fn indep_body(form: &str, cls: u8, code: u8, w: usize, n: usize, payload: &[u8], base: usize) -> Vec<u8> {
    let tag = (code << 5) | (cls << 3);
    let mut v = Vec::new();
    match form {
        "regular" => v.push(tag | 4),
        "complex" => {
            v.push(0x1E);
            v.push(tag | 1);
        }
        _ => {
            v.push(0x5C);
            v.push(tag | 4);
        }
    }
    v.extend_from_slice(&indep_size(n));
    if form == "aligned" {
        let at = base + v.len() + 1;
        let pad = (w - at % w) % w;
        v.push(pad as u8);
        v.extend(std::iter::repeat(0u8).take(pad));
    }
    v.extend_from_slice(payload);
    v
}

/// Independent reading of a regular typed array of (cls, code): offset of the data and element count.
fn regular_layout(body: &[u8], cls: u8, code: u8, w: usize) -> Option<(usize, usize)> {
    if body.first() != Some(&((code << 5) | (cls << 3) | 4)) {
        return None;
    }
    let b0 = *body.get(1)?;
    let extra = [0usize, 1, 3, 7][(b0 & 3) as usize];
    if body.len() < 2 + extra {
        return None;
    }
    let mut n: u64 = (b0 >> 2) as u64;
    for i in 0..extra {
        n |= (body[2 + i] as u64) << (6 + 8 * i);
    }
    let data = 2 + extra;
    let bytes = usize::try_from(n).ok()?.checked_mul(w)?;
    if body.len() - data < bytes {
        return None;
    }
    Some((data, n as usize))
}

struct HState {
    calls: u32,
    mw: u32,
    ptr: usize,
    n: usize,
    payload: Vec<u8>,
    mode: String,
}

/// `k` requests, one after the other, through ONE handler instance of a bulk route (bare or behind a
/// pass-through middleware).  The user closure echoes, answers bytes (another result type), returns
/// `Err`, or panics (String / &str / non-string payload).  Every step is judged on its own from the raw
/// bytes: a later request behaves as on a fresh route whatever happened before.
fn op_hseq<T: Elem>(c: &mut Ctx, kind: &str, wrap: bool, cls: u8, code: u8, q: &[u8], steps: &[(String, u16, usize, Vec<u8>)]) -> (String, bool) {
    let st = Arc::new(Mutex::new(HState { calls: 0, mw: 0, ptr: 0, n: 0, payload: vec![], mode: "same".into() }));
    let mut router = Router::new();
    if wrap {
        let s0 = st.clone();
        router = router.with_middleware(move |req: &Message, next: repe::server::Next| {
            s0.lock().unwrap().mw += 1;
            next.run(req)
        });
    }
    fn act<T: Elem>(st: &Arc<Mutex<HState>>, xs: &[T]) -> Result<(), (repe::ErrorCode, String)> {
        let mode = {
            let mut g = st.lock().unwrap();
            g.calls += 1;
            g.ptr = xs.as_ptr() as usize;
            g.n = xs.len();
            g.payload = bytes_of(xs);
            g.mode.clone()
        };
        match mode.as_str() {
            "err" => Err((repe::ErrorCode::ApplicationErrorBase, "refused by the handler".to_string())),
            m if m.starts_with("err") => {
                let code: u32 = m[3..].parse().expect("errN");
                Err((repe::ErrorCode::try_from(code).expect("known error code"), String::new()))
            }
            "panics" => panic!("{}", String::from("handler panic (String)")),
            "panicstr" => panic!("handler panic (&str)"),
            "panicint" => std::panic::panic_any(7u32),
            "slow" => {
                std::thread::sleep(std::time::Duration::from_millis(12));
                Ok(())
            }
            _ => Ok(()),
        }
    }
    let (s1, s2, s3, s4) = (st.clone(), st.clone(), st.clone(), st.clone());
    router = if kind == "ref" {
        router
            .with_typed_slice_ref::<T, T, _>("/h", move |xs: &[T]| act(&s1, xs).map(|_| xs.to_vec()))
            .with_typed_slice_ref::<T, u8, _>("/hb", move |xs: &[T]| act(&s2, xs).map(|_| bytes_of(xs)))
    } else {
        router
            .with_typed_slice::<T, T, _>("/h", move |xs: Vec<T>| act(&s3, &xs).map(|_| xs))
            .with_typed_slice::<T, u8, _>("/hb", move |xs: Vec<T>| act(&s4, &xs).map(|_| bytes_of(&xs)))
    };
    let h = router.get("/h").expect("route");
    let hb = router.get("/hb").expect("route");
    let align = std::mem::align_of::<T>();
    let mut obs = Vec::new();
    let mut any = false;
    for (i, (hk, fmt, mis, body)) in steps.iter().enumerate() {
        {
            let mut g = st.lock().unwrap();
            g.calls = 0;
            g.mw = 0;
            g.mode = hk.clone();
        }
        let frame = RawFrame::request(i as u64 + 1, false, 1, q, *fmt, body).to_vec();
        let placed = Placed::new(&frame, *mis);
        let view = MessageView::from_slice(placed.bytes()).expect("independent frame parses");
        let handler = if hk == "bytes" { &hb } else { &h };
        let r = catch(|| handler.handle_view(&view, &CallContext::detached("/h")));
        let g = st.lock().unwrap();
        let (calls, ptr, n, payload, mw) = (g.calls, g.ptr, g.n, g.payload.clone(), g.mw);
        drop(g);
        let tag = format!("numeric.hseq.{}{}", kind, if wrap { ".mw" } else { "" });
        if wrap && mw != 1 && matches!(r, Ok(_)) {
            c.fail(&format!("{}.middleware_not_run", tag), format!("step {}: the middleware ran {} times", i, mw));
        }
        // ---- what the raw bytes say must happen
        let data_at = 48 + q.len();
        let expect: Option<(usize, usize, bool)> = if *fmt != 1 {
            None
        } else if kind == "ref" && body.first() == Some(&0x5C) {
            aligned_layout(body, cls, code, T::W).map(|(d, k)| (d, k, (placed.bytes().as_ptr() as usize + data_at + d) % align == 0))
        } else if body[..] == [0x05, 0x00] {
            Some((2, 0, false))
        } else {
            regular_layout(body, cls, code, T::W).map(|(d, k)| (d, k, false))
        };
        let flag = if wrap || kind != "ref" { "-" } else if placed.contains(ptr) { "b" } else { "c" };
        let s = if calls == 0 {
            match &r {
                Err(_) => {
                    c.fail(&format!("{}.panic", tag), format!("step {}: the route panicked before the handler ran", i));
                    "PANIC".to_string()
                }
                Ok(Err(e)) => format!("err {}", cls_of(e)),
                Ok(Ok(resp)) => format!("reject {}", resp.header.ec),
            }
        } else {
            any = true;
            match &r {
                Err(_) => format!("called {} panic", flag),
                Ok(Err(e)) => format!("called {} herr {}", flag, cls_of(e)),
                Ok(Ok(resp)) if resp.header.ec != 0 => format!("called {} err {}", flag, resp.header.ec),
                Ok(Ok(resp)) => format!("called {} {}", flag, hex(&resp.body)),
            }
        };
        match expect {
            None => {
                if calls != 0 {
                    c.fail(&format!("{}.served_what_must_be_rejected", tag), format!("step {}: body format {}, body opening {} reached the handler with {} elements", i, fmt, hex(&body[..body.len().min(6)]), n));
                }
                if *fmt != 1 && !matches!(&r, Ok(Ok(resp)) if resp.header.ec == 4) {
                    c.fail(&format!("{}.wrong_format_answer", tag), format!("step {}: body format {} not answered InvalidBody", i, fmt));
                }
            }
            Some((d, k, aligned)) => {
                if calls != 1 {
                    c.fail(&format!("{}.not_served", tag), format!("step {} (after {:?}): a well-formed body of {} elements was not handed to the handler: {}", i, steps[..i].iter().map(|s| s.0.as_str()).collect::<Vec<_>>(), k, &s[..s.len().min(60)]));
                } else {
                    if n != k || payload[..] != body[d..d + k * T::W] {
                        c.fail(&format!("{}.elements_differ", tag), format!("step {} (after {:?}): the handler saw {} elements, the body holds {}; bits equal: {}", i, steps[..i].iter().map(|s| s.0.as_str()).collect::<Vec<_>>(), n, k, n == k && payload[..] == body[d..d + k * T::W]));
                    }
                    if flag != "-" && (flag == "b") != aligned {
                        c.fail(&format!("{}.{}", tag, if aligned { "aligned_but_copied" } else { "borrowed_unaligned" }), format!("step {}: payload aligned={}, borrowed={}", i, aligned, flag == "b"));
                    }
                    let want: Option<Vec<u8>> = match hk.as_str() {
                        "same" | "slow" => Some(indep_body("regular", cls, code, T::W, k, &body[d..d + k * T::W], 0)),
                        "bytes" => Some(indep_body("regular", 2, 0, 1, k * T::W, &body[d..d + k * T::W], 0)),
                        _ => None,
                    };
                    match (&want, &r) {
                        (Some(wb), Ok(Ok(resp))) if resp.header.ec == 0 && resp.header.body_format == 1 && resp.body == *wb && resp.header.id == i as u64 + 1 && resp.query.is_empty() => {}
                        (Some(_), _) => c.fail(&format!("{}.response_differs", tag), format!("step {} ({}): the response is not the typed array of the handler's result", i, hk)),
                        (None, Ok(Ok(resp))) if hk == "err" && resp.header.ec == 4096 => {}
                        // any other error code a closure can return: the property only needs the route to stay usable
                        (None, Ok(_)) if hk.starts_with("err") && hk.len() > 3 => {}
                        (None, Err(_)) if hk.starts_with("panic") => {} // the property is silent about a panicking handler
                        (None, _) => c.fail(&format!("{}.handler_error_lost", tag), format!("step {} ({}): the handler's error did not come back", i, hk)),
                    }
                }
            }
        }
        obs.push(s);
    }
    (format!("{} {}", c.idx, obs.join(" | ")), any)
}

/// An aligned request behind arbitrary query bytes (non-UTF-8, long), built by the builder and served
/// by the borrowing route with the frame at base misalignment `mis`.
#[allow(clippy::too_many_arguments)]
fn op_abld<T: Elem>(c: &mut Ctx, cls: u8, code: u8, mis: usize, wire: u8, q: &[u8], n: usize, payload: &[u8]) -> (String, bool) {
    let xs: Vec<T> = vec_of(payload);
    let m = Message::builder().id(3).query_bytes(q.to_vec()).body_aligned_typed_slice(&xs).build();
    let body = m.body.clone();
    let align = std::mem::align_of::<T>();
    let want = indep_body("aligned", cls, code, T::W, n, payload, 48 + q.len());
    if body != want {
        c.fail("numeric.abld.body_ne_spec", format!("aligned body behind a {}-byte query differs from the spec layout ({} vs {} bytes)", q.len(), body.len(), want.len()));
    }
    let off = 48 + q.len() + body.len() - payload.len().min(body.len());
    if off % align != 0 {
        c.fail("numeric.abld.payload_not_aligned_in_frame", format!("payload at frame offset {} (query {} bytes, align {})", off, q.len(), align));
    }
    if beve::aligned_typed_slice_size(&xs, 48 + q.len()) != body.len() {
        c.fail("numeric.abld.size_closed_form", "aligned_typed_slice_size differs from the bytes written".into());
    }
    let frame = if wire == 1 { Message::builder().id(3).query_bytes(q.to_vec()).body_aligned_typed_slice(&xs).build().into_wire_bytes() } else { m.to_vec() };
    if frame != RawFrame::request(3, false, 0, q, 1, &want).to_vec() {
        c.fail("numeric.abld.frame_ne_spec", "the frame differs from header + query + spec-layout body".into());
    }
    let placed = Placed::new(&frame, mis);
    let (h, seen) = ref_router::<T>("/h");
    let flag = match MessageView::from_slice(placed.bytes()) {
        Ok(view) => match run_handler(&h, &seen, "/h", Some(&view), None) {
            HOut::Called { seen: (k, p), ptr, resp_body } => {
                let borrowed = placed.contains(ptr);
                if k != n || p != payload {
                    c.fail("numeric.abld.elements_differ", format!("handler saw {} elements, bits equal: {}", k, p == payload));
                }
                if borrowed != (mis % align == 0) {
                    c.fail(if borrowed { "numeric.abld.borrowed_unaligned" } else { "numeric.abld.aligned_buffer_but_copied" }, format!("query {} bytes, base misalignment {}, align {}: borrowed={}", q.len(), mis, align, borrowed));
                }
                if resp_body != indep_body("regular", cls, code, T::W, n, payload, 0) {
                    c.fail("numeric.abld.response_differs", "response is not the typed array of the elements".into());
                }
                if borrowed { "borrowed" } else { "copied" }
            }
            other => {
                c.fail("numeric.abld.not_served", format!("aligned request not served: {}", &show_hout(&other, None)[..show_hout(&other, None).len().min(60)]));
                "unserved"
            }
        },
        Err(_) => {
            c.fail("numeric.abld.frame_unparsable", "built frame does not parse".into());
            "unparsable"
        }
    };
    (format!("{} {} off {} {}", c.idx, hex(&body), off, flag), true)
}

/// The peer answers a bulk / aligned call with a regular typed array of another (or the same) element
/// type: the client must hand back exactly those elements, or an error — never a reinterpretation.
fn op_capr<T: Elem>(c: &mut Ctx, client: &str, kind: &str, same: bool, resp_fmt: u16, resp: Vec<u8>, n2: usize, p2: &[u8]) -> (String, bool) {
    let same = same && resp_fmt == 1;
    let path = "/r";
    let net = c.net.expect("net started");
    let xs: Vec<T> = vec_of(&vec![0x11u8; 2 * T::W]);
    let t = CALL_BOUND;
    let rx = net.captured.lock().unwrap();
    while rx.try_recv().is_ok() {}
    *NEXT_RESPONSE.lock().unwrap() = Some((resp_fmt, resp));
    let r: Result<Vec<T>, repe::RepeError> = {
        let (client, kind, path, xs) = (client.to_string(), kind.to_string(), path.to_string(), xs.clone());
        // every call into the clients runs under the harness watchdog
        guarded_call(move || {
            let (client, kind, path, xs) = (client.as_str(), kind.as_str(), path.as_str(), &xs);
            let r: Result<Vec<T>, repe::RepeError> = match (client, kind) {
        ("sync", "bulk") => net.cap_sync.call_typed_slice_with_timeout(path, xs, t),
        ("sync", "aligned") => net.cap_sync.call_typed_slice_aligned_with_timeout(path, xs, t),
        ("async", "bulk") => net.rt.block_on(net.cap_async.call_typed_slice_with_timeout(path, xs, t)),
        ("async", "aligned") => net.rt.block_on(net.cap_async.call_typed_slice_aligned_with_timeout(path, xs, t)),
        ("syncp", "bulk") => net.cap_sync.call_typed_slice(path, xs),
        ("syncp", "aligned") => net.cap_sync.call_typed_slice_aligned(path, xs),
        ("asyncp", "bulk") => net.rt.block_on(net.cap_async.call_typed_slice(path, xs)),
        ("asyncp", "aligned") => net.rt.block_on(net.cap_async.call_typed_slice_aligned(path, xs)),
        _ => panic!("unknown client kind"),
            };
            r
        })
        .unwrap_or_else(|| Err(never_returned()))
    };
    let _ = rx.recv_timeout(std::time::Duration::from_secs(20));
    drop(rx);
    *NEXT_RESPONSE.lock().unwrap() = None;
    let s = match &r {
        Ok(v) => {
            let p = bytes_of(v);
            if !same {
                c.fail(&format!("numeric.capr.{}.{}.wrong_type_response_accepted", client, kind), format!("a response array of another element type / under body format {} ({} elements) decoded to {} elements", resp_fmt, n2, v.len()));
            } else if v.len() != n2 || p != p2 {
                c.fail(&format!("numeric.capr.{}.{}.elements_differ", client, kind), "the response elements differ".into());
            }
            format!("ok {}", show_elems(v.len(), &p))
        }
        Err(e) if e.to_string().contains("WATCHDOG") => {
            c.fail(&format!("numeric.capr.{}.{}.call_never_returned", client, kind), format!("the peer answered ({} elements) but the call did not return within {} s", n2, WATCHDOG.as_secs()));
            "err never-returned".to_string()
        }
        Err(e) => {
            if same {
                c.fail(&format!("numeric.capr.{}.{}.response_rejected", client, kind), format!("a well-formed response of the element type was rejected: {}", cls_of(e)));
            }
            format!("err {}", cls_of(e))
        }
    };
    (format!("{} {}", c.idx, s), r.is_ok())
}

/// The peer answers with an error code — over a body that is a perfectly decodable array of the element
/// type: the call must come back as an error, not with those elements.
fn op_capre(c: &mut Ctx, client: &str, kind: &str, ec: u32) -> (String, bool) {
    let net = c.net.expect("net started");
    let xs = vec![1.5f64, -2.5];
    let rx = net.captured.lock().unwrap();
    while rx.try_recv().is_ok() {}
    *NEXT_RESPONSE.lock().unwrap() = Some((1, indep_body("regular", 0, 3, 8, 2, &bytes_of(&xs), 0)));
    NEXT_EC.store(ec, std::sync::atomic::Ordering::Relaxed);
    let (cl, kd) = (client.to_string(), kind.to_string());
    let r: Result<Vec<f64>, repe::RepeError> = guarded_call(move || match (cl.as_str(), kd.as_str()) {
        ("sync", "bulk") => net.cap_sync.call_typed_slice_with_timeout("/e", &xs, CALL_BOUND),
        ("sync", _) => net.cap_sync.call_typed_slice_aligned_with_timeout("/e", &xs, CALL_BOUND),
        ("syncp", "bulk") => net.cap_sync.call_typed_slice("/e", &xs),
        ("syncp", _) => net.cap_sync.call_typed_slice_aligned("/e", &xs),
        ("async", "bulk") => net.rt.block_on(net.cap_async.call_typed_slice_with_timeout("/e", &xs, CALL_BOUND)),
        ("async", _) => net.rt.block_on(net.cap_async.call_typed_slice_aligned_with_timeout("/e", &xs, CALL_BOUND)),
        (_, "bulk") => net.rt.block_on(async { tokio::time::timeout(WATCHDOG, net.cap_async.call_typed_slice("/e", &xs)).await.unwrap_or_else(|_| Err(never_returned())) }),
        _ => net.rt.block_on(async { tokio::time::timeout(WATCHDOG, net.cap_async.call_typed_slice_aligned("/e", &xs)).await.unwrap_or_else(|_| Err(never_returned())) }),
    })
    .unwrap_or_else(|| Err(never_returned()));
    let _ = rx.recv_timeout(std::time::Duration::from_secs(20));
    drop(rx);
    *NEXT_RESPONSE.lock().unwrap() = None;
    NEXT_EC.store(0, std::sync::atomic::Ordering::Relaxed);
    match &r {
        Ok(v) => c.fail(&format!("numeric.capre.{}.{}.error_response_decoded", client, kind), format!("an answer with error code {} came back as {} elements", ec, v.len())),
        Err(e) if e.to_string().contains("WATCHDOG") => c.fail(&format!("numeric.capre.{}.{}.call_never_returned", client, kind), format!("an answer with error code {} never reached the caller", ec)),
        Err(_) => {}
    }
    (format!("{} {}", c.idx, if r.is_ok() { "ok" } else { "err" }), false)
}

/// The peer does not answer: the call must fail (it times out) — and the client stays usable, which the
/// `cap` ops that follow on the same client check.
fn op_capt(c: &mut Ctx, client: &str) -> (String, bool) {
    let net = c.net.expect("net started");
    let t = std::time::Duration::from_millis(120);
    let xs = [1.5f64, 2.5];
    let rx = net.captured.lock().unwrap();
    while rx.try_recv().is_ok() {}
    let sync = client == "sync";
    let r: Result<Vec<f64>, repe::RepeError> = guarded_call(move || {
        if sync { net.cap_sync.call_typed_slice_aligned_with_timeout("/!noanswer", &xs, t) } else { net.rt.block_on(net.cap_async.call_typed_slice_aligned_with_timeout("/!noanswer", &xs, t)) }
    })
    .unwrap_or_else(|| Err(never_returned()));
    if matches!(&r, Err(e) if e.to_string().contains("WATCHDOG")) {
        c.fail(&format!("numeric.capt.{}.call_never_returned", client), "a call with a 120 ms timeout against a silent peer did not return within the watchdog".into());
    }
    let _ = rx.recv_timeout(std::time::Duration::from_secs(20));
    drop(rx);
    if r.is_ok() {
        c.fail(&format!("numeric.capt.{}.answered", client), "a call the peer never answered returned Ok".into());
    }
    (format!("{} {}", c.idx, if r.is_ok() { "ok" } else { "err" }), false)
}

/// The request of a client helper, built by the buffered builder and written RAW to a real server in
/// pieces (byte by byte, or cut at the given offsets, optionally with a stall); the answer is read raw and
/// decoded by the independent layout reader.  What is served must not depend on how the bytes arrived.
/// One raw exchange with a real server: the request in pieces, optionally stalled; returns the observation
/// and the oracle failures (signature, detail).
#[allow(clippy::too_many_arguments)]
fn frag_exchange<T: Elem>(addr: &str, cuts: &str, kind: &str, route: &str, cls: u8, code: u8, plen: usize, n: usize, payload: &[u8]) -> (String, Vec<(String, String)>, bool) {
    use std::io::{Read, Write};
    let mut fails = Vec::new();
    let xs: Vec<T> = vec_of(payload);
    let path = net_path(route, cls, code, plen);
    let b = Message::builder().id(4242).query_str(&path).query_format(repe::constants::QueryFormat::JsonPointer);
    let frame = match kind {
        "bulk" => b.body_typed_slice(&xs).build(),
        "aligned" => b.body_aligned_typed_slice(&xs).build(),
        _ => b.body_beve(&xs).expect("serde encode").build(),
    }
    .to_vec();
    // suffix `s` = a 40 ms stall, `s<ms>` = a stall of that many milliseconds, at the middle cut
    let (spec, stall_ms): (&str, u64) = match cuts.find('s') {
        Some(i) => (&cuts[..i], cuts[i + 1..].parse().unwrap_or(40)),
        None => (cuts, 0),
    };
    let mut offs: Vec<usize> = if spec == "1" { (1..frame.len()).collect() } else { spec.split(',').filter_map(|x| x.parse().ok()).filter(|o| *o > 0 && *o < frame.len()).collect() };
    offs.sort();
    offs.dedup();
    let mut stream = match std::net::TcpStream::connect(addr) {
        Ok(s) => s,
        Err(_) => return ("no-connection".into(), vec![("numeric.frag.connect".into(), "cannot connect to the server".into())], false),
    };
    let _ = stream.set_nodelay(true);
    let _ = stream.set_read_timeout(Some(std::time::Duration::from_millis(stall_ms + 30_000)));
    let mut at = 0;
    for (i, o) in offs.iter().chain(std::iter::once(&frame.len())).enumerate() {
        if stream.write_all(&frame[at..*o]).is_err() || stream.flush().is_err() {
            break;
        }
        at = *o;
        if stall_ms > 0 && i == offs.len() / 2 {
            std::thread::sleep(std::time::Duration::from_millis(stall_ms));
        } else if offs.len() < 64 {
            std::thread::sleep(std::time::Duration::from_millis(1));
        }
    }
    let mut hdr = [0u8; 48];
    let tag = format!("numeric.frag.{}.{}", kind, route);
    let expect_served = !(kind == "aligned" && route != "ref") && route != "missing";
    if stream.read_exact(&mut hdr).is_err() {
        fails.push((format!("{}.no_answer", tag), format!("no answer to a request written in {} pieces (stall {} ms)", offs.len() + 1, stall_ms)));
        return ("no-answer".into(), fails, false);
    }
    let ql = u64::from_le_bytes(hdr[24..32].try_into().unwrap()) as usize;
    let bl = u64::from_le_bytes(hdr[32..40].try_into().unwrap()) as usize;
    let ec = u32::from_le_bytes(hdr[44..48].try_into().unwrap());
    let mut rest = vec![0u8; (ql + bl).min(1 << 28)];
    let _ = stream.read_exact(&mut rest);
    let body = &rest[ql.min(rest.len())..];
    let s = if ec != 0 {
        if expect_served {
            fails.push((format!("{}.failed", tag), format!("request in {} pieces (stall {} ms) answered with error code {}", offs.len() + 1, stall_ms, ec)));
        }
        format!("err Server({})", ec)
    } else {
        let got: Option<(usize, Vec<u8>)> = if body[..] == [0x05, 0x00] { Some((0, vec![])) } else { regular_layout(body, cls, code, T::W).map(|(d, k)| (k, body[d..d + k * T::W].to_vec())) };
        match got {
            Some((k, p)) => {
                if k != n || p != payload || !expect_served {
                    fails.push((format!("{}.elements_differ", tag), format!("request in {} pieces (stall {} ms): {} elements came back, bits equal: {}", offs.len() + 1, stall_ms, k, p == payload)));
                }
                format!("ok {}", show_elems(k, &p))
            }
            None => {
                fails.push((format!("{}.answer_malformed", tag), "the answer is not a typed array of the element type".into()));
                "ok ?".to_string()
            }
        }
    };
    (s, fails, ec == 0)
}

/// The request of a client helper, built by the buffered builder and written RAW to a real server in
/// pieces (byte by byte, or cut at the given offsets, optionally with a stall); the answer is read raw and
/// decoded by the independent layout reader.  What is served must not depend on how the bytes arrived.
#[allow(clippy::too_many_arguments)]
fn op_frag<T: Elem>(c: &mut Ctx, server: usize, cuts: &str, kind: &str, route: &str, cls: u8, code: u8, plen: usize, n: usize, payload: &[u8]) -> (String, bool) {
    let net = c.net.expect("net started");
    let (s, fails, ok) = frag_exchange::<T>(&net.addr[srv_ix(server)], cuts, kind, route, cls, code, plen, n, payload);
    for (sig, d) in fails {
        c.fail(&sig, d);
    }
    (format!("{} {}", c.idx, s), ok)
}

/// The same request on several connections at once, each stalled mid-frame for one of the given durations
/// (longer than any plausible internal timer): what is served does not depend on when the bytes arrive.
#[allow(clippy::too_many_arguments)]
fn op_stall<T: Elem>(c: &mut Ctx, server: usize, ms: &str, kind: &str, route: &str, cls: u8, code: u8, plen: usize, n: usize, payload: &[u8]) -> (String, bool) {
    let net = c.net.expect("net started");
    let addr = net.addr[srv_ix(server)].clone();
    let durations: Vec<String> = ms.split(',').map(|x| x.to_string()).collect();
    let frame_len = 48 + plen + n * T::W;
    let results: Vec<(String, Vec<(String, String)>, bool)> = std::thread::scope(|sc| {
        let hs: Vec<_> = durations
            .iter()
            .enumerate()
            .map(|(i, d)| {
                let addr = addr.clone();
                // the stall falls inside the header, inside the query, or inside the body
                let cuts = match i % 3 { 0 => format!("20,47s{}", d), 1 => format!("48,{}s{}", 48 + plen / 2 + 1, d), _ => format!("48,{},{}s{}", 48 + plen, (frame_len - 2).max(49 + plen), d) };
                sc.spawn(move || frag_exchange::<T>(&addr, &cuts, kind, route, cls, code, plen, n, payload))
            })
            .collect();
        hs.into_iter().map(|h| h.join().unwrap_or_else(|_| ("PANIC".into(), vec![("numeric.stall.panic".into(), "harness thread panicked".into())], false))).collect()
    });
    let mut obs = Vec::new();
    let mut any = false;
    for (s, fails, ok) in results {
        for (sig, d) in fails {
            c.fail(&sig.replace("numeric.frag.", "numeric.stall."), d);
        }
        any |= ok;
        obs.push(s);
    }
    (format!("{} {}", c.idx, obs.join(" | ")), any)
}

fn cap_path(plen: usize) -> String {
    if plen == 0 { String::new() } else { format!("/{}", "c".repeat(plen - 1)) }
}

/// The request frame a client helper really writes, captured byte for byte by a stand-in peer:
/// (1) it is the frame `Message::builder().id(..).query_str(..).query_format(JsonPointer).body_*(..)`
/// builds, (2) the aligned payload sits at a frame offset that is a multiple of the alignment,
/// (3) served by the real borrowing route from a buffer at base misalignments 0..7 it is borrowed
/// exactly at the aligned bases (aligned form) / always copied (regular, generic form).
#[allow(clippy::too_many_arguments)]
fn op_cap<T: Elem>(c: &mut Ctx, client: &str, kind: &str, cls: u8, code: u8, path: String, n: usize, payload: &[u8]) -> (String, bool) {
    let net = c.net.expect("net started");
    let xs: Vec<T> = vec_of(payload);
    let plen = path.len();
    let t = CALL_BOUND;
    let rx = net.captured.lock().unwrap();
    while rx.try_recv().is_ok() {}
    let r: Result<Vec<T>, repe::RepeError> = {
        let (client, kind, path, xs) = (client.to_string(), kind.to_string(), path.to_string(), xs.clone());
        // every call into the clients runs under the harness watchdog
        guarded_call(move || {
            let (client, kind, path, xs) = (client.as_str(), kind.as_str(), path.as_str(), &xs);
            let r: Result<Vec<T>, repe::RepeError> = match (client, kind) {
        ("sync", "bulk") => net.cap_sync.call_typed_slice_with_timeout(&path, &xs, t),
        ("sync", "aligned") => net.cap_sync.call_typed_slice_aligned_with_timeout(&path, &xs, t),
        ("sync", "serde") => net.cap_sync.call_typed_beve_with_timeout(&path, &xs, t),
        ("async", "bulk") => net.rt.block_on(net.cap_async.call_typed_slice_with_timeout(&path, &xs, t)),
        ("async", "aligned") => net.rt.block_on(net.cap_async.call_typed_slice_aligned_with_timeout(&path, &xs, t)),
        ("async", "serde") => net.rt.block_on(net.cap_async.call_typed_beve_with_timeout(&path, &xs, t)),
        // the entry points without a timeout (the capture peer always answers)
        ("syncp", "bulk") => net.cap_sync.call_typed_slice(&path, &xs),
        ("syncp", "aligned") => net.cap_sync.call_typed_slice_aligned(&path, &xs),
        ("syncp", "serde") => net.cap_sync.call_typed_beve(&path, &xs),
        ("asyncp", "bulk") => net.rt.block_on(net.cap_async.call_typed_slice(&path, &xs)),
        ("asyncp", "aligned") => net.rt.block_on(net.cap_async.call_typed_slice_aligned(&path, &xs)),
        ("asyncp", "serde") => net.rt.block_on(net.cap_async.call_typed_beve(&path, &xs)),
        _ => panic!("unknown client kind"),
            };
            r
        })
        .unwrap_or_else(|| Err(never_returned()))
    };
    let frame = match rx.recv_timeout(std::time::Duration::from_secs(20)) {
        Ok(f) => f,
        Err(_) => {
            c.fail(&format!("numeric.cap.{}.{}.no_frame", client, kind), "the client put no whole frame on the wire".into());
            return (format!("{} no-frame", c.idx), false);
        }
    };
    drop(rx);
    let tag = format!("{}.{}", client, kind);
    match &r {
        Ok(v) if kind == "aligned" && v.is_empty() => {}
        Ok(v) if kind != "aligned" && v.len() == n && bytes_of(v) == payload => {}
        Ok(_) => c.fail(&format!("numeric.cap.{}.echo_differs", tag), "the echoed response did not decode to the elements".into()),
        Err(e) if e.to_string().contains("WATCHDOG") => c.fail(&format!("numeric.cap.{}.call_never_returned", tag), format!("the call did not return within {} s although the peer answered", WATCHDOG.as_secs())),
        Err(e) => c.fail(&format!("numeric.cap.{}.call_failed", tag), format!("call failed: {}", cls_of(e))),
    }
    if frame.len() < 48 {
        return (format!("{} short-frame", c.idx), false);
    }
    let id = u64::from_le_bytes(frame[16..24].try_into().unwrap());
    // (1) byte equality with the buffered builder's frame for the same id / path / slice
    let b = Message::builder().id(id).query_str(&path).query_format(repe::constants::QueryFormat::JsonPointer);
    let built = match kind {
        "bulk" => b.body_typed_slice(&xs).build(),
        "aligned" => b.body_aligned_typed_slice(&xs).build(),
        _ => b.body_beve(&xs).expect("serde encode").build(),
    };
    if frame != built.to_vec() {
        let bf = built.to_vec();
        let at = frame.iter().zip(bf.iter()).position(|(a, b)| a != b).unwrap_or(frame.len().min(bf.len()));
        c.fail(&format!("numeric.cap.{}.frame_ne_builder", tag), format!("the frame on the wire ({} bytes) differs from the MessageBuilder frame ({} bytes) at byte {} (query {} bytes)", frame.len(), bf.len(), at, plen));
    }
    if kind != "serde" {
        let spec_body = indep_body(if kind == "aligned" { "aligned" } else { "regular" }, cls, code, T::W, n, payload, 48 + plen);
        if frame != RawFrame::request(id, false, 1, path.as_bytes(), 1, &spec_body).to_vec() {
            c.fail(&format!("numeric.cap.{}.frame_ne_spec", tag), format!("the frame on the wire differs from header + path + spec-layout body (path {} bytes)", plen));
        }
    }
    let align = std::mem::align_of::<T>();
    let body = &frame[(48 + plen).min(frame.len())..];
    // (2) payload offset within the frame
    if kind == "aligned" {
        match aligned_layout(body, cls, code, T::W) {
            Some((d, k)) => {
                if (48 + plen + d) % align != 0 {
                    c.fail(&format!("numeric.cap.{}.payload_not_aligned_in_frame", tag), format!("payload at frame offset {} (query {} bytes, align {})", 48 + plen + d, plen, align));
                }
                if k != n || body[d..d + k * T::W] != *payload {
                    c.fail(&format!("numeric.cap.{}.payload_bytes", tag), "DATA block differs from the elements".into());
                }
            }
            None => c.fail(&format!("numeric.cap.{}.layout", tag), "the body on the wire is not a well-formed aligned array of the element type".into()),
        }
    }
    // (3) the captured frame through the real borrowing route at every base misalignment
    let (h, seen) = ref_router::<T>(&path);
    let mut flags = String::new();
    for mis in 0..8usize {
        let placed = Placed::new(&frame, mis);
        let o = match MessageView::from_slice(placed.bytes()) {
            Ok(view) => run_handler(&h, &seen, &path, Some(&view), None),
            Err(_) => HOut::Odd("captured frame does not parse".into()),
        };
        match &o {
            HOut::Called { seen: (k, p), ptr, .. } => {
                let borrowed = placed.contains(*ptr);
                flags.push(if borrowed { 'b' } else { 'c' });
                if *k != n || p != payload {
                    c.fail(&format!("numeric.cap.{}.elements_differ", tag), format!("route saw {} elements at misalignment {}, bits equal: {}", k, mis, p == payload));
                }
                let expect = kind == "aligned" && mis % align == 0;
                if borrowed != expect {
                    c.fail(&format!("numeric.cap.{}.{}", tag, if expect { "aligned_buffer_but_copied" } else { "borrowed_unexpectedly" }),
                           format!("query {} bytes, receive-buffer misalignment {}, align {}: borrowed={}", plen, mis, align, borrowed));
                }
                if borrowed && ptr % align != 0 {
                    c.fail(&format!("numeric.cap.{}.borrowed_misaligned", tag), format!("borrowed slice at {:#x}", ptr));
                }
            }
            other => {
                flags.push('x');
                c.fail(&format!("numeric.cap.{}.not_served", tag), format!("captured request not served at misalignment {}: {}", mis, &show_hout(other, None)[..show_hout(other, None).len().min(60)]));
            }
        }
    }
    // the request id is the client's counter: printed apart, zeroed in the frame
    let mut shown = frame.clone();
    shown[16..24].copy_from_slice(&[0u8; 8]);
    (format!("{} {} {}", c.idx, hex(&shown), flags), true)
}

// ------------------------------------------------------------------------------------------
fn exec(out: &mut Out, line: &str, net: Option<&'static Net>) {
    let w = words(line);
    let idx = w.get(1).copied().unwrap_or("?");
    // panics are caught per op; only the socket ops (which can hang the process) leave a marker file
    if matches!(w[0], "net" | "cap" | "capq" | "capr" | "caprf" | "capre" | "capt" | "frag" | "stall") {
        out.begin(line);
    }
    let mut c = Ctx { out: &mut *out, line, idx, net };
    let u = |s: &str| -> usize { s.parse().expect("number in op line") };
    let ty = |a: &str, b: &str| -> (u8, u8) { (a.parse().unwrap(), b.parse().unwrap()) };
    let r = catch(|| match w[0] {
        "enc" | "cenc" => {
            let (cls, code) = ty(w[2], w[3]);
            let p = unhex(w[5]).unwrap();
            let cx = w[0] == "cenc";
            dispatch!(cls, code, op_enc(&mut c, cx, u(w[4]), &p))
        }
        "genc" | "gcenc" => {
            let (cls, code) = ty(w[2], w[3]);
            let p = unhex(w[5]).unwrap();
            let cx = w[0] == "gcenc";
            dispatch!(cls, code, op_genc(&mut c, cx, u(w[4]), &p))
        }
        "dec" | "cdec" => {
            let (cls, code) = ty(w[2], w[3]);
            let b = unhex(w[5]).unwrap();
            let cx = w[0] == "cdec";
            dispatch!(cls, code, op_dec(&mut c, cx, u(w[4]) as u16, &b))
        }
        "gdec" | "gcdec" => {
            let (cls, code) = ty(w[2], w[3]);
            let b = unhex(w[4]).unwrap();
            let cx = w[0] == "gcdec";
            dispatch!(cls, code, op_gdec(&mut c, cx, &b))
        }
        "aenc" => {
            let (cls, code) = ty(w[2], w[3]);
            let p = unhex(w[6]).unwrap();
            dispatch!(cls, code, op_aenc(&mut c, cls, code, u(w[4]), u(w[5]), &p))
        }
        "adec" => {
            let (cls, code) = ty(w[2], w[3]);
            let b = unhex(w[5]).unwrap();
            dispatch!(cls, code, op_adec(&mut c, u(w[4]), &b))
        }
        "aref" => {
            let (cls, code) = ty(w[2], w[3]);
            let p = unhex(w[9]).unwrap();
            dispatch!(cls, code, op_aref(&mut c, cls, code, u(w[4]), u(w[5]), w[6] == "1", u(w[7]) as u8, u(w[8]), &p))
        }
        "ref" => {
            let (cls, code) = ty(w[2], w[3]);
            let b = unhex(w[7]).unwrap();
            dispatch!(cls, code, op_ref(&mut c, cls, code, u(w[4]) as u16, u(w[5]), u(w[6]), &b))
        }
        "slice" => {
            let (cls, code) = ty(w[2], w[3]);
            let b = unhex(w[6]).unwrap();
            dispatch!(cls, code, op_slice(&mut c, u(w[4]) as u16, u(w[5]), &b))
        }
        "wrong" => {
            let (cls, code) = ty(w[2], w[3]);
            let (c2, k2) = ty(w[4], w[5]);
            let p = unhex(w[8]).unwrap();
            let form = w[6];
            let body = dispatch!(c2, k2, encode_as(form, &p));
            dispatch!(cls, code, op_wrong(&mut c, &body, form))
        }
        "form" => {
            let (cls, code) = ty(w[2], w[3]);
            let p = unhex(w[6]).unwrap();
            let form = w[4];
            let body = dispatch!(cls, code, encode_as(form, &p));
            dispatch!(cls, code, op_form(&mut c, &body, form))
        }
        "wrongfmt" => {
            let (cls, code) = ty(w[2], w[3]);
            let p = unhex(w[6]).unwrap();
            let body = dispatch!(cls, code, encode_as("regular", &p));
            dispatch!(cls, code, op_wrongfmt(&mut c, u(w[4]) as u16, &body))
        }
        "stream" | "cstream" => {
            let (cls, code) = ty(w[2], w[3]);
            let q = unhex(w[8]).unwrap();
            let p = unhex(w[10]).unwrap();
            let cx = w[0] == "cstream";
            dispatch!(cls, code, op_stream(&mut c, cx, w[4].parse().unwrap(), w[5] == "1", w[6].parse().unwrap(), w[7].parse().unwrap(), &q, u(w[9]), &p))
        }
        "seq" => {
            let (cls, code) = ty(w[2], w[3]);
            let p1 = unhex(w[9]).unwrap();
            let p2 = unhex(w[10]).unwrap();
            dispatch!(cls, code, op_seq(&mut c, w[4], w[5], w[6] == "1", u(w[7]), u(w[8]), &p1, &p2))
        }
        "cap" => {
            let (cls, code) = ty(w[4], w[5]);
            let p = unhex(w[8]).unwrap();
            dispatch!(cls, code, op_cap(&mut c, w[2], w[3], cls, code, cap_path(u(w[6])), u(w[7]), &p))
        }
        "capq" => {
            let (cls, code) = ty(w[4], w[5]);
            let p = unhex(w[8]).unwrap();
            let path = String::from_utf8(unhex(w[6]).unwrap()).expect("capq path is UTF-8");
            dispatch!(cls, code, op_cap(&mut c, w[2], w[3], cls, code, path, u(w[7]), &p))
        }
        "capr" => {
            let (cls, code) = ty(w[4], w[5]);
            let (c2, k2) = ty(w[6], w[7]);
            let p2 = unhex(w[9]).unwrap();
            let resp = dispatch!(c2, k2, encode_as("regular", &p2));
            dispatch!(cls, code, op_capr(&mut c, w[2], w[3], (cls, code) == (c2, k2), 1, resp, u(w[8]), &p2))
        }
        "caprf" => {
            // the peer answers with an array of the right element type under another body format
            let (cls, code) = ty(w[4], w[5]);
            let p2 = unhex(w[8]).unwrap();
            let resp = dispatch!(cls, code, encode_as("regular", &p2));
            dispatch!(cls, code, op_capr(&mut c, w[2], w[3], true, u(w[6]) as u16, resp, u(w[7]), &p2))
        }
        "capt" => op_capt(&mut c, w[2]),
        "stall" => {
            let (cls, code) = ty(w[6], w[7]);
            let p = unhex(w[10]).unwrap();
            dispatch!(cls, code, op_stall(&mut c, u(w[2]), w[3], w[4], w[5], cls, code, u(w[8]), u(w[9]), &p))
        }
        "capre" => op_capre(&mut c, w[2], w[3], u(w[4]) as u32),
        "frag" => {
            let (cls, code) = ty(w[6], w[7]);
            let p = unhex(w[10]).unwrap();
            dispatch!(cls, code, op_frag(&mut c, u(w[2]), w[3], w[4], w[5], cls, code, u(w[8]), u(w[9]), &p))
        }
        "abld" => {
            let (cls, code) = ty(w[2], w[3]);
            let q = unhex(w[6]).unwrap();
            let p = unhex(w[8]).unwrap();
            dispatch!(cls, code, op_abld(&mut c, cls, code, u(w[4]), u(w[5]) as u8, &q, u(w[7]), &p))
        }
        "hseq" => {
            let (cls, code) = ty(w[4], w[5]);
            let q = unhex(w[6]).unwrap();
            let k = u(w[7]);
            let mut steps = Vec::new();
            for i in 0..k {
                let o = 8 + 4 * i;
                steps.push((w[o].to_string(), u(w[o + 1]) as u16, u(w[o + 2]), unhex(w[o + 3]).unwrap()));
            }
            dispatch!(cls, code, op_hseq(&mut c, w[2], w[3] == "1", cls, code, &q, &steps))
        }
        "net" => {
            let (cls, code) = ty(w[6], w[7]);
            let p = unhex(w[10]).unwrap();
            dispatch!(cls, code, op_net(&mut c, u(w[2]), w[3], w[4], w[5], cls, code, u(w[8]), u(w[9]), &p))
        }
        other => {
            eprintln!("unknown op {}", other);
            std::process::exit(3)
        }
    });
    let (obs, nt) = match r {
        Ok(x) => x,
        Err(msg) => {
            // a panic of the code under test outside the decoders (builders, writers, clients)
            let ops = vec![line.to_string()];
            let short: String = msg.chars().take(160).collect();
            out.oracle_fail(&format!("numeric.{}.panic", w[0]), &format!("the operation panicked: {}", short), &ops);
            (format!("{} PANIC", idx), false)
        }
    };
    out.count(&format!("op.{}", w[0]));
    out.case(line, &obs, nt);
}

// ------------------------------------------------------------------------------------------
// generator
// ------------------------------------------------------------------------------------------
/// One element of type (cls, code) as a bit pattern: boundary values of the type, NaN payloads
/// (quiet and signalling, both signs), infinities, zeros, subnormals, or random bits.
fn gen_bits(r: &mut Rng, cls: u8, code: u8, w: usize) -> u64 {
    let bits = (w * 8) as u32;
    let mask: u64 = if bits == 64 { u64::MAX } else { (1u64 << bits) - 1 };
    if cls == 0 {
        // (exponent bits, mantissa bits)
        let (e, m) = match code { 0 => (8u32, 7u32), 1 => (5, 10), 2 => (8, 23), _ => (11, 52) };
        let exp_all: u64 = ((1u64 << e) - 1) << m;
        let sign: u64 = 1u64 << (e + m);
        let mant_mask: u64 = (1u64 << m) - 1;
        let quiet: u64 = 1u64 << (m - 1);
        let s = if r.chance(1, 2) { sign } else { 0 };
        return match r.below(12) {
            0 => s,                                            // ±0
            1 => s | exp_all,                                  // ±inf
            2 => s | exp_all | quiet,                          // canonical quiet NaN
            3 => s | exp_all | quiet | (r.next() & mant_mask), // quiet NaN with payload
            4 => s | exp_all | ((r.next() & (quiet - 1)).max(1)), // signalling NaN with payload
            5 => s | exp_all | 1,                              // smallest signalling NaN
            6 => s | (exp_all - (1u64 << m)) | mant_mask,      // ±max finite
            7 => s | 1,                                        // smallest subnormal
            8 => s | mant_mask,                                // largest subnormal
            9 => s | (1u64 << m),                              // min normal
            _ => r.next() & mask,
        };
    }
    match r.below(8) {
        0 => 0,
        1 => 1,
        2 => mask,                 // -1 / MAX
        3 => 1u64 << (bits - 1),   // MIN (signed) / 2^(bits-1)
        4 => mask >> 1,            // MAX (signed)
        5 => mask - 1,
        _ => r.next() & mask,
    }
}

fn gen_payload(r: &mut Rng, cls: u8, code: u8, w: usize, n: usize, scalars_per_elem: usize) -> Vec<u8> {
    let mut out = Vec::with_capacity(n * w * scalars_per_elem);
    // large vectors: mostly random bits with specials sprinkled in
    for i in 0..n * scalars_per_elem {
        if w == 16 {
            // 128-bit integers: boundary patterns across both halves
            let (lo, hi) = match r.below(7) {
                0 => (0, 0),
                1 => (u64::MAX, u64::MAX),
                2 => (0, 1u64 << 63),
                3 => (u64::MAX, u64::MAX >> 1),
                4 => (1, 0),
                _ => (r.next(), r.next()),
            };
            out.extend_from_slice(&lo.to_le_bytes());
            out.extend_from_slice(&hi.to_le_bytes());
            continue;
        }
        let v = if n > 256 && i % 17 != 0 { r.next() } else { gen_bits(r, cls, code, w) };
        out.extend_from_slice(&v.to_le_bytes()[..w]);
    }
    out
}

macro_rules! push {
    ($g:expr, $op:expr, $($fmt:tt)*) => {{
        let s = format!($($fmt)*);
        $g.push($op, s);
    }};
}

struct Gen {
    r: Rng,
    ops: Vec<String>,
    i: u64,
}
impl Gen {
    fn idx(&mut self) -> u64 {
        self.i += 1;
        self.i
    }
    fn push(&mut self, op: &str, rest: String) {
        let i = self.idx();
        self.ops.push(format!("{} {} {}", op, i, rest));
    }
}

/// The generator feeds the decoders with bodies made by the real encoders; an encoder that panics
/// yields an empty body here and is reported by the op that exercises it (`enc`, `aenc`, …).
fn guarded(f: impl FnOnce() -> Vec<u8>) -> Vec<u8> {
    catch(f).unwrap_or_default()
}
fn real_typed_body(cls: u8, code: u8, payload: &[u8]) -> Vec<u8> {
    guarded(|| dispatch!(cls, code, encode_as("regular", payload)))
}
fn real_complex_body(cls: u8, code: u8, payload: &[u8]) -> Vec<u8> {
    guarded(|| dispatch!(cls, code, encode_as("complex", payload)))
}
fn real_generic<T: Elem>(complex: bool, payload: &[u8]) -> Vec<u8> {
    guarded(|| {
        if complex {
            T::complex_serde_body(&cvec_of::<T>(payload)).body
        } else {
            Message::builder().body_beve(&vec_of::<T>(payload)).unwrap().build().body
        }
    })
}
fn real_aligned<T: Elem>(qlen: usize, payload: &[u8]) -> Vec<u8> {
    guarded(|| Message::builder().query_bytes(path_of(qlen).into_bytes()).body_aligned_typed_slice(&vec_of::<T>(payload)).build().body)
}

/// enc + genc + cross decoding (both decoders on both bodies) for one vector.
fn gen_vector(g: &mut Gen, cls: u8, code: u8, w: usize, n: usize, complex: bool) {
    let sp = if complex { 2 } else { 1 };
    let p = gen_payload(&mut g.r, cls, code, w, n, sp);
    let (e, ge, d, gd) = if complex { ("cenc", "gcenc", "cdec", "gcdec") } else { ("enc", "genc", "dec", "gcdec") };
    let gd = if complex { gd } else { "gdec" };
    push!(g, e, "{} {} {} {}", cls, code, n, hex(&p));
    push!(g, ge, "{} {} {} {}", cls, code, n, hex(&p));
    let bulk = if complex { real_complex_body(cls, code, &p) } else { real_typed_body(cls, code, &p) };
    let generic = dispatch!(cls, code, real_generic(complex, &p));
    push!(g, d, "{} {} 1 {}", cls, code, hex(&bulk));
    push!(g, d, "{} {} 1 {}", cls, code, hex(&generic));
    push!(g, gd, "{} {} {}", cls, code, hex(&bulk));
    push!(g, gd, "{} {} {}", cls, code, hex(&generic));
}

fn corrupt(r: &mut Rng, body: &[u8]) -> Vec<u8> {
    let mut b = body.to_vec();
    match r.below(9) {
        0 if !b.is_empty() => {
            let k = r.below(b.len() as u64) as usize;
            b.truncate(k);
        }
        1 if !b.is_empty() => b[0] = r.next() as u8,
        2 if b.len() > 1 => b[1] = r.next() as u8,
        3 if b.len() > 2 => b[2] = r.next() as u8,
        4 if b.len() > 3 => {
            let k = r.below(b.len().min(12) as u64) as usize;
            b[k] ^= 1 << r.below(8);
        }
        5 => {
            let k = 1 + r.below(9) as usize;
            b.extend_from_slice(&r.bytes(k));
        }
        6 if b.len() > 2 => {
            // a huge 8-byte SIZE
            let at = if b[0] == 0x5C || b[0] == 0x1E { 2 } else { 1 };
            let mut sz = vec![0xFFu8; 8];
            sz[7] = r.next() as u8;
            b.splice(at..at + 1, sz);
        }
        7 if !b.is_empty() => {
            let k = r.below(b.len() as u64) as usize;
            b.remove(k);
        }
        _ => {
            let k = r.below(b.len() as u64 + 1) as usize;
            b.insert(k, r.next() as u8);
        }
    }
    b
}

/// Body-format codes that are not Beve (1): neighbours, other reserved codes, and every 16-bit "looks
/// like 1" class — 1 with each higher bit / nibble / byte set, 1 + 256, byte-swapped, sign bit, all ones.
const NOT_BEVE: [u16; 30] = [
    0, 2, 3, 4, 5, 255, 256, 257, 0x0101, 0x0100, 0x0011, 0x0081, 0x0201, 0x0401, 0x0801, 0x0FFF, 0x1000, 0x1001, 0x2001,
    0x4001, 0x8001, 0xF001, 0xFF01, 0x7FFF, 0x8000, 0xFFFE, 0xFFFF, 999, 4096 + 2, 0x0003,
];

fn generate(seed: u64, thorough: bool) -> Vec<String> {
    let mut g = Gen { r: Rng::new(seed), ops: Vec::new(), i: 0 };

    // ---- 1. vectors: encoders, three-way comparison, cross decoding -------------------------
    let small_max = if thorough { 130 } else { 70 };
    for (cls, code, w) in TYPES {
        for n in 0..=small_max {
            gen_vector(&mut g, cls, code, w, n, false);
        }
        for n in 0..=(if thorough { 70 } else { 12 }) {
            gen_vector(&mut g, cls, code, w, n, true);
        }
        let big: Vec<usize> = if thorough { vec![] } else { vec![127, 128, 255, 256, 1023, 1024, 4095, 4096] };
        for _ in 0..(if thorough { 0 } else { 3 }) {
            let n = *g.r.pick(&big);
            gen_vector(&mut g, cls, code, w, n, false);
            let n = g.r.range(71, 4096) as usize;
            let cx = g.r.chance(1, 4);
            gen_vector(&mut g, cls, code, w, n, cx);
        }
    }
    if thorough {
        // every length 0..4096, element type rotating with a random phase
        let phase = g.r.below(14) as usize;
        for n in 0..=4096usize {
            let (cls, code, w) = TYPES[(n + phase) % 12];
            gen_vector(&mut g, cls, code, w, n, false);
            if n % 16 == 0 {
                let (cls, code, w) = *g.r.pick(&TYPES);
                gen_vector(&mut g, cls, code, w, n, true);
            }
        }
    }
    // SIZE width boundary 2^14 (2-byte -> 4-byte form)
    for n in [16383usize, 16384, 16385] {
        for (cls, code, w) in [(2u8, 0u8, 1usize), (1, 1, 2), (0, 3, 8)] {
            if !thorough && w == 8 && n != 16384 {
                continue;
            }
            gen_vector(&mut g, cls, code, w, n, false);
        }
        gen_vector(&mut g, 2, 0, 1, n, true);
    }
    if thorough {
        // one 2^20 (u8: the line stays at 2 MiB of hex)
        let n = 1usize << 20;
        let p = gen_payload(&mut g.r, 2, 0, 1, n, 1);
        push!(g, "enc", "2 0 {} {}", n, hex(&p));
        let bulk = real_typed_body(2, 0, &p);
        push!(g, "dec", "2 0 1 {}", hex(&bulk));
    }

    // ---- 2. aligned form: every query length, every type, SIZE widths 1 and 2 ----------------
    for (cls, code, w) in TYPES {
        for qlen in 0..=64usize {
            let ns: Vec<usize> = if thorough {
                vec![0, g.r.range(1, 63) as usize, g.r.range(64, 200) as usize]
            } else if qlen % 4 == 0 {
                vec![0, g.r.range(1, 63) as usize, g.r.range(64, 90) as usize]
            } else {
                vec![if g.r.chance(1, 3) { g.r.range(64, 90) } else { g.r.range(0, 63) } as usize]
            };
            for n in ns {
                let p = gen_payload(&mut g.r, cls, code, w, n, 1);
                push!(g, "aenc", "{} {} {} {} {}", cls, code, qlen, n, hex(&p));
                // the frame at receive-buffer misalignments 0..7
                let top = if w == 16 { 16 } else { 8 };
                let miss: Vec<usize> = if thorough || qlen % 8 == (cls as usize * 4 + code as usize) % 8 { (0..top).collect() } else { vec![g.r.below(top as u64) as usize, 0] };
                for mis in miss {
                    let wire = g.r.below(2);
                    push!(g, "aref", "{} {} {} {} 0 {} {} {}", cls, code, mis, qlen, wire, n, hex(&p));
                }
                if g.r.chance(1, 4) {
                    // query set after the body: padded for the wrong offset, must still be served (copied)
                    let mis = g.r.below(8);
                    push!(g, "aref", "{} {} {} {} 1 {} {} {}", cls, code, mis, qlen, g.r.below(2), n, hex(&p));
                }
                if g.r.chance(1, 3) {
                    let body = dispatch!(cls, code, real_aligned(qlen, &p));
                    push!(g, "adec", "{} {} {} {}", cls, code, g.r.below(8), hex(&body));
                }
            }
        }
        // 4-byte SIZE in the aligned form
        if w <= 2 || thorough {
            let n = 16384 + g.r.below(3) as usize;
            let p = gen_payload(&mut g.r, cls, code, w, n, 1);
            let qlen = g.r.below(65);
            push!(g, "aenc", "{} {} {} {} {}", cls, code, qlen, n, hex(&p));
            push!(g, "aref", "{} {} {} {} 0 0 {} {}", cls, code, g.r.below(8), qlen, n, hex(&p));
        }
    }

    // ---- 3. routes on arbitrary bodies: regular, generic, aligned-for-another-base, malformed ----
    let rounds = if thorough { 40 } else { 6 };
    for (cls, code, w) in TYPES {
        for round in 0..rounds {
            let n = if round == 0 { 0 } else { g.r.range(0, 70) as usize };
            let p = gen_payload(&mut g.r, cls, code, w, n, 1);
            let qlen = g.r.below(65) as usize;
            let mis = g.r.below(8);
            let regular = real_typed_body(cls, code, &p);
            let generic = dispatch!(cls, code, real_generic(false, &p));
            let other_q = g.r.below(65) as usize;
            let aligned = dispatch!(cls, code, real_aligned(other_q, &p));
            push!(g, "ref", "{} {} 1 {} {} {}", cls, code, mis, qlen, hex(&regular));
            push!(g, "slice", "{} {} 1 {} {}", cls, code, qlen, hex(&regular));
            push!(g, "ref", "{} {} 1 {} {} {}", cls, code, mis, qlen, hex(&generic));
            push!(g, "slice", "{} {} 1 {} {}", cls, code, qlen, hex(&generic));
            push!(g, "ref", "{} {} 1 {} {} {}", cls, code, mis, qlen, hex(&aligned));
            push!(g, "slice", "{} {} 1 {} {}", cls, code, qlen, hex(&aligned));
            // malformed
            for _ in 0..3 {
                let src = match g.r.below(3) { 0 => &regular, 1 => &aligned, _ => &generic };
                let bad = corrupt(&mut g.r, src);
                let fmt = if g.r.chance(1, 8) { *g.r.pick(&NOT_BEVE) } else { 1 };
                push!(g, "ref", "{} {} {} {} {} {}", cls, code, fmt, g.r.below(8), qlen, hex(&bad));
                push!(g, "slice", "{} {} {} {} {}", cls, code, fmt, qlen, hex(&bad));
                push!(g, "dec", "{} {} {} {}", cls, code, fmt, hex(&bad));
                if src.first() == Some(&0x5C) {
                    push!(g, "adec", "{} {} {} {}", cls, code, g.r.below(8), hex(&bad));
                }
            }
            let cp = gen_payload(&mut g.r, cls, code, w, n.min(20), 2);
            let cbody = real_complex_body(cls, code, &cp);
            let bad = corrupt(&mut g.r, &cbody);
            push!(g, "cdec", "{} {} 1 {}", cls, code, hex(&bad));
        }
    }
    // every first byte on both routes: the marker dispatch cannot misroute (f64 and u16, small vector)
    for (cls, code, w) in [(0u8, 3u8, 8usize), (2, 1, 2)] {
        let p = gen_payload(&mut g.r, cls, code, w, 3, 1);
        let regular = real_typed_body(cls, code, &p);
        let aligned = dispatch!(cls, code, real_aligned(5, &p));
        if regular.len() < 4 || aligned.len() < 4 {
            continue;
        }
        for b0 in 0..=255u8 {
            for src in [&regular, &aligned] {
                let mut b = src.clone();
                b[0] = b0;
                push!(g, "ref", "{} {} 1 {} 5 {}", cls, code, g.r.below(8), hex(&b));
                push!(g, "slice", "{} {} 1 5 {}", cls, code, hex(&b));
            }
        }
        // every padding-length byte, every numeric header byte in the aligned form
        for v in 0..=255u8 {
            let mut b = aligned.clone();
            b[3] = v;
            push!(g, "ref", "{} {} 1 {} 5 {}", cls, code, g.r.below(8), hex(&b));
            push!(g, "adec", "{} {} {} {}", cls, code, g.r.below(8), hex(&b));
            let mut b = aligned.clone();
            b[1] = v;
            push!(g, "ref", "{} {} 1 {} 5 {}", cls, code, g.r.below(8), hex(&b));
        }
    }

    // generic (untyped) arrays that are not the empty vector: counts whose compressed SIZE has a zero
    // first-byte value (64, 128, 16384, 2^30), a non-canonical zero, trailing bytes after `05 00`
    for (cls, code, _) in [(0u8, 3u8, 8usize), (2, 0, 1), (1, 2, 4)] {
        for body in [&[0x05u8, 0x01, 0x01][..], &[0x05, 0x01, 0x02], &[0x05, 0x02, 0x00, 0x01, 0x00], &[0x05, 0x03, 0, 0, 0, 1, 0, 0, 0],
                     &[0x05, 0x01, 0x00], &[0x05, 0x00, 0x00], &[0x05, 0x04, 0x61], &[0x05]] {
            let mut b = body.to_vec();
            let extra = g.r.below(40) as usize;
            b.extend_from_slice(&g.r.bytes(extra));
            for bb in [body.to_vec(), b] {
                push!(g, "dec", "{} {} 1 {}", cls, code, hex(&bb));
                push!(g, "cdec", "{} {} 1 {}", cls, code, hex(&bb));
                push!(g, "slice", "{} {} 1 3 {}", cls, code, hex(&bb));
                push!(g, "ref", "{} {} 1 {} 3 {}", cls, code, g.r.below(8), hex(&bb));
            }
        }
    }

    // ---- 4. wrong element type / wrong format ----------------------------------------------------
    for (cls, code, _) in TYPES {
        for (c2, k2, w2) in TYPES {
            if (cls, code) == (c2, k2) {
                continue;
            }
            for form in ["regular", "aligned", "complex"] {
                let n = if g.r.chance(1, 3) { 0 } else { g.r.range(1, 9) as usize };
                let sp = if form == "complex" { 2 } else { 1 };
                let p = gen_payload(&mut g.r, c2, k2, w2, n, sp);
                push!(g, "wrong", "{} {} {} {} {} {} {}", cls, code, c2, k2, form, n, hex(&p));
            }
        }
    }
    // the decoder's own element type in each wire form (regular / aligned / complex are distinct types)
    for (cls, code, w) in TYPES {
        for form in ["regular", "aligned", "complex"] {
            for n in [0usize, g.r.range(1, 9) as usize] {
                let sp = if form == "complex" { 2 } else { 1 };
                let p = gen_payload(&mut g.r, cls, code, w, n, sp);
                push!(g, "form", "{} {} {} {} {}", cls, code, form, n, hex(&p));
            }
        }
    }
    // every SIZE form on the decoding side: a count written in each width that can hold it (canonical
    // or not), and counts at the width boundaries 2^6, 2^14, 2^30, 2^62 declared over a short payload
    for (cls, code, w) in [(2u8, 0u8, 1usize), (0, 3, 8), (1, 4, 16), (0, 0, 2)] {
        let tag = (code << 5) | (cls << 3) | 4;
        let size_form = |n: u64, form: usize| -> Vec<u8> {
            let extra = [0usize, 1, 3, 7][form];
            let mut v = vec![(((n & 0x3f) as u8) << 2) | form as u8];
            v.extend_from_slice(&(n >> 6).to_le_bytes()[..extra]);
            v
        };
        let mut counts: Vec<u64> = vec![0, 1, 2, 63, 64, 65, 255, 256];
        for e in [6u32, 14, 30, 62] {
            for d in [-1i64, 0, 1] {
                counts.push(((1u64 << e) as i64 + d) as u64);
            }
        }
        counts.push(u64::MAX >> 2);
        for n in counts {
            for form in 0..4usize {
                let cap = [6u32, 14, 30, 62][form];
                if n >> cap != 0 {
                    continue;
                }
                let have = (n as usize).min(300);
                let p = gen_payload(&mut g.r, cls, code, w, have, 1);
                let mut regular = vec![tag];
                regular.extend_from_slice(&size_form(n, form));
                regular.extend_from_slice(&p);
                let mut aligned = vec![0x5C, tag];
                aligned.extend_from_slice(&size_form(n, form));
                let pad = g.r.below(w as u64) as u8;
                aligned.push(pad);
                aligned.extend(std::iter::repeat(0u8).take(pad as usize));
                aligned.extend_from_slice(&p);
                let mut complex = vec![0x1E, (code << 5) | (cls << 3) | 1];
                complex.extend_from_slice(&size_form(n, form));
                complex.extend_from_slice(&gen_payload(&mut g.r, cls, code, w, have.min(40), 2));
                push!(g, "dec", "{} {} 1 {}", cls, code, hex(&regular));
                push!(g, "slice", "{} {} 1 2 {}", cls, code, hex(&regular));
                push!(g, "ref", "{} {} 1 {} 2 {}", cls, code, g.r.below(16), hex(&aligned));
                push!(g, "adec", "{} {} {} {}", cls, code, g.r.below(16), hex(&aligned));
                push!(g, "cdec", "{} {} 1 {}", cls, code, hex(&complex));
            }
        }
    }
    for (cls, code, w) in TYPES {
        for fmt in NOT_BEVE {
            let n = g.r.below(6) as usize;
            let p = gen_payload(&mut g.r, cls, code, w, n, 1);
            push!(g, "wrongfmt", "{} {} {} {} {}", cls, code, fmt, n, hex(&p));
        }
    }

    // ---- 5. streaming writers vs buffered builders ---------------------------------------------------
    let rounds = if thorough { 30 } else { 5 };
    for (cls, code, w) in TYPES {
        for round in 0..rounds {
            let complex = round % 3 == 2;
            let n = match round { 0 => 0, 1 | 2 => g.r.range(64, 80), _ => g.r.boundary(if thorough { 12 } else { 9 }) } as usize;
            let p = gen_payload(&mut g.r, cls, code, w, n, if complex { 2 } else { 1 });
            let qlen = if round == 0 { 0 } else { g.r.below(65) as usize };
            let q = g.r.bytes(qlen);
            let ec = *g.r.pick(&[0u32, 0, 4, 5, 4096]);
            push!(g, if complex { "cstream" } else { "stream" }, "{} {} {} {} {} {} {} {} {}", cls, code, g.r.boundary(64), g.r.below(2), ec, *g.r.pick(&[0u16, 1, 1, 7, 65535]), hex(&q), n, hex(&p));
        }
    }
    if thorough {
        let n = 16384usize;
        let p = gen_payload(&mut g.r, 0, 3, 8, n, 1);
        push!(g, "stream", "0 3 1 0 0 1 {} {} {}", hex(b"/big"), n, hex(&p));
    }
    // every query length 0..64 (element type rotating), each run also into the short-write sinks
    let phase = g.r.below(14) as usize;
    for qlen in 0..=64usize {
        let (cls, code, w) = TYPES[(qlen + phase) % 14];
        let complex = qlen % 5 == 4;
        let n = g.r.below(6) as usize;
        let p = gen_payload(&mut g.r, cls, code, w, n, if complex { 2 } else { 1 });
        let q = g.r.bytes(qlen);
        push!(g, if complex { "cstream" } else { "stream" }, "{} {} {} {} 0 1 {} {} {}", cls, code, g.r.boundary(64), g.r.below(2), hex(&q), n, hex(&p));
    }

    // ---- 6. real servers, bulk / aligned / serde clients -------------------------------------------------
    let mut combos = Vec::new();
    for server in 0..2usize {
        for client in ["sync", "async"] {
            for kind in ["bulk", "aligned", "serde"] {
                for route in ["slice", "ref", "typed"] {
                    if kind == "aligned" && route == "typed" {
                        continue; // how serde reads an aligned array is the dependency's business; not modelled
                    }
                    for (cls, code, w) in TYPES {
                        combos.push((server, client, kind, route, cls, code, w));
                    }
                }
            }
        }
    }
    g.r.shuffle(&mut combos);
    let take = if thorough { combos.len() } else { 160 };
    // the empty vector through every (client kind, route) pair, always
    for kind in ["bulk", "aligned", "serde"] {
        for route in ["slice", "ref", "typed"] {
            if kind == "aligned" && route == "typed" {
                continue;
            }
            let (cls, code, _) = *g.r.pick(&TYPES);
            let server = g.r.below(2);
            let client = *g.r.pick(&["sync", "async"]);
            push!(g, "net", "{} {} {} {} {} {} {} 0 -", server, client, kind, route, cls, code, *g.r.pick(&PLENS[1..]));
        }
    }
    for (server, client, kind, route, cls, code, w) in combos.into_iter().take(take) {
        let n = match g.r.below(6) { 0 => 0, 1 => g.r.range(64, 300), 2 => g.r.range(1000, 5000), _ => g.r.range(1, 63) } as usize;
        let p = gen_payload(&mut g.r, cls, code, w, n, 1);
        let plen = *g.r.pick(&PLENS[1..]);
        push!(g, "net", "{} {} {} {} {} {} {} {} {}", server, client, kind, route, cls, code, plen, n, hex(&p));
    }
    // large vectors (> 64 KiB, > 1 MiB) from the bulk and serde helpers to every route
    for route in ["slice", "ref", "typed"] {
        for kind in ["bulk", "serde"] {
            let (cls, code, w) = *g.r.pick(&[(0u8, 3u8, 8usize), (2, 0, 1), (1, 4, 16)]);
            let n = if thorough && kind == "bulk" { (1 << 20) / w + 3 } else { (1 << 16) / w + 1 + g.r.below(100) as usize };
            let p = gen_payload(&mut g.r, cls, code, w, n, 1);
            push!(g, "net", "{} {} {} {} {} {} {} {} {}", g.r.below(2), *g.r.pick(&["sync", "async"]), kind, route, cls, code, *g.r.pick(&PLENS[1..]), n, hex(&p));
        }
    }
    // the WebSocket client's serde helper against the three routes on the WebSocket server
    for route in ["slice", "ref", "typed"] {
        for round in 0..(if thorough { 20 } else { 4 }) {
            let (cls, code, w) = *g.r.pick(&TYPES);
            let n = if round == 0 { 0 } else { g.r.range(1, 300) as usize };
            let p = gen_payload(&mut g.r, cls, code, w, n, 1);
            push!(g, "net", "2 ws serde {} {} {} {} {} {}", route, cls, code, *g.r.pick(&PLENS[1..]), n, hex(&p));
        }
    }
    // the shortest path and a body spanning many TCP segments, borrowing route
    for server in 0..2 {
        let n = if thorough { 200_000 } else { 40_000 };
        let p = gen_payload(&mut g.r, 0, 3, 8, n, 1);
        push!(g, "net", "{} async aligned ref 0 3 1 {} {}", server, n, hex(&p));
        push!(g, "net", "{} sync aligned ref 0 3 1 3 {}", server, hex(&p[..24]));
    }

    // ---- 6b. builder sequences: every ordered pair of body setters, query before / after ----------------
    const SETTERS: [&str; 7] = ["bytes", "utf8", "json", "beve", "typed", "complex", "aligned"];
    for round in 0..(if thorough { 12 } else { 2 }) {
        let (cls, code, w) = if round == 0 { (0u8, 3u8, 8usize) } else { *g.r.pick(&TYPES) };
        for s1 in SETTERS {
            for s2 in SETTERS {
                for qafter in [0, 1] {
                    // a long earlier body (capacity to spare) then a short one, and the reverse
                    let long_first = (round + qafter) % 2 == 0 || s1 == "bytes";
                    let (k1, k2) = if long_first { (g.r.range(20, 60), g.r.range(0, 3)) } else { (g.r.range(0, 3), g.r.range(4, 30)) };
                    let p1 = gen_payload(&mut g.r, cls, code, w, k1 as usize, 2);
                    let p2 = gen_payload(&mut g.r, cls, code, w, k2 as usize, 2);
                    let qlen = g.r.below(20);
                    let cap = if g.r.chance(1, 2) { 4096 } else { p1.len() + 48 + qlen as usize + g.r.below(64) as usize };
                    push!(g, "seq", "{} {} {} {} {} {} {} {} {}", cls, code, s1, s2, qafter, qlen, cap, hex(&p1), hex(&p2));
                }
            }
        }
    }

    // ---- 6c. sequences through ONE route handler; user closure echoing / other result type / Err / panics ----
    let queries = |r: &mut Rng| -> Vec<u8> {
        match r.below(7) {
            0 => vec![],
            1 => b"/".to_vec(),
            2 => "/\u{e9}\u{65e5}\u{672c}\u{1f600}".as_bytes().to_vec(),
            3 => { let k = 1 + r.below(16) as usize; r.bytes(k) } // not UTF-8
            4 => { let k = *r.pick(&[63usize, 64, 65, 255, 256, 300]); r.bytes(k) }
            _ => { let k = r.below(40) as usize; path_of(k).into_bytes() }
        }
    };
    for round in 0..(if thorough { 160 } else { 36 }) {
        let (cls, code, w) = TYPES[round % 14];
        let kind = if round % 3 == 0 { "slice" } else { "ref" };
        let wrap = round % 5 == 4;
        let q = queries(&mut g.r);
        let k = g.r.range(3, 6) as usize;
        let mut line = format!("{} {} {} {} {} {}", kind, wrap as u8, cls, code, hex(&q), k);
        for step in 0..k {
            let big = round % 9 == 8 && step == 1;
            let n = if big { 66000 / w + 9 } else { g.r.below(12) as usize };
            let p = gen_payload(&mut g.r, cls, code, w, n, 1);
            let (c2, k2, w2) = TYPES[(round + 1 + step) % 14];
            let body = match g.r.below(if kind == "ref" { 9 } else { 6 }) {
                0 | 1 => real_typed_body(cls, code, &p),
                2 => dispatch!(cls, code, real_generic(false, &p[..0])),
                3 => real_typed_body(c2, k2, &gen_payload(&mut g.r, c2, k2, w2, 2, 1)),
                4 => { let b = real_typed_body(cls, code, &p); corrupt(&mut g.r, &b) }
                5 => real_typed_body(cls, code, &p),
                6 => dispatch!(cls, code, real_aligned(q.len() + 1 + g.r.below(7) as usize, &p)),
                _ => dispatch!(cls, code, real_aligned(q.len(), &p)),
            };
            let fmt = if g.r.chance(1, 9) { *g.r.pick(&NOT_BEVE) } else { 1 };
            let hk = *g.r.pick(&["same", "same", "slow", "bytes", "err", "err", "panics", "panicstr", "panicint"]);
            let mis = if g.r.chance(1, 2) { 0 } else { g.r.below(16) };
            line.push_str(&format!(" {} {} {} {}", hk, fmt, mis, hex(&body)));
        }
        g.push("hseq", line);
    }
    // bodies just over 64 KiB and over 1 MiB on every route kind, bare and behind a middleware (view path)
    for (i, (cls, code, w)) in [(2u8, 0u8, 1usize), (0, 3, 8), (1, 4, 16), (0, 1, 2)].into_iter().enumerate() {
        for kind in ["slice", "ref"] {
            for wrap in [0, 1] {
                let n = if i == 0 && thorough { (1 << 20) + 5 } else { (1 << 16) / w + 1 + g.r.below(50) as usize };
                let p = gen_payload(&mut g.r, cls, code, w, n, 1);
                let q = path_of(g.r.below(20) as usize).into_bytes();
                let regular = real_typed_body(cls, code, &p);
                let mut line = format!("{} {} {} {} {} 2 same 1 {} {}", kind, wrap, cls, code, hex(&q), g.r.below(16), hex(&regular));
                let second = if kind == "ref" { dispatch!(cls, code, real_aligned(q.len(), &p)) } else { regular.clone() };
                line.push_str(&format!(" bytes 1 0 {}", hex(&second)));
                g.push("hseq", line);
            }
        }
    }
    // ---- 6d. the aligned builder behind arbitrary query bytes: not UTF-8, long ------------------------------
    let mut qlens: Vec<usize> = vec![0, 1, 63, 64, 65, 66, 71, 100, 127, 128, 129, 255, 256, 257, 1000, 4097];
    if thorough {
        qlens.extend_from_slice(&[65535, 65536, 100_001]);
    }
    for (i, ql) in qlens.iter().enumerate() {
        for (cls, code, w) in [TYPES[i % 14], TYPES[(i * 5 + 3) % 14], (0, 3, 8)] {
            let n = g.r.below(70) as usize;
            let p = gen_payload(&mut g.r, cls, code, w, n, 1);
            let q = g.r.bytes(*ql);
            for mis in [0usize, g.r.range(1, 15) as usize] {
                push!(g, "abld", "{} {} {} {} {} {} {}", cls, code, mis, g.r.below(2), hex(&q), n, hex(&p));
            }
        }
    }

    // ---- 6e. sizes around internal constants (8 KiB buffered reader / writer, 64 KiB, 128 KiB, 1 MiB) on every
    //          entry point: payload bytes just below / at / just above, typed and complex
    let mut targets: Vec<usize> = vec![8191, 8192, 8193, 8192 - 48 - 9, 65535, 65536, 65537, 131071, 131073];
    if thorough {
        targets.extend_from_slice(&[8192 - 48, 16384, 32768 + 1, 196609, 1048575, 1048576, 1048577, 2097153]);
    } else {
        targets.push(*g.r.pick(&[1048575usize, 1048577]));
    }
    for (i, bytes) in targets.iter().enumerate() {
        let (cls, code, w) = [(2u8, 0u8, 1usize), (0, 3, 8), (1, 1, 2), (0, 2, 4), (2, 4, 16)][(i + g.r.below(5) as usize) % 5];
        // element counts whose byte size straddles the target
        let n = bytes / w + if bytes % w == 0 { 0 } else { 1 };
        let n = if g.r.chance(1, 2) && n > 1 && bytes % w == 0 { n } else { n + (i % 2) };
        let p = gen_payload(&mut g.r, cls, code, w, n, 1);
        let plen = *g.r.pick(&PLENS[1..]);
        let q = path_of(g.r.below(20) as usize).into_bytes();
        push!(g, "enc", "{} {} {} {}", cls, code, n, hex(&p));
        push!(g, "stream", "{} {} {} 0 0 1 {} {} {}", cls, code, g.r.boundary(64), hex(&q), n, hex(&p));
        let cn = bytes / (2 * w) + 1;
        let cp = gen_payload(&mut g.r, cls, code, w, cn, 2);
        push!(g, "cstream", "{} {} {} 1 0 1 {} {} {}", cls, code, g.r.boundary(64), hex(&q), cn, hex(&cp));
        push!(g, "cenc", "{} {} {} {}", cls, code, cn, hex(&cp));
        let regular = real_typed_body(cls, code, &p);
        let aligned = dispatch!(cls, code, real_aligned(q.len(), &p));
        push!(g, "dec", "{} {} 1 {}", cls, code, hex(&regular));
        push!(g, "cdec", "{} {} 1 {}", cls, code, hex(&real_complex_body(cls, code, &cp)));
        // both dispatch paths of both routes
        push!(g, "slice", "{} {} 1 {} {}", cls, code, q.len(), hex(&regular));
        push!(g, "ref", "{} {} 1 {} {} {}", cls, code, g.r.below(16), q.len(), hex(&regular));
        push!(g, "ref", "{} {} 1 0 {} {}", cls, code, q.len(), hex(&aligned));
        push!(g, "aref", "{} {} 0 {} 0 1 {} {}", cls, code, q.len(), n, hex(&p));
        push!(g, "seq", "{} {} bytes typed 0 {} {} {} {}", cls, code, q.len(), bytes + 200, hex(&p[..(p.len() / (2 * w)) * 2 * w]), hex(&p[..(p.len() / (2 * w)) * 2 * w]));
        if i % 2 == 0 || thorough {
            push!(g, "net", "{} {} bulk slice {} {} {} {} {}", *g.r.pick(&[0, 1, 3]), *g.r.pick(&["sync", "async"]), cls, code, plen, n, hex(&p));
            push!(g, "net", "{} {} aligned ref {} {} {} {} {}", *g.r.pick(&[0, 1, 3]), *g.r.pick(&["sync", "async"]), cls, code, plen, n, hex(&p));
            push!(g, "cap", "{} aligned {} {} {} {} {}", *g.r.pick(&["sync", "async", "syncp", "asyncp"]), cls, code, g.r.below(17), n, hex(&p));
        } else {
            push!(g, "net", "{} {} serde typed {} {} {} {} {}", *g.r.pick(&[0, 1, 3]), *g.r.pick(&["sync", "async"]), cls, code, plen, n, hex(&p));
            push!(g, "net", "{} {} bulk ref {} {} {} {} {}", *g.r.pick(&[0, 1, 3]), *g.r.pick(&["sync", "async"]), cls, code, plen, n, hex(&p));
        }
    }

    // ---- 6f. N identical events in a row on one route handler, then an ordinary request --------------------
    let mut runs: Vec<usize> = vec![1, 2, 7, 8, 9, 16, 17, 64, 65];
    if thorough {
        runs.extend_from_slice(&[256, 257, 1000]);
    }
    for (i, run) in runs.iter().enumerate() {
        for event in ["wrongtype", "wrongfmt", "corrupt", "err", "panics", "unaligned", "empty"] {
            if !thorough && *run > 17 && (i + event.len()) % 3 != 0 {
                continue;
            }
            let (cls, code, w) = TYPES[(i * 3 + event.len()) % 14];
            let (c2, k2, w2) = TYPES[(i * 3 + event.len() + 5) % 14];
            let kind = if event == "unaligned" || i % 2 == 0 { "ref" } else { "slice" };
            let q = path_of(g.r.below(16) as usize).into_bytes();
            let p = gen_payload(&mut g.r, cls, code, w, 3, 1);
            let good_regular = real_typed_body(cls, code, &p);
            let good_aligned = dispatch!(cls, code, real_aligned(q.len(), &p));
            let (hk, fmt, mis, body): (&str, u16, usize, Vec<u8>) = match event {
                "wrongtype" => ("same", 1, 0, real_typed_body(c2, k2, &gen_payload(&mut g.r, c2, k2, w2, 2, 1))),
                "wrongfmt" => ("same", *g.r.pick(&NOT_BEVE), 0, good_regular.clone()),
                "corrupt" => ("same", 1, 0, good_regular[..good_regular.len() - 1].to_vec()),
                "err" => ("err", 1, 0, good_regular.clone()),
                "panics" => ("panics", 1, 0, good_regular.clone()),
                "unaligned" => ("same", 1, if w > 1 { 1 } else { 0 }, good_aligned.clone()),
                _ => ("same", 1, 0, real_typed_body(cls, code, &[])),
            };
            let mut line = format!("{} 0 {} {} {} {}", kind, cls, code, hex(&q), run + 2);
            for _ in 0..*run {
                line.push_str(&format!(" {} {} {} {}", hk, fmt, mis, hex(&body)));
            }
            // then: the borrowing route still borrows an aligned request, the bulk route still serves
            if kind == "ref" {
                line.push_str(&format!(" same 1 0 {}", hex(&good_aligned)));
            } else {
                line.push_str(&format!(" same 1 0 {}", hex(&good_regular)));
            }
            line.push_str(&format!(" bytes 1 {} {}", g.r.below(16), hex(&good_regular)));
            g.push("hseq", line);
        }
    }
    // N calls in a row that time out / are answered with another element type, then ordinary calls (section 7)
    for (i, fmt) in NOT_BEVE.iter().enumerate() {
        let (cls, code, w) = TYPES[i % 14];
        let n = g.r.below(4) as usize;
        let p = gen_payload(&mut g.r, cls, code, w, n, 1);
        push!(g, "caprf", "{} {} {} {} {} {} {}", *g.r.pick(&["sync", "syncp", "async", "asyncp"]), *g.r.pick(&["bulk", "aligned"]), cls, code, fmt, n, hex(&p));
    }
    push!(g, "caprf", "sync bulk 0 3 1 1 000000000000f03f");
    for (client, runlen) in [("sync", 2usize), ("async", 3)] {
        for _ in 0..(if thorough { runlen + 6 } else { runlen }) {
            push!(g, "capt", "{}", client);
        }
        for _ in 0..(if thorough { 17 } else { 9 }) {
            push!(g, "capr", "{} aligned 0 3 2 1 2 01000200", client);
        }
        push!(g, "cap", "{} aligned 0 3 3 2 000000000000f03f000000000000f0ff", client);
    }

    // ---- 6g. the request written raw to the real servers in pieces ----------------------------------------
    for round in 0..(if thorough { 120 } else { 24 }) {
        let (cls, code, w) = TYPES[round % 14];
        let (kind, route) = [("aligned", "ref"), ("bulk", "slice"), ("serde", "slice"), ("bulk", "typed"), ("aligned", "ref"), ("bulk", "ref")][round % 6];
        let one_byte = round % 8 == 7;
        let n = if one_byte { g.r.below(5) as usize } else if round % 5 == 0 { 9000 / w } else { g.r.below(80) as usize };
        let p = gen_payload(&mut g.r, cls, code, w, n, 1);
        let plen = *g.r.pick(&PLENS[1..]);
        let total = 48 + plen + n * w + 12;
        let cuts = if one_byte {
            "1".to_string()
        } else {
            let mut v = vec![g.r.range(1, 47), *g.r.pick(&[47u64, 48, 49]), 48 + g.r.below(plen as u64 + 1), 48 + plen as u64 + g.r.below(6)];
            if round % 3 == 0 {
                v.push(g.r.range(48, total as u64));
                v.push(*g.r.pick(&[8192u64, 8191, 8193]));
            }
            let t: Vec<String> = v.iter().take(2 + round % 5).map(|x| x.to_string()).collect();
            format!("{}{}", t.join(","), if round % 4 == 1 { "s" } else { "" })
        };
        push!(g, "frag", "{} {} {} {} {} {} {} {} {}", *g.r.pick(&[0, 1, 3]), cuts, kind, route, cls, code, plen, n, hex(&p));
    }
    // answers that arrive in pieces / byte by byte with a stall
    for client in ["sync", "asyncp"] {
        for (path, n) in [("/!frag/x", 40usize), ("/!frag1", 3), ("/!frag/big", 1200)] {
            let p = gen_payload(&mut g.r, 0, 3, 8, n, 1);
            push!(g, "capq", "{} bulk 0 3 {} {} {}", client, hex(path.as_bytes()), n, hex(&p));
        }
    }

    // ---- 6h. stalls longer than plausible internal timers, mid-frame, three connections at once ------------
    let stalls = if thorough { vec!["300,600,1100", "2500,5500,11000"] } else { vec!["300,600,1100"] };
    for ms in stalls {
        for server in [0usize, 1, 3] {
            let (cls, code, w) = *g.r.pick(&TYPES);
            let (kind, route) = *g.r.pick(&[("aligned", "ref"), ("bulk", "slice"), ("serde", "typed")]);
            let n = g.r.range(1, 40) as usize;
            let p = gen_payload(&mut g.r, cls, code, w, n, 1);
            push!(g, "stall", "{} {} {} {} {} {} {} {} {}", server, ms, kind, route, cls, code, *g.r.pick(&PLENS[1..]), n, hex(&p));
        }
    }
    // answers that stall mid-frame (the clients' timeout is 15 s)
    for (client, ms) in [("sync", 300), ("async", 600), ("syncp", 1100), ("asyncp", 300)] {
        if !thorough && ms > 600 && client == "syncp" && g.r.chance(1, 2) {
            continue;
        }
        let p = gen_payload(&mut g.r, 0, 3, 8, 5, 1);
        push!(g, "capq", "{} bulk 0 3 {} 5 {}", client, hex(format!("/!stall{}", ms).as_bytes()), hex(&p));
    }
    // ---- 6i. error answers (every error code) over a decodable body; unknown path ---------------------------
    for ec in [1u32, 2, 3, 4, 5, 6, 7, 8, 9, 4096, 4097, 65535, u32::MAX] {
        for client in ["sync", "syncp", "async", "asyncp"] {
            for kind in ["bulk", "aligned"] {
                push!(g, "capre", "{} {} {}", client, kind, ec);
            }
        }
    }
    // every entry point: an empty and a non-empty answer of the right element type to a non-empty request
    for client in ["sync", "syncp", "async", "asyncp"] {
        for kind in ["bulk", "aligned"] {
            let (cls, code, w) = *g.r.pick(&TYPES);
            let p = gen_payload(&mut g.r, cls, code, w, 3, 1);
            push!(g, "capr", "{} {} {} {} {} {} 0 -", client, kind, cls, code, cls, code);
            push!(g, "capr", "{} {} {} {} {} {} 3 {}", client, kind, cls, code, cls, code, hex(&p));
        }
    }
    for (i, kind) in ["bulk", "aligned", "serde"].into_iter().enumerate() {
        let (cls, code, w) = TYPES[(i * 5) % 14];
        let p = gen_payload(&mut g.r, cls, code, w, 3, 1);
        push!(g, "net", "{} {} {} missing {} {} {} 3 {}", [0, 1, 3][i], ["sync", "async", "sync"][i], kind, cls, code, 8 + g.r.below(8), hex(&p));
    }
    // every error code a route closure can answer with, then an ordinary request on the same handler
    {
        let (cls, code, w) = *g.r.pick(&TYPES);
        let p = gen_payload(&mut g.r, cls, code, w, 2, 1);
        let body = real_typed_body(cls, code, &p);
        let codes = [1u32, 2, 3, 4, 5, 6, 7, 8, 9, 4096];
        for kind in ["ref", "slice"] {
            let mut line = format!("{} 0 {} {} {} {}", kind, cls, code, hex(b"/h"), codes.len() + 1);
            for ec in codes {
                line.push_str(&format!(" err{} 1 0 {}", ec, hex(&body)));
            }
            line.push_str(&format!(" same 1 0 {}", hex(&body)));
            g.push("hseq", line);
        }
    }

    // ---- 7. the frames the client helpers really write (capture peer) ------------------------------------
    // aligned calls: every element type x every path length 0..16 (all residues mod 8 and 16) x both
    // clients; longer paths and the bulk / serde helpers sampled
    // a call the peer never answers times out; the cap ops below go on with the same two clients
    push!(g, "capt", "sync");
    push!(g, "capt", "async");
    // paths that are not ASCII (byte length ≠ character count) and long ones
    for client in ["sync", "syncp", "async", "asyncp"] {
        for path in ["/\u{e9}", "/\u{65e5}\u{672c}\u{8a9e}/\u{30c7}\u{30fc}\u{30bf}", "/\u{1f600}x", "/a\u{300}\u{301}bc", &format!("/{}", "\u{fc}".repeat(40)), &format!("/{}", "long".repeat(300))] {
            let (cls, code, w) = *g.r.pick(&TYPES);
            let n = g.r.below(70) as usize;
            let p = gen_payload(&mut g.r, cls, code, w, n, 1);
            push!(g, "capq", "{} aligned {} {} {} {} {}", client, cls, code, hex(path.as_bytes()), n, hex(&p));
            if g.r.chance(1, 3) {
                push!(g, "capq", "{} {} {} {} {} {} {}", client, if g.r.chance(1, 2) { "bulk" } else { "serde" }, cls, code, hex(path.as_bytes()), n, hex(&p));
            }
        }
    }
    // the peer answers with an array of another (or the same) element type, empty and non-empty
    for round in 0..(if thorough { 400 } else { 60 }) {
        let (cls, code, _) = TYPES[round % 14];
        let (c2, k2, w2) = if round % 4 == 0 { TYPES[round % 14] } else { *g.r.pick(&TYPES) };
        let n2 = if round % 2 == 0 { 0 } else { g.r.range(1, 9) as usize };
        let p2 = gen_payload(&mut g.r, c2, k2, w2, n2, 1);
        let client = *g.r.pick(&["sync", "syncp", "async", "asyncp"]);
        let kind = *g.r.pick(&["bulk", "aligned"]);
        push!(g, "capr", "{} {} {} {} {} {} {} {}", client, kind, cls, code, c2, k2, n2, hex(&p2));
    }
    for client in ["sync", "async"] {
        if client == "async" {
            push!(g, "capt", "sync");
            push!(g, "capt", "async");
        }
        for (cls, code, w) in TYPES {
            let mut plens: Vec<usize> = (0..=16).collect();
            for _ in 0..(if thorough { 12 } else { 2 }) {
                plens.push(g.r.range(17, 64) as usize);
            }
            for plen in plens {
                let n = match g.r.below(5) { 0 => 0, 1 => g.r.range(64, 90), _ => g.r.range(1, 63) } as usize;
                let p = gen_payload(&mut g.r, cls, code, w, n, 1);
                push!(g, "cap", "{} aligned {} {} {} {} {}", client, cls, code, plen, n, hex(&p));
                if thorough || plen % 4 == (code as usize) % 4 {
                    // the entry point without a timeout
                    push!(g, "cap", "{}p aligned {} {} {} {} {}", client, cls, code, plen, n, hex(&p));
                    let kind = if plen % 8 < 4 { "bulk" } else { "serde" };
                    push!(g, "cap", "{}p {} {} {} {} {} {}", client, kind, cls, code, plen, n, hex(&p));
                }
                if thorough || plen % 6 == (cls as usize + code as usize) % 6 {
                    let kind = if plen % 2 == 0 { "bulk" } else { "serde" };
                    let n = if g.r.chance(1, 6) { 0 } else { n };
                    let p = gen_payload(&mut g.r, cls, code, w, n, 1);
                    push!(g, "cap", "{} {} {} {} {} {} {}", client, kind, cls, code, plen, n, hex(&p));
                }
            }
        }
    }
    g.ops
}

fn main() {
    let args = Args::parse();
    quiet_panics();
    let mut out = Out::new(&args.out);
    out.rule = "element types bf16,f16,f32,f64,i8..i64,u8..u64 as raw little-endian blocks (NaN payloads quiet/signalling, ±inf, ±0, subnormals, min/max, random bits); vectors of every length 0..70 (thorough: 0..4096) plus 127..4096 boundaries, 2^14±1 and (thorough) one 2^20; complex pairs; three-way comparison bulk body / serde body / model, both decoders on both bodies incl. the empty vector; aligned form behind every query length 0..64 for every type and SIZE width, the frame copied to every base misalignment 0..7 of a Vec<u64> and served by the with_typed_slice_ref handler (pointer-range test: borrowed iff payload address aligned); regular / generic / aligned-for-another-offset / corrupted bodies and every first byte through both bulk routes (view and owned); every ordered pair of distinct element types in regular, aligned and complex form; wrong body formats; streaming writers (typed, complex and write_message_streaming itself; Vec sink and write-only / gathering sinks taking 1..1000 bytes per call, limits around the header end and the query end, every query length 0..64) vs buffered builders; real Server and AsyncServer with bulk, aligned and serde clients (blocking and async); two body setters in a row on one builder for every ordered pair of setters (bytes with spare capacity, utf8, json, beve, typed, complex, aligned; query before / after): the last setter wins; 3..5 requests through one route handler instance (bare / behind a middleware; closure echoing, answering another element type, returning Err, panicking with String / &str / non-string payloads; bodies > 64 KiB; arbitrary query bytes), each step judged from the raw bytes by an independent layout reader; aligned builder behind non-UTF-8 and long (≤ 100 k) queries; client calls answered with arrays of another element type, calls that time out followed by further calls on the same client, non-ASCII and long paths; payload sizes just below / at / above 8 KiB, 64 KiB, 128 KiB, 1 MiB on every entry point (typed and complex, streaming writers included); runs of 1..65 (thorough 1000) identical bad events through one handler followed by an ordinary request, runs of timed-out / wrongly answered calls on one client; requests written raw to the real servers byte by byte / at cut points around 48 and the query end with stalls, answers arriving in pieces; sinks reporting Interrupted; 30 non-Beve format codes incl. every 16-bit look-alike of 1; a third server with read/write timeouts and nodelay, a starved runtime on odd seeds; three connections at once stalled mid-frame for 300 / 600 / 1100 ms (thorough 2.5 / 5.5 / 11 s), answers stalled mid-frame; answers carrying every error code over a decodable body; every io::ErrorKind from a failing sink; every error code from a route closure; unknown paths; every call into the clients under a 20 s watchdog; the raw request frame every client helper writes, captured by a stand-in peer for every element type and path length 0..16 (+ longer), compared with the MessageBuilder frame and served by the borrowing route at base misalignments 0..7. Distinct by op line; non-trivial = the decoder / route / call accepted and returned elements (encoders: non-empty vector)".into();
    if std::env::args().any(|a| a == "--check-entry-points") {
        let missing = entry_point_audit(&mut out);
        println!("entry points of the anchored files not driven by the numeric family: {:?}", missing);
        std::process::exit(if missing.is_empty() { 0 } else { 1 });
    }
    let missing = entry_point_audit(&mut out);
    if !missing.is_empty() {
        eprintln!("numeric: public entry points NOT DRIVEN (add to DRIVEN / NOT_DRIVEN_BECAUSE): {:?}", missing);
    }
    let ops = match args.replay_ops() {
        Some(o) => o,
        // `--release-shape` (the optimised-build run of the thorough tier): the quick-sized mix, other seed
        None if args.has("--release-shape") => generate(args.seed.wrapping_add(0x5EED), false),
        None => generate(args.seed, args.thorough()),
    };
    SEED.store(args.seed, std::sync::atomic::Ordering::Relaxed);
    let need_net = ops.iter().any(|l| l.starts_with("net ") || l.starts_with("cap") || l.starts_with("frag ") || l.starts_with("stall "));
    let net: Option<&'static Net> = if need_net { Some(Box::leak(Box::new(start_net()))) } else { None };
    for line in &ops {
        if line.trim().is_empty() {
            continue;
        }
        exec(&mut out, line, net);
        if EXPIRIES.load(std::sync::atomic::Ordering::Relaxed) >= 3 && args.replay.is_none() {
            out.count("stopped_after_3_calls_that_never_returned");
            break;
        }
        if out.oracle_failures >= 12 && args.replay.is_none() {
            // a broken tree: the first dozen failing inputs are enough, do not run the rest
            out.count("stopped_after_12_oracle_failures");
            break;
        }
    }
    out.finish();
    std::process::exit(0); // servers run on detached threads
}
