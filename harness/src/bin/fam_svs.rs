//! Family `svs` (C09): value streams pulled from the real blocking `Server` and `WebSocketServer` with
//! every producer kind (value, typed array, complex array, reader, writer).
//!
//! `raw` ops speak `/_svs/open|next|cancel` directly (independent frame codec, own BEVE bodies) and
//! record `(len, last, fnv)` per pull; `hl` ops run the crate's own pullers (`pull_to_vec`, `pull_value`,
//! `pull_typed_slice`, `pull_complex_slice`, their async forms over `AsyncClient` and
//! `WebSocketClient`).  The op line carries what the body wrote into the sink (for zstd: the compressed
//! stream as *recorded* from the implementation), the model predicts the chunking and every response.
//! Direct oracles: concatenation = producer's bytes (after zstd decoding: the logical bytes), exactly one
//! `last` and it is final, empty payload = one empty final chunk, errors after end / release / failure,
//! a failing or vanishing producer never yields `last`.
use futures_util::{SinkExt, StreamExt};
use repe::value_stream::{Compression, RouterValueStreamExt, StreamOpts};
use repe::{BodyFormat, Complex, Router};
use repe_verif_harness::frames::RawFrame;
use repe_verif_harness::*;
use serde::ser::{Error as _, SerializeSeq};
use serde::{Deserialize, Serialize};
use std::collections::HashMap;
use std::io::{self, Read, Write};
use std::net::SocketAddr;
use std::sync::atomic::{AtomicU64, Ordering};
use std::sync::{Arc, Mutex, OnceLock};
use std::time::{Duration, Instant};

const WATCHDOG: Duration = Duration::from_secs(15);
const NONE: usize = usize::MAX;
/// every `io::ErrorKind` a producer body can fail with (stable variants)
const ERR_KINDS: [io::ErrorKind; 20] = [
    io::ErrorKind::Other, io::ErrorKind::NotFound, io::ErrorKind::PermissionDenied, io::ErrorKind::ConnectionRefused,
    io::ErrorKind::ConnectionReset, io::ErrorKind::ConnectionAborted, io::ErrorKind::NotConnected, io::ErrorKind::AddrInUse,
    io::ErrorKind::AddrNotAvailable, io::ErrorKind::BrokenPipe, io::ErrorKind::AlreadyExists, io::ErrorKind::WouldBlock,
    io::ErrorKind::InvalidInput, io::ErrorKind::InvalidData, io::ErrorKind::TimedOut, io::ErrorKind::WriteZero,
    io::ErrorKind::Interrupted, io::ErrorKind::Unsupported, io::ErrorKind::UnexpectedEof, io::ErrorKind::OutOfMemory,
];
const MAX_SERVERS: usize = 5000;
const MAX_POOLED_CONNS: usize = 256;

// ------------------------------------------------------------------------------------------
// wire bodies (own definitions; field names are the wire contract)
// ------------------------------------------------------------------------------------------
#[derive(Serialize, Deserialize)]
struct OpenRequest {
    resource: String,
}
#[derive(Serialize, Deserialize, Debug)]
struct OpenResponse {
    version: u8,
    stream_id: u64,
    format: u16,
    compression: u8,
}
#[derive(Serialize, Deserialize)]
struct NextRequest {
    stream_id: u64,
}
#[derive(Serialize, Deserialize)]
struct CancelRequest {
    stream_id: u64,
    reason: String,
}

// ------------------------------------------------------------------------------------------
// producer specifications, looked up by resource key inside the registered producers
// ------------------------------------------------------------------------------------------
#[derive(Clone, Copy, Debug, PartialEq)]
enum End {
    Ok,
    Err,
    Vanish,
}
impl End {
    fn tok(self) -> &'static str {
        match self {
            End::Ok => "ok",
            End::Err => "err",
            End::Vanish => "vanish",
        }
    }
    fn parse(s: &str) -> Option<End> {
        Some(match s {
            "ok" => End::Ok,
            "err" => End::Err,
            "vanish" => End::Vanish,
            _ => return None,
        })
    }
}

#[derive(Clone, Debug, PartialEq)]
enum Ev {
    W(usize),
    F,
}

#[derive(Serialize, Deserialize, Clone, Debug, PartialEq)]
struct Rec {
    id: u64,
    label: String,
    samples: Vec<f64>,
    tags: Vec<String>,
}

#[derive(Clone, Debug, PartialEq)]
enum ValueCase {
    Unit,
    Str(String),
    Rec(Rec),
    /// a sequence whose serialisation fails after `n` elements
    FailSeq(usize),
    /// … or panics after `n` elements
    PanicSeq(usize),
}
impl Serialize for ValueCase {
    fn serialize<S: serde::Serializer>(&self, s: S) -> Result<S::Ok, S::Error> {
        match self {
            ValueCase::Unit => s.serialize_unit(),
            ValueCase::Str(x) => s.serialize_str(x),
            ValueCase::Rec(r) => r.serialize(s),
            ValueCase::FailSeq(n) => {
                let mut seq = s.serialize_seq(Some(*n + 1))?;
                for i in 0..*n {
                    seq.serialize_element(&(i as u64))?;
                }
                Err(S::Error::custom("injected serialisation failure"))
            }
            ValueCase::PanicSeq(n) => {
                let mut seq = s.serialize_seq(Some(*n + 1))?;
                for i in 0..*n {
                    seq.serialize_element(&(i as u64))?;
                }
                producer_panic(*n)
            }
        }
    }
}

#[derive(Clone)]
struct Spec {
    /// reader/writer: the bytes the body has available; value kinds: unused
    data: Arc<Vec<u8>>,
    evs: Vec<Ev>,
    piece: usize,
    interrupt_every: usize,
    fail_at: usize,
    end: End,
    slow_us: u64,
    /// index into `ERR_KINDS` of the error an `End::Err` producer fails with
    err_kind: usize,
    /// writer: wait on the gate before event `k` (the harness opens it)
    gate: Option<(usize, Arc<Gate>)>,
    /// writer: sleep `ms` once before event `k`
    pause: Option<(usize, u64)>,
    value: Option<ValueCase>,
    typed_u8: Option<Arc<Vec<u8>>>,
    typed_f64: Option<Arc<Vec<f64>>>,
    complex: Option<Arc<Vec<Complex<f32>>>>,
}

/// A one-shot gate a scripted producer parks on until the harness opens it (or 60 s pass).
struct Gate {
    open: Mutex<bool>,
    cv: std::sync::Condvar,
}
impl Gate {
    fn new() -> Arc<Gate> {
        Arc::new(Gate { open: Mutex::new(false), cv: std::sync::Condvar::new() })
    }
    fn wait(&self) {
        let g = self.open.lock().unwrap();
        let _ = self.cv.wait_timeout_while(g, Duration::from_secs(60), |o| !*o);
    }
    fn release(&self) {
        *self.open.lock().unwrap() = true;
        self.cv.notify_all();
    }
}

fn specs() -> &'static Mutex<HashMap<String, Spec>> {
    static S: OnceLock<Mutex<HashMap<String, Spec>>> = OnceLock::new();
    S.get_or_init(|| Mutex::new(HashMap::new()))
}
fn spec_of(resource: &str) -> Option<Spec> {
    specs().lock().unwrap().get(resource).cloned()
}

struct ScriptedReader {
    spec: Spec,
    pos: usize,
    calls: usize,
}
impl Read for ScriptedReader {
    fn read(&mut self, out: &mut [u8]) -> io::Result<usize> {
        self.calls += 1;
        if self.spec.slow_us > 0 {
            std::thread::sleep(Duration::from_micros(self.spec.slow_us));
        }
        if self.spec.interrupt_every > 0 && self.calls % self.spec.interrupt_every == 0 {
            return Err(io::Error::new(io::ErrorKind::Interrupted, "interrupted"));
        }
        let limit = self.spec.data.len().min(self.spec.fail_at);
        if self.pos >= limit {
            if self.spec.fail_at != NONE && self.pos >= self.spec.fail_at {
                match self.spec.end {
                    End::Err => return Err(io::Error::new(ERR_KINDS[self.spec.err_kind % 20], "injected read failure")),
                    End::Vanish => producer_panic(self.spec.data.len() + self.spec.piece),
                    End::Ok => {}
                }
            }
            return Ok(0);
        }
        let n = out.len().min(self.spec.piece.max(1)).min(limit - self.pos);
        out[..n].copy_from_slice(&self.spec.data[self.pos..self.pos + n]);
        self.pos += n;
        Ok(n)
    }
}

/// A producer panic with a `&'static str`, a `String` or a non-string payload.
fn producer_panic(salt: usize) -> ! {
    match salt % 3 {
        0 => panic!("injected producer panic"),
        1 => panic!("{}", format!("injected producer panic {salt}")),
        _ => std::panic::panic_any(salt as u64),
    }
}

type BoxedWriter = Box<dyn FnOnce(&mut dyn Write) -> io::Result<()> + Send>;

fn writer_body(spec: Spec) -> BoxedWriter {
    Box::new(move |w: &mut dyn Write| -> io::Result<()> {
        let mut pos = 0usize;
        for (i, e) in spec.evs.iter().enumerate() {
            if let Some((k, g)) = &spec.gate {
                if *k == i {
                    g.wait();
                }
            }
            if let Some((k, ms)) = &spec.pause {
                if *k == i {
                    std::thread::sleep(Duration::from_millis(*ms));
                }
            }
            if spec.slow_us > 0 {
                std::thread::sleep(Duration::from_micros(spec.slow_us));
            }
            match e {
                Ev::W(n) => {
                    w.write_all(&spec.data[pos..pos + n])?;
                    pos += n;
                }
                Ev::F => w.flush()?,
            }
        }
        match spec.end {
            End::Ok => Ok(()),
            End::Err => Err(io::Error::new(ERR_KINDS[spec.err_kind % 20], "injected writer failure")),
            End::Vanish => producer_panic(spec.data.len() + spec.evs.len()),
        }
    })
}

fn make_router(kind: &str, opts: StreamOpts) -> Option<Router> {
    let r = Router::new();
    Some(match kind {
        "peer" => r.with_erased_handler("/_svs/open", Arc::new(PeerOpen)).with_erased_handler("/_svs/next", Arc::new(PeerNext)).with_erased_handler("/_svs/cancel", Arc::new(PeerCancel)),
        "reader" => r.with_reader_stream(|res: &str| spec_of(res).map(|spec| ScriptedReader { spec, pos: 0, calls: 0 }), opts),
        "value" => r.with_value_stream(|res: &str| spec_of(res).and_then(|s| s.value), opts),
        "typed:u8" => r.with_typed_value_stream::<u8, _>(|res: &str| spec_of(res).and_then(|s| s.typed_u8).map(|v| (*v).clone()), opts),
        "typed:f64" => r.with_typed_value_stream::<f64, _>(|res: &str| spec_of(res).and_then(|s| s.typed_f64).map(|v| (*v).clone()), opts),
        "complex" => r.with_complex_value_stream::<f32, _>(|res: &str| spec_of(res).and_then(|s| s.complex).map(|v| (*v).clone()), opts),
        k if k.starts_with("writer:") => {
            let fmt = match &k[7..] {
                "0" => BodyFormat::RawBinary,
                "1" => BodyFormat::Beve,
                "2" => BodyFormat::Json,
                "3" => BodyFormat::Utf8,
                _ => return None,
            };
            r.with_writer_stream(fmt, |res: &str| spec_of(res).map(writer_body), opts)
        }
        _ => return None,
    })
}

// ------------------------------------------------------------------------------------------
// servers, cached per configuration
// ------------------------------------------------------------------------------------------
struct Servers {
    rt: tokio::runtime::Runtime,
    /// one worker, ONE blocking-pool thread: hosts the `wsl` WebSocket servers, whose off-reader `next`
    /// handlers then compete for a single thread
    rt_small: tokio::runtime::Runtime,
    map: HashMap<String, SocketAddr>,
    /// raw connections kept open across cases (one per server): sequences of many streams — clean,
    /// failed, cancelled — on the SAME connection
    conns: HashMap<String, Conn>,
    /// the crate's clients kept across `hl` cases, likewise
    sync_clients: HashMap<String, Arc<repe::Client>>,
    async_clients: HashMap<String, repe::AsyncClient>,
    ws_clients: HashMap<String, repe::WebSocketClient>,
}

impl Servers {
    fn new() -> Servers {
        let rt = tokio::runtime::Builder::new_multi_thread().worker_threads(4).max_blocking_threads(64).enable_all().build().unwrap();
        Servers { rt, rt_small: tokio::runtime::Builder::new_multi_thread().worker_threads(1).max_blocking_threads(1).enable_all().build().unwrap(), map: HashMap::new(), conns: HashMap::new(), sync_clients: HashMap::new(), async_clients: HashMap::new(), ws_clients: HashMap::new() }
    }
    fn addr(&mut self, srv: &str, kind: &str, comp: u8, chunk: usize, depth: usize, level: i32) -> Option<SocketAddr> {
        let key = format!("{srv}|{kind}|{comp}|{chunk}|{depth}|{level}");
        if let Some(a) = self.map.get(&key) {
            return Some(*a);
        }
        // every configuration is a listening server that stays up for the run: bound their number (descriptors,
        // threads); a case that would need one more is skipped by the generator, never reported
        if self.map.len() >= MAX_SERVERS {
            return None;
        }
        let opts = StreamOpts {
            chunk_bytes: chunk,
            compression: if comp == 1 { Compression::Zstd } else { Compression::None },
            zstd_level: level,
            session_depth: depth,
        };
        let opts = if chunk == 1 << 20 && comp == 1 && level == 3 && depth == 4 { StreamOpts::default() } else { opts };
        let router = make_router(kind, opts)?;
        let a = match srv {
            "tcp" => {
                let listener = std::net::TcpListener::bind("127.0.0.1:0").ok()?;
                let a = listener.local_addr().ok()?;
                let server = repe::Server::new(router);
                std::thread::spawn(move || {
                    let _ = server.serve(listener);
                });
                a
            }
            "ws" => self.rt.block_on(async {
                let l = tokio::net::TcpListener::bind("127.0.0.1:0").await.ok()?;
                let a = l.local_addr().ok()?;
                tokio::spawn(async move {
                    let _ = repe::websocket_server::WebSocketServer::new(router).serve_listener(l, "/repe").await;
                });
                Some(a)
            })?,
            "wsl" => self.rt_small.block_on(async {
                let l = tokio::net::TcpListener::bind("127.0.0.1:0").await.ok()?;
                let a = l.local_addr().ok()?;
                tokio::spawn(async move {
                    let _ = repe::websocket_server::WebSocketServer::new(router).serve_listener(l, "/repe").await;
                });
                Some(a)
            })?,
            "wsc1" => self.rt.block_on(async {
                // at most ONE off-reader request in flight per connection: further ones are refused (ResourceExhausted)
                let l = tokio::net::TcpListener::bind("127.0.0.1:0").await.ok()?;
                let a = l.local_addr().ok()?;
                tokio::spawn(async move {
                    let _ = repe::websocket_server::WebSocketServer::new(router).with_offreader_limit(1).serve_listener(l, "/repe").await;
                });
                Some(a)
            })?,
            "tcpx" => {
                // the blocking server behind a proxy that re-fragments both directions
                let listener = std::net::TcpListener::bind("127.0.0.1:0").ok()?;
                let real = listener.local_addr().ok()?;
                let server = repe::Server::new(router);
                std::thread::spawn(move || {
                    let _ = server.serve(listener);
                });
                let front = std::net::TcpListener::bind("127.0.0.1:0").ok()?;
                let a = front.local_addr().ok()?;
                std::thread::spawn(move || fragmenting_proxy(front, real));
                a
            }
            _ => return None,
        };
        self.map.insert(key, a);
        Some(a)
    }
}

/// Accepts connections and forwards both directions to `real`, cutting every burst into pieces: the first
/// 64 bytes of a burst one byte at a time (so a frame header, the 48/49 boundary and a short query arrive
/// split), the rest in pieces of 1…1460 bytes, with an occasional millisecond stall.
fn fragmenting_proxy(front: std::net::TcpListener, real: SocketAddr) {
    static PROXY_SEED: AtomicU64 = AtomicU64::new(77);
    for c in front.incoming() {
        let Ok(client) = c else { continue };
        let Ok(server) = std::net::TcpStream::connect(real) else { continue };
        client.set_nodelay(true).ok();
        server.set_nodelay(true).ok();
        for (mut from, mut to) in [(client.try_clone().unwrap(), server.try_clone().unwrap()), (server, client)] {
            let seed = PROXY_SEED.fetch_add(1, Ordering::Relaxed);
            std::thread::spawn(move || {
                let mut rng = Rng::new(seed);
                let mut buf = vec![0u8; 1 << 16];
                loop {
                    let n = match from.read(&mut buf) {
                        Ok(0) | Err(_) => break,
                        Ok(n) => n,
                    };
                    let mut pos = 0;
                    while pos < n {
                        let k = if pos < 64 { 1 } else { 1 + rng.below(1460) as usize }.min(n - pos);
                        if to.write_all(&buf[pos..pos + k]).is_err() {
                            return;
                        }
                        pos += k;
                        if rng.chance(1, 200) {
                            std::thread::sleep(Duration::from_millis(1));
                        }
                    }
                }
                let _ = to.shutdown(std::net::Shutdown::Write);
            });
        }
    }
}

fn is_tcp(srv: &str) -> bool {
    srv == "tcp" || srv == "tcpx"
}

// ------------------------------------------------------------------------------------------
// raw connections
// ------------------------------------------------------------------------------------------
type WsStream = tokio_tungstenite::WebSocketStream<tokio_tungstenite::MaybeTlsStream<tokio::net::TcpStream>>;

enum Conn {
    Tcp { s: std::net::TcpStream, buf: Vec<u8>, stash: Vec<RawFrame>, frag: Option<Rng> },
    Ws { ws: WsStream, stash: Vec<RawFrame> },
}

static NEXT_REQ_ID: AtomicU64 = AtomicU64::new(1000);

impl Conn {
    fn connect(sv: &Servers, srv: &str, addr: SocketAddr) -> Result<Conn, String> {
        match if is_tcp(srv) { "tcp" } else { "ws" } {
            "tcp" => {
                let s = std::net::TcpStream::connect(addr).map_err(|e| format!("connect: {e}"))?;
                s.set_nodelay(true).ok();
                Ok(Conn::Tcp { s, buf: Vec::new(), stash: Vec::new(), frag: None })
            }
            _ => {
                let url = format!("ws://{}/repe", addr);
                let ws = sv.rt.block_on(async {
                    let mut cfg = tokio_tungstenite::tungstenite::protocol::WebSocketConfig::default();
                    cfg.max_message_size = Some(64 << 20);
                    cfg.max_frame_size = Some(32 << 20);
                    tokio_tungstenite::connect_async_with_config(&url, Some(cfg), true).await.map(|x| x.0).map_err(|e| format!("ws connect: {e}"))
                })?;
                Ok(Conn::Ws { ws, stash: Vec::new() })
            }
        }
    }

    /// Send one request; for a non-notify wait for the frame with the same id.
    fn call(&mut self, sv: &Servers, path: &str, body: &[u8], notify: bool) -> Result<Option<RawFrame>, String> {
        let id = self.send(sv, path, body, notify)?;
        if notify {
            return Ok(None);
        }
        self.wait(sv, id).map(Some)
    }

    /// Send one request without waiting; returns its id.
    fn send(&mut self, sv: &Servers, path: &str, body: &[u8], notify: bool) -> Result<u64, String> {
        let id = NEXT_REQ_ID.fetch_add(1, Ordering::Relaxed);
        let wire = RawFrame::request(id, notify, 1, path.as_bytes(), 1, body).to_vec();
        match self {
            Conn::Tcp { s, frag, .. } => match frag {
                None => s.write_all(&wire).map_err(|e| format!("write: {e}"))?,
                Some(rng) => {
                    // the request leaves in pieces: byte by byte, or cut inside the header / at 48 / inside the query / inside the body
                    let mut cuts: Vec<usize> = if wire.len() <= 160 && rng.chance(1, 2) {
                        (1..wire.len()).collect()
                    } else {
                        let mut c = vec![1 + rng.below(47) as usize, 48, 49 + rng.below((wire.len() as u64 - 49).max(1)) as usize];
                        if rng.chance(1, 2) { c.push(1 + rng.below(wire.len() as u64 - 1) as usize); }
                        c
                    };
                    cuts.retain(|c| *c > 0 && *c < wire.len());
                    cuts.sort();
                    cuts.dedup();
                    cuts.push(wire.len());
                    let mut pos = 0;
                    for c in cuts {
                        s.write_all(&wire[pos..c]).map_err(|e| format!("write: {e}"))?;
                        pos = c;
                        if rng.chance(1, 6) {
                            std::thread::sleep(Duration::from_millis(1 + rng.below(3)));
                        }
                    }
                }
            },
            Conn::Ws { ws, .. } => {
                use tokio_tungstenite::tungstenite::Message as WsMsg;
                sv.rt.block_on(async { ws.send(WsMsg::Binary(wire)).await.map_err(|e| format!("ws send: {e}")) })?
            }
        }
        Ok(id)
    }

    /// Wait for the response with this id; responses to other requests are kept for their own `wait`.
    fn wait(&mut self, sv: &Servers, id: u64) -> Result<RawFrame, String> {
        match self {
            Conn::Tcp { s, buf, stash, .. } => {
                if let Some(i) = stash.iter().position(|f| f.h.id == id) {
                    return Ok(stash.remove(i));
                }
                let deadline = Instant::now() + WATCHDOG;
                s.set_read_timeout(Some(Duration::from_millis(200))).ok();
                let mut tmp = vec![0u8; 1 << 16];
                loop {
                    while let Some((f, n)) = RawFrame::parse_prefix(buf) {
                        buf.drain(..n);
                        if f.h.id == id {
                            return Ok(f);
                        }
                        stash.push(f);
                    }
                    if Instant::now() > deadline {
                        return Err("timeout".into());
                    }
                    match s.read(&mut tmp) {
                        Ok(0) => return Err("closed".into()),
                        Ok(n) => buf.extend_from_slice(&tmp[..n]),
                        Err(e) if e.kind() == io::ErrorKind::WouldBlock || e.kind() == io::ErrorKind::TimedOut => {}
                        Err(e) => return Err(format!("read: {e}")),
                    }
                }
            }
            Conn::Ws { ws, stash } => {
                use tokio_tungstenite::tungstenite::Message as WsMsg;
                if let Some(i) = stash.iter().position(|f| f.h.id == id) {
                    return Ok(stash.remove(i));
                }
                sv.rt.block_on(async {
                    let deadline = tokio::time::Instant::now() + WATCHDOG;
                    loop {
                        match tokio::time::timeout_at(deadline, ws.next()).await {
                            Err(_) => return Err("timeout".to_string()),
                            Ok(None) => return Err("closed".to_string()),
                            Ok(Some(Err(e))) => return Err(format!("ws: {e}")),
                            Ok(Some(Ok(WsMsg::Binary(b)))) => match RawFrame::parse_prefix(&b) {
                                Some((f, n)) if n == b.len() => {
                                    if f.h.id == id {
                                        return Ok(f);
                                    }
                                    stash.push(f);
                                }
                                _ => return Err("malformed-ws-message".to_string()),
                            },
                            Ok(Some(Ok(_))) => {}
                        }
                    }
                })
            }
        }
    }

    fn close(self, sv: &Servers) {
        if let Conn::Ws { mut ws, .. } = self {
            sv.rt.block_on(async {
                let _ = tokio::time::timeout(Duration::from_millis(200), ws.close(None)).await;
            });
        }
    }
}

// ------------------------------------------------------------------------------------------
// case parameters (everything needed to re-run a case is on the op line)
// ------------------------------------------------------------------------------------------
#[derive(Clone, Debug)]
struct Params {
    srv: String,
    kind: String,
    comp: u8,
    chunk: usize,
    depth: usize,
    speed: char,
    /// `aux` token: L<len>.S<seed>.P<piece>.I<interrupt>.F<failat>.V<variant>
    len: usize,
    seed: u64,
    piece: usize,
    interrupt: usize,
    fail_at: usize,
    variant: String,
    evs: Vec<Ev>,
    end: End,
    /// zstd level of the server configuration (only meaningful with comp = 1)
    level: i32,
    /// index into `ERR_KINDS` (only meaningful with end = err)
    err_kind: usize,
}

impl Params {
    fn aux(&self) -> String {
        format!(
            "L{}.S{}.P{}.I{}.F{}.Z{}.K{}.V{}",
            self.len,
            self.seed,
            self.piece,
            self.interrupt,
            if self.fail_at == NONE { "-".to_string() } else { self.fail_at.to_string() },
            self.level,
            self.err_kind,
            if self.variant.is_empty() { "-" } else { &self.variant }
        )
    }
    fn parse_aux(&mut self, aux: &str) -> Option<()> {
        for part in aux.split('.') {
            let (k, v) = part.split_at(1);
            match k {
                "L" => self.len = v.parse().ok()?,
                "S" => self.seed = v.parse().ok()?,
                "P" => self.piece = v.parse().ok()?,
                "I" => self.interrupt = v.parse().ok()?,
                "F" => self.fail_at = if v == "-" { NONE } else { v.parse().ok()? },
                "Z" => self.level = v.parse().ok()?,
                "K" => self.err_kind = v.parse().ok()?,
                "V" => self.variant = if v == "-" { String::new() } else { v.to_string() },
                _ => return None,
            }
        }
        Some(())
    }
}

fn pattern(n: usize) -> Vec<u8> {
    (0..n).map(|i| ((7 * i + 3) % 251) as u8).collect()
}
/// Seeds from here on select payloads that LOOK LIKE the crate's own framing (always exactly `n` bytes).
const FLAVOUR_BASE: u64 = 1 << 40;
const N_FLAVOURS: u64 = 8;

fn fit(mut base: Vec<u8>, n: usize) -> Vec<u8> {
    if base.is_empty() { base.push(0x28); }
    while base.len() < n { let k = (n - base.len()).min(base.len()); let ext = base[..k].to_vec(); base.extend(ext); }
    base.truncate(n);
    base
}

fn content(seed: u64, n: usize) -> Vec<u8> {
    if seed == 0 {
        return pattern(n);
    }
    if seed < FLAVOUR_BASE {
        return Rng::new(seed).bytes(n);
    }
    const MAGIC: [u8; 4] = [0x28, 0xB5, 0x2F, 0xFD];
    match (seed - FLAVOUR_BASE) % N_FLAVOURS {
        // a complete, valid zstd stream of exactly n bytes: a frame (compressed pattern, or incompressible noise = "a recorded
        // compressed stream of another payload") padded with a skippable frame
        k @ (0 | 1) => {
            let inner = if k == 0 { pattern(n / 2) } else { Rng::new(seed).bytes(n / 2) };
            let mut inner_len = inner.len();
            loop {
                let mut f = zstd::encode_all(&inner[..inner_len], if k == 0 { 3 } else { -1 }).unwrap_or_default();
                if f.len() == n { return f; }
                if f.len() + 8 <= n {
                    let pad = n - f.len() - 8;
                    f.extend([0x50, 0x2A, 0x4D, 0x18]);
                    f.extend((pad as u32).to_le_bytes());
                    f.extend(std::iter::repeat(0xA5).take(pad));
                    return f;
                }
                if inner_len == 0 { let mut g = MAGIC.to_vec(); g.extend(Rng::new(seed).bytes(n)); return fit(g, n); }
                inner_len /= 2;
            }
        }
        // the zstd magic followed by garbage
        2 => { let mut g = MAGIC.to_vec(); g.extend(Rng::new(seed).bytes(n)); fit(g, n) }
        // the magic alone / repeated
        3 => fit(MAGIC.to_vec(), n),
        // consistent REPE frames (spec bytes 0x1507, lengths that add up), one after the other
        4 => {
            let mut g = Vec::new();
            let mut id = seed;
            while g.len() < n.max(1) { g.extend(RawFrame::request(id, id % 2 == 0, 1, b"/_svs/next", 1, &beve::to_vec(&NextRequest { stream_id: id }).unwrap()).to_vec()); id += 1; }
            fit(g, n)
        }
        // BEVE: an OpenResponse, a NextRequest, a record — the bodies the protocol itself carries
        5 => {
            let mut g = beve::to_vec(&OpenResponse { version: 1, stream_id: 1, format: 1, compression: 1 }).unwrap();
            g.extend(beve::to_vec(&make_rec(seed, 5)).unwrap());
            fit(g, n)
        }
        // the `last` marker byte patterns
        6 => fit(vec![0x01], n),
        _ => fit(vec![0x00, 0x01, 0x01, 0x00, 0xFF, 0x01], n),
    }
}

fn evs_tok(evs: &[Ev]) -> String {
    if evs.is_empty() {
        return "-".into();
    }
    evs.iter().map(|e| match e { Ev::W(n) => format!("w{n}"), Ev::F => "f".into() }).collect::<Vec<_>>().join(",")
}
fn parse_evs(s: &str) -> Option<Vec<Ev>> {
    if s == "-" {
        return Some(vec![]);
    }
    s.split(',').map(|t| if t == "f" { Some(Ev::F) } else { t.strip_prefix('w').and_then(|n| n.parse().ok()).map(Ev::W) }).collect()
}

/// What the case's producer does, plus the reference logical bytes it emits when it ends `ok`
/// (for a failing reader/writer: the bytes written before the failure).
struct Built {
    spec: Spec,
    logical: Vec<u8>,
    /// the `evs` token when the fragmentation is known to the harness, else a nominal single write
    evs_tok: String,
    /// whether `logical` is the pattern (model can regenerate it)
    is_pattern: bool,
}

fn build(p: &Params) -> Option<Built> {
    let mut spec = Spec {
        data: Arc::new(Vec::new()),
        evs: vec![],
        piece: p.piece.max(1),
        interrupt_every: p.interrupt,
        fail_at: p.fail_at,
        end: p.end,
        slow_us: if p.speed == 'p' { 1500 } else { 0 },
        err_kind: p.err_kind,
        gate: None,
        pause: None,
        value: None,
        typed_u8: None,
        typed_f64: None,
        complex: None,
    };
    let nominal = |n: usize| if n == 0 { "-".to_string() } else { format!("w{n}") };
    match p.kind.as_str() {
        "reader" => {
            let data = content(p.seed, p.len);
            let written = p.len.min(p.fail_at);
            let logical = data[..written].to_vec();
            spec.data = Arc::new(data);
            let pc = spec.piece.min(8192);
            let tok = if written == 0 { "-".into() } else if written <= 262144 { format!("c{pc}") } else { nominal(written) };
            Some(Built { spec, logical, evs_tok: tok, is_pattern: p.seed == 0 })
        }
        k if k.starts_with("writer:") => {
            let written: usize = p.evs.iter().map(|e| if let Ev::W(n) = e { *n } else { 0 }).sum();
            let data = if p.variant == "rec" {
                // a decodable BEVE value written in the given pieces (pull_value on a writer stream)
                let mut v = Vec::new();
                beve::to_writer_streaming(&mut v, &make_rec(p.seed, p.len)).ok()?;
                v
            } else {
                content(p.seed, written)
            };
            if data.len() < written {
                return None;
            }
            let logical = data[..written].to_vec();
            spec.data = Arc::new(data);
            spec.evs = p.evs.clone();
            if let Some(k) = p.variant.strip_prefix('g').and_then(|k| k.parse::<usize>().ok()) {
                spec.gate = Some((k, Gate::new()));
            }
            if let Some((ms, k)) = p.variant.strip_prefix("pz").and_then(|r| r.split_once("at")) {
                spec.pause = Some((k.parse().ok()?, ms.parse().ok()?));
            }
            Some(Built { spec, logical, evs_tok: evs_tok(&p.evs), is_pattern: p.seed == 0 && p.variant != "rec" })
        }
        "value" => {
            let v = match p.variant.as_str() {
                "unit" => ValueCase::Unit,
                "str" => ValueCase::Str(String::from_utf8(content(p.seed, p.len).iter().map(|b| b'a' + (b % 26)).collect()).unwrap()),
                "rec" => ValueCase::Rec(make_rec(p.seed, p.len)),
                "failseq" => ValueCase::FailSeq(p.len),
                "panicseq" => ValueCase::PanicSeq(p.len),
                _ => return None,
            };
            let mut logical = Vec::new();
            if p.variant != "failseq" && p.variant != "panicseq" {
                beve::to_writer_streaming(&mut logical, &v).ok()?;
            }
            spec.value = Some(v);
            let tok = nominal(logical.len());
            Some(Built { spec, logical, evs_tok: tok, is_pattern: false })
        }
        "typed:u8" => {
            let v = content(p.seed, p.len);
            let mut logical = Vec::new();
            beve::to_writer_typed_slice(&mut logical, &v).ok()?;
            spec.typed_u8 = Some(Arc::new(v));
            let tok = nominal(logical.len());
            Some(Built { spec, logical, evs_tok: tok, is_pattern: false })
        }
        "typed:f64" => {
            let mut r = Rng::new(p.seed | 1);
            let v: Vec<f64> = (0..p.len).map(|i| (r.next() % 100_000) as f64 * 0.25 - i as f64).collect();
            let mut logical = Vec::new();
            beve::to_writer_typed_slice(&mut logical, &v).ok()?;
            spec.typed_f64 = Some(Arc::new(v));
            let tok = nominal(logical.len());
            Some(Built { spec, logical, evs_tok: tok, is_pattern: false })
        }
        "complex" => {
            let mut r = Rng::new(p.seed | 1);
            let v: Vec<Complex<f32>> = (0..p.len).map(|i| Complex { re: (r.next() % 1000) as f32 * 0.5, im: -(i as f32) }).collect();
            let mut logical = Vec::new();
            beve::to_writer_complex_slice(&mut logical, &v).ok()?;
            spec.complex = Some(Arc::new(v));
            let tok = nominal(logical.len());
            Some(Built { spec, logical, evs_tok: tok, is_pattern: false })
        }
        _ => None,
    }
}

fn make_rec(seed: u64, n: usize) -> Rec {
    let mut r = Rng::new(seed | 1);
    Rec {
        id: r.next(),
        label: format!("svs-{}", n),
        samples: (0..n).map(|i| i as f64 * 0.5 - 3.0).collect(),
        tags: (0..(n % 7)).map(|i| format!("tag-{i:03}")).collect(),
    }
}

fn stream_tok(bytes: &[u8], is_pattern: bool) -> String {
    if is_pattern {
        format!("p:7:3:{}", bytes.len())
    } else if bytes.len() <= 2048 {
        format!("h:{}", hex(bytes))
    } else {
        format!("z:{}", bytes.len())
    }
}

static RES_COUNTER: AtomicU64 = AtomicU64::new(0);
fn register(spec: Spec) -> String {
    let n = RES_COUNTER.fetch_add(1, Ordering::Relaxed);
    let flavour = (spec.data.len() + spec.evs.len() + spec.piece + spec.fail_at % 7) % 8;
    let name = match flavour {
        0 => format!("res-{n}"),
        1 => format!("ресурс/{n}/ключ ✓"),
        2 => format!("{n} with spaces, \"quotes\", ~0 ~1 / and \\ and \u{0} nul"),
        3 => format!("{n}{}", "k".repeat(if n % 8 == 0 { 70_000 } else { 300 })),
        4 => format!("{n}"),
        5 => format!("  MiXeD Case Key {n} \t "),
        6 => format!("Ünïcödé-ÀÉÎ-{n}-ß"),
        _ => format!("/_svs/open#{n}"),
    };
    specs().lock().unwrap().insert(name.clone(), spec);
    name
}
fn unregister(name: &str) {
    specs().lock().unwrap().remove(name);
}

// ------------------------------------------------------------------------------------------
// raw exchanges
// ------------------------------------------------------------------------------------------
#[derive(Debug, Clone)]
enum Pulled {
    Chunk { body: Vec<u8>, last: u8 },
    Err,
    Bad(String),
}

fn show_pulled(p: &Pulled, known: bool) -> String {
    match p {
        Pulled::Chunk { body, last } => {
            if known {
                format!("{}:{}:{}", body.len(), last, fnv(body))
            } else {
                format!("{}:{}", body.len(), last)
            }
        }
        Pulled::Err => "err".into(),
        Pulled::Bad(s) => format!("bad({s})"),
    }
}

fn do_open(conn: &mut Conn, sv: &Servers, resource: &str) -> Result<OpenResponse, String> {
    let body = beve::to_vec(&OpenRequest { resource: resource.to_string() }).map_err(|e| e.to_string())?;
    let f = conn.call(sv, "/_svs/open", &body, false)?.ok_or("no frame")?;
    if f.h.ec != 0 {
        return Err(format!("open ec {}", f.h.ec));
    }
    beve::from_slice::<OpenResponse>(&f.body).map_err(|e| format!("open body: {e}"))
}

fn do_next(conn: &mut Conn, sv: &Servers, stream_id: u64, problems: &mut Vec<String>) -> Pulled {
    let body = beve::to_vec(&NextRequest { stream_id }).unwrap();
    let r = conn.call(sv, "/_svs/next", &body, false);
    pulled_of(r, problems)
}

fn pulled_of(r: Result<Option<RawFrame>, String>, problems: &mut Vec<String>) -> Pulled {
    match r {
        Err(e) => Pulled::Bad(e),
        Ok(None) => Pulled::Bad("none".into()),
        Ok(Some(f)) => {
            if f.h.ec != 0 {
                return Pulled::Err;
            }
            if f.h.query_format != 0 || f.h.body_format != 0 || f.query.len() != 1 || f.query[0] > 1 {
                problems.push(format!("next response shape: qfmt {} bfmt {} query {}", f.h.query_format, f.h.body_format, hex(&f.query)));
            }
            Pulled::Chunk { last: f.query.first().copied().unwrap_or(255), body: f.body }
        }
    }
}

fn do_cancel(conn: &mut Conn, sv: &Servers, stream_id: u64, notify: bool) -> Result<(), String> {
    let reason = match stream_id % 5 {
        0 => String::new(),
        1 => "harness".to_string(),
        2 => "причина — отмена ✓ \u{0}\n\"quoted\"".to_string(),
        3 => "r".repeat(70_000),
        _ => format!("r{}", stream_id),
    };
    let body = beve::to_vec(&CancelRequest { stream_id, reason }).unwrap();
    match conn.call(sv, "/_svs/cancel", &body, notify)? {
        None => Ok(()),
        Some(f) => if f.h.ec == 0 { Ok(()) } else { Err(format!("cancel ec {}", f.h.ec)) },
    }
}

/// Pull a stream to its terminal response (recording run for zstd cases).
fn record_stream(sv: &mut Servers, p: &Params, resource: &str) -> Result<(Vec<Vec<u8>>, bool), String> {
    let addr = sv.addr(&p.srv, &p.kind, p.comp, p.chunk, p.depth, p.level).ok_or("no server")?;
    let mut conn = Conn::connect(sv, &p.srv, addr)?;
    let open = do_open(&mut conn, sv, resource)?;
    let mut chunks = Vec::new();
    let mut probs = Vec::new();
    let mut clean = false;
    for _ in 0..100_000 {
        match do_next(&mut conn, sv, open.stream_id, &mut probs) {
            Pulled::Chunk { body, last } => {
                chunks.push(body);
                if last == 1 {
                    clean = true;
                    break;
                }
            }
            Pulled::Err => break,
            Pulled::Bad(e) => return Err(e),
        }
    }
    conn.close(sv);
    Ok((chunks, clean))
}

struct RawResult {
    op: String,
    obs: String,
    nontrivial: bool,
    failures: Vec<(String, String)>,
    /// the case cannot be compared with the model (zstd produced a different stream on the recording pull)
    skip: bool,
    /// the long-lived object (pooled connection / client) the case ran on: its recent op lines are part of a replay
    pool: Option<String>,
}

#[derive(Default)]
struct OracleState {
    delivered: Vec<u8>,
    n_chunks: usize,
    last_seen: bool,
    released: bool,
    errored: bool,
}

impl OracleState {
    fn on_pull(&mut self, pl: &Pulled, end: End, failures: &mut Vec<(String, String)>) {
        match pl {
            Pulled::Chunk { body, last } => {
                if self.last_seen {
                    failures.push(("svs.raw.past_end_not_error".into(), "a `next` after the final chunk returned a chunk".into()));
                } else if self.released {
                    failures.push(("svs.raw.released_not_error".into(), "a `next` after `cancel` returned a chunk".into()));
                } else if self.errored {
                    failures.push(("svs.raw.after_failure_not_error".into(), "a `next` after a failed `next` returned a chunk".into()));
                } else {
                    self.delivered.extend_from_slice(body);
                    self.n_chunks += 1;
                    if *last == 1 {
                        self.last_seen = true;
                        if end != End::Ok {
                            failures.push(("svs.raw.fail_marked_last".into(), format!("producer ended `{}` but a chunk carried last=1", end.tok())));
                        }
                    }
                }
            }
            Pulled::Err => {
                if !self.last_seen && !self.released && !self.errored && end == End::Ok {
                    failures.push(("svs.raw.unexpected_error".into(), "a `next` on a healthy, unreleased, unfinished stream returned an error".into()));
                }
                self.errored = true;
            }
            Pulled::Bad(e) => failures.push((format!("svs.raw.{}", e.split(':').next().unwrap_or("io").replace(' ', "_")), format!("next: {e}"))),
        }
    }
}

fn exec_raw(sv: &mut Servers, out: &mut Out, idx: &str, p: &Params, script: &str) -> Option<RawResult> {
    sv.addr(&p.srv, &p.kind, p.comp, p.chunk, p.depth, p.level)?;
    let built = build(p)?;
    let resource = register(built.spec.clone());
    let mut failures: Vec<(String, String)> = Vec::new();
    // what the sink receives
    let (stream_bytes, stream_known, stream_token, evs_token): (Vec<u8>, bool, String, String) = if p.comp == 0 {
        let tok = stream_tok(&built.logical, built.is_pattern);
        let known = !tok.starts_with("z:");
        (built.logical.clone(), known, tok, built.evs_tok.clone())
    } else {
        // zstd: the compressed stream is recorded from a separate, complete pull of the same resource
        match record_stream(sv, p, &resource) {
            Ok((chunks, clean)) => {
                let total: Vec<u8> = chunks.concat();
                if p.end == End::Ok {
                    if !clean {
                        failures.push(("svs.raw.unexpected_error".into(), "recording pull of a healthy zstd stream ended in an error".into()));
                    }
                    let tok = if total.len() <= 2048 { format!("h:{}", hex(&total)) } else { format!("z:{}", total.len()) };
                    let known = total.len() <= 2048;
                    let n = total.len();
                    (total, known, tok, if n == 0 { "-".into() } else { format!("w{n}") })
                } else {
                    // failing encoder: only the number of full chunks it pushed is observable (m delivered + the dropped lookahead)
                    let m = chunks.len();
                    let n = if m == 0 { 0 } else { (m + 1) * p.chunk };
                    (Vec::new(), false, format!("z:{n}"), if n == 0 { "-".into() } else { format!("w{n}") })
                }
            }
            Err(e) => {
                failures.push((format!("svs.raw.{}", e.split(':').next().unwrap_or("io")), format!("recording pull: {e}")));
                (Vec::new(), false, "z:0".into(), "-".into())
            }
        }
    };
    let op = format!(
        "raw {} {} {} {} {} {} {} {} {} {} {} {}",
        idx, p.srv, p.kind, p.comp, p.chunk, p.depth, p.speed, stream_token, evs_token, p.end.tok(), script, p.aux()
    );
    out.begin(&op);
    let addr = sv.addr(&p.srv, &p.kind, p.comp, p.chunk, p.depth, p.level)?;
    let mut obs: Vec<String> = vec![idx.to_string()];
    let mut pulls: Vec<Pulled> = Vec::new();
    let mut n_tokens = 0usize;
    let mut skip = false;
    let pool_name = format!("raw|{}|{}", p.srv, addr);
    let pool_key: Option<String> = Some(pool_name.clone());
    let pooled = match sv.conns.remove(&pool_name) {
        Some(c) => Ok(c),
        None => Conn::connect(sv, &p.srv, addr),
    };
    match pooled {
        Err(e) => {
            failures.push(("svs.raw.connect".into(), e));
            obs.push("noconn".into());
        }
        Ok(mut conn) => {
            if let Conn::Tcp { frag, .. } = &mut conn {
                *frag = if p.speed == 'f' { Some(Rng::new(fnv(p.aux().as_bytes()) | 1)) } else { None };
            }
            match do_open(&mut conn, sv, &resource) {
                Err(e) => {
                    failures.push(("svs.raw.open_failed".into(), e));
                    obs.push("open-failed".into());
                }
                Ok(open) => {
                    if open.version != 1 {
                        failures.push(("svs.raw.open_version".into(), format!("version {}", open.version)));
                    }
                    obs.push(format!("open {} {}", open.format, open.compression));
                    // oracle state
                    let mut st = OracleState::default();
                    let mut shape = Vec::new();
                    let mut second_ids: Vec<u64> = Vec::new();
                    let expanded = expand_script(script);
                    for t in expanded.iter().map(|x| x.as_str()) {
                        n_tokens += 1;
                        if p.speed == 'c' {
                            std::thread::sleep(Duration::from_millis(2));
                        }
                        match t {
                            "n" => {
                                let pl = do_next(&mut conn, sv, open.stream_id, &mut shape);
                                st.on_pull(&pl, p.end, &mut failures);
                                obs.push(show_pulled(&pl, stream_known));
                                pulls.push(pl);
                            }
                            "N" => {
                                let mut toks = Vec::new();
                                let mut terminal = false;
                                for _ in 0..200_000 {
                                    if p.speed == 'c' {
                                        std::thread::sleep(Duration::from_millis(2));
                                    }
                                    let pl = do_next(&mut conn, sv, open.stream_id, &mut shape);
                                    st.on_pull(&pl, p.end, &mut failures);
                                    toks.push(show_pulled(&pl, stream_known));
                                    let stop = match &pl {
                                        Pulled::Chunk { last, .. } => *last == 1,
                                        _ => true,
                                    };
                                    pulls.push(pl);
                                    if stop {
                                        terminal = true;
                                        break;
                                    }
                                }
                                if !terminal {
                                    failures.push(("svs.raw.no_terminal".into(), "200000 pulls without last or error".into()));
                                }
                                obs.push(format!("[{}]", toks.join(" ")));
                            }
                            "q" => {
                                // a `next` parked on the gated producer, `cancel` from elsewhere while it is parked
                                let Some((_, gate)) = built.spec.gate.clone() else { return None };
                                let body = beve::to_vec(&NextRequest { stream_id: open.stream_id }).unwrap();
                                match conn.send(sv, "/_svs/next", &body, false) {
                                    Err(e) => {
                                        failures.push(("svs.raw.send".into(), e));
                                        obs.push("send-failed".into());
                                    }
                                    Ok(req_id) => {
                                        std::thread::sleep(Duration::from_millis(250));
                                        let cancelled = if is_tcp(&p.srv) {
                                            // the blocking server serves one request per connection at a time
                                            match Conn::connect(sv, &p.srv, addr) {
                                                Ok(mut c2) => {
                                                    let r = do_cancel(&mut c2, sv, open.stream_id, false);
                                                    c2.close(sv);
                                                    r
                                                }
                                                Err(e) => Err(e),
                                            }
                                        } else {
                                            // off-reader `next`: the same WebSocket connection stays free for the cancel
                                            do_cancel(&mut conn, sv, open.stream_id, false)
                                        };
                                        gate.release();
                                        let parked = pulled_of(conn.wait(sv, req_id).map(Some), &mut shape);
                                        match &parked {
                                            // issued before the release: a chunk is fine, so is an error
                                            Pulled::Chunk { .. } => st.on_pull(&parked, p.end, &mut failures),
                                            Pulled::Err => {}
                                            Pulled::Bad(e) => failures.push((format!("svs.raw.{}", e.split(':').next().unwrap_or("io").replace(' ', "_")), format!("parked next: {e}"))),
                                        }
                                        out.count(&format!("svs.parked.{}", match &parked { Pulled::Chunk { .. } => "chunk", Pulled::Err => "err", _ => "bad" }));
                                        obs.push("*".into());
                                        match cancelled {
                                            Ok(()) => obs.push("ack".into()),
                                            Err(e) => {
                                                failures.push(("svs.raw.cancel_failed".into(), e));
                                                obs.push("cancel-failed".into());
                                            }
                                        }
                                        st.released = true;
                                    }
                                }
                            }
                            "w" => {
                                // a SECOND stream of the same resource is opened now and left open after one pull;
                                // the following tokens still address the first stream's id
                                match do_open(&mut conn, sv, &resource) {
                                    Ok(o2) => {
                                        if o2.stream_id == open.stream_id {
                                            failures.push(("svs.raw.id_reused".into(), format!("a stream opened later got the id {} of the stream this case is still addressing", o2.stream_id)));
                                        }
                                        let pl = do_next(&mut conn, sv, o2.stream_id, &mut shape);
                                        obs.push(format!("second({})", show_pulled(&pl, stream_known)));
                                        second_ids.push(o2.stream_id);
                                    }
                                    Err(e) => {
                                        failures.push(("svs.raw.open_failed".into(), e));
                                        obs.push("second(open-failed)".into());
                                    }
                                }
                            }
                            "u" => {
                                // `next` for an id nobody was given: 0, the top of the range, far beyond the counter
                                let bogus = match open.stream_id % 3 { 0 => 0, 1 => u64::MAX, _ => open.stream_id + 1_000_000_007 };
                                let pl = do_next(&mut conn, sv, bogus, &mut shape);
                                if let Pulled::Chunk { .. } = &pl {
                                    failures.push(("svs.raw.unknown_id_not_error".into(), format!("a `next` for the never-issued stream id {bogus} returned a chunk")));
                                }
                                obs.push(match &pl { Pulled::Chunk { .. } => "chunk".into(), Pulled::Err => "err".into(), Pulled::Bad(e) => format!("bad({e})") });
                            }
                            "m" => {
                                // a `next` whose body is not BEVE { stream_id }: answered with an error, the stream is not touched
                                let bodies: [&[u8]; 4] = [&[], &[0xff, 0x00, 0x13], b"{\"stream_id\":1}", &[0x01]];
                                let r = conn.call(sv, "/_svs/next", bodies[(open.stream_id % 4) as usize], false);
                                obs.push(match pulled_of(r, &mut Vec::new()) { Pulled::Chunk { .. } => "chunk".into(), Pulled::Err => "err".into(), Pulled::Bad(e) => format!("bad({e})") });
                            }
                            "j" => {
                                // a `cancel` whose body does not parse: acknowledged, releases nothing
                                let r = conn.call(sv, "/_svs/cancel", &[0xff, 0x01], false);
                                obs.push(match r { Ok(Some(f)) if f.h.ec == 0 => "ack".into(), Ok(_) => "nack".into(), Err(e) => format!("bad({e})") });
                            }
                            "o" => {
                                // `open` of a resource the producer does not know
                                let body = beve::to_vec(&OpenRequest { resource: format!("no such resource {}", open.stream_id) }).unwrap();
                                let r = conn.call(sv, "/_svs/open", &body, false);
                                obs.push(match r { Ok(Some(f)) if f.h.ec != 0 => "noent".into(), Ok(_) => "opened".into(), Err(e) => format!("bad({e})") });
                            }
                            "c" | "k" => {
                                match do_cancel(&mut conn, sv, open.stream_id, t == "k") {
                                    Ok(()) => obs.push(if t == "c" { "ack".into() } else { "-".into() }),
                                    Err(e) => {
                                        failures.push(("svs.raw.cancel_failed".into(), e));
                                        obs.push("cancel-failed".into());
                                    }
                                }
                                st.released = true;
                            }
                            _ => return None,
                        }
                    }
                    for id2 in second_ids {
                        let _ = do_cancel(&mut conn, sv, id2, true);
                    }
                    for s in shape {
                        failures.push(("svs.raw.wire_shape".into(), s));
                    }
                    // concatenation oracles
                    if st.last_seen {
                        if p.comp == 0 {
                            if st.delivered != built.logical {
                                failures.push(("svs.raw.concat_mismatch".into(), format!("pulled {} bytes, producer emitted {}; first difference at {:?}", st.delivered.len(), built.logical.len(), first_diff(&st.delivered, &built.logical))));
                            }
                        } else {
                            match zstd::decode_all(&st.delivered[..]) {
                                Ok(d) => {
                                    if d != built.logical {
                                        failures.push(("svs.raw.concat_mismatch".into(), format!("decompressed pull has {} bytes, producer's logical bytes {}", d.len(), built.logical.len())));
                                    }
                                }
                                Err(e) => failures.push(("svs.raw.concat_mismatch".into(), format!("pulled stream is not a zstd frame: {e}"))),
                            }
                            if st.delivered != stream_bytes && p.end == End::Ok {
                                // not the property's business: the recorded stream cannot serve as this case's model input
                                skip = true;
                            }
                        }
                        if built.logical.is_empty() && p.comp == 0 && st.n_chunks != 1 {
                            failures.push(("svs.raw.empty_not_single".into(), format!("empty payload st.delivered as {} chunks", st.n_chunks)));
                        }
                    } else if p.comp == 0 && !st.delivered.is_empty() && !built.logical.starts_with(&st.delivered) {
                        failures.push(("svs.raw.prefix_mismatch".into(), "bytes pulled so far are not a prefix of the producer's bytes".into()));
                    }
                    let lasts = pulls.iter().filter(|x| matches!(x, Pulled::Chunk { last: 1, .. })).count();
                    if lasts > 1 {
                        failures.push(("svs.raw.last_count".into(), format!("{} chunks carried last=1", lasts)));
                    }
                }
            }
            let transport_trouble = failures.iter().any(|(sig, _)| {
                ["timeout", "closed", "connect", "read", "write", "ws", "send", "malformed", "open_failed", "cancel_failed"].iter().any(|w| sig.contains(w))
            });
            if transport_trouble {
                conn.close(sv);
            } else {
                if sv.conns.len() >= MAX_POOLED_CONNS {
                    if let Some(k) = sv.conns.keys().next().cloned() {
                        if let Some(old) = sv.conns.remove(&k) {
                            old.close(sv);
                        }
                    }
                }
                sv.conns.insert(pool_name, conn);
            }
        }
    }
    if let Some((_, g)) = &built.spec.gate {
        g.release();
    }
    unregister(&resource);
    let nontrivial = pulls.len() >= 2 || n_tokens >= 3;
    Some(RawResult { op, obs: obs.join(" "), nontrivial, failures, skip, pool: pool_key })
}

/// `n*64,c` → 64 × `n`, then `c`
fn expand_script(script: &str) -> Vec<String> {
    let mut out = Vec::new();
    for t in script.split(',') {
        match t.split_once('*') {
            Some((tok, k)) => {
                for _ in 0..k.parse::<usize>().unwrap_or(1).min(100_000) {
                    out.push(tok.to_string());
                }
            }
            None => out.push(t.to_string()),
        }
    }
    out
}

fn first_diff(a: &[u8], b: &[u8]) -> Option<usize> {
    a.iter().zip(b.iter()).position(|(x, y)| x != y).or(if a.len() != b.len() { Some(a.len().min(b.len())) } else { None })
}

// ------------------------------------------------------------------------------------------
// two streams open at once on one connection
// ------------------------------------------------------------------------------------------
fn exec_duo(sv: &mut Servers, out: &mut Out, idx: &str, pa: &Params, pb: &Params, script: &str) -> Option<RawResult> {
    let pool_key: Option<String> = None;
    let (ba, bb) = (build(pa)?, build(pb)?);
    let (ra, rb) = (register(ba.spec.clone()), register(bb.spec.clone()));
    let mut failures: Vec<(String, String)> = Vec::new();
    let (ta, tb) = (stream_tok(&ba.logical, ba.is_pattern), stream_tok(&bb.logical, bb.is_pattern));
    let (ka, kb) = (!ta.starts_with("z:"), !tb.starts_with("z:"));
    let op = format!(
        "duo {} {} {} {} {} {} {} {} {} {} {} {} {} {}",
        idx, pa.srv, pa.kind, pa.chunk, pa.depth, ta, ba.evs_tok, pa.end.tok(), tb, bb.evs_tok, pb.end.tok(), script, pa.aux(), pb.aux()
    );
    out.begin(&op);
    let addr = sv.addr(&pa.srv, &pa.kind, 0, pa.chunk, pa.depth, 3)?;
    let mut obs: Vec<String> = vec![idx.to_string()];
    let mut steps = 0usize;
    match Conn::connect(sv, &pa.srv, addr) {
        Err(e) => {
            failures.push(("svs.raw.connect".into(), e));
            obs.push("noconn".into());
        }
        Ok(mut conn) => {
            match (do_open(&mut conn, sv, &ra), do_open(&mut conn, sv, &rb)) {
                (Ok(oa), Ok(ob)) => {
                    obs.push(format!("open {} {} {}", oa.format, ob.format, if oa.stream_id != ob.stream_id { "distinct" } else { "same" }));
                    if oa.stream_id == ob.stream_id {
                        failures.push(("svs.duo.same_stream_id".into(), format!("two open streams share id {}", oa.stream_id)));
                    }
                    let mut sta = OracleState::default();
                    let mut stb = OracleState::default();
                    let mut shape = Vec::new();
                    for t in script.split(',') {
                        steps += 1;
                        let is_a = matches!(t, "a" | "A" | "x");
                        let (id, known, end) = if is_a { (oa.stream_id, ka, pa.end) } else { (ob.stream_id, kb, pb.end) };
                        match t {
                            "a" | "b" => {
                                let pl = do_next(&mut conn, sv, id, &mut shape);
                                if is_a { sta.on_pull(&pl, end, &mut failures) } else { stb.on_pull(&pl, end, &mut failures) }
                                obs.push(show_pulled(&pl, known));
                            }
                            "A" | "B" => {
                                let mut toks = Vec::new();
                                for _ in 0..200_000 {
                                    let pl = do_next(&mut conn, sv, id, &mut shape);
                                    if is_a { sta.on_pull(&pl, end, &mut failures) } else { stb.on_pull(&pl, end, &mut failures) }
                                    toks.push(show_pulled(&pl, known));
                                    if !matches!(&pl, Pulled::Chunk { last: 0, .. }) {
                                        break;
                                    }
                                }
                                obs.push(format!("[{}]", toks.join(" ")));
                            }
                            "x" | "y" => {
                                match do_cancel(&mut conn, sv, id, false) {
                                    Ok(()) => obs.push("ack".into()),
                                    Err(e) => {
                                        failures.push(("svs.raw.cancel_failed".into(), e));
                                        obs.push("cancel-failed".into());
                                    }
                                }
                                if is_a { sta.released = true } else { stb.released = true }
                            }
                            _ => return None,
                        }
                    }
                    for s in shape {
                        failures.push(("svs.raw.wire_shape".into(), s));
                    }
                    for (name, st, b) in [("A", &sta, &ba), ("B", &stb, &bb)] {
                        if st.last_seen && st.delivered != b.logical {
                            failures.push(("svs.duo.concat_mismatch".into(), format!("stream {name}: pulled {} bytes, producer emitted {}; first difference {:?}", st.delivered.len(), b.logical.len(), first_diff(&st.delivered, &b.logical))));
                        } else if !st.last_seen && !b.logical.starts_with(&st.delivered) {
                            failures.push(("svs.duo.prefix_mismatch".into(), format!("stream {name}: bytes pulled so far are not a prefix of its producer's bytes")));
                        }
                    }
                }
                (a, b) => {
                    failures.push(("svs.raw.open_failed".into(), format!("{:?} / {:?}", a.err(), b.err())));
                    obs.push("open-failed".into());
                }
            }
            conn.close(sv);
        }
    }
    unregister(&ra);
    unregister(&rb);
    Some(RawResult { op, obs: obs.join(" "), nontrivial: steps >= 3, failures, skip: false, pool: pool_key })
}

fn params_from_duo(w: &[&str]) -> Option<(Params, Params, String)> {
    // duo idx srv kind chunk depth sa ea enda sb eb endb script auxa auxb
    if w.len() != 15 { return None; }
    let mk = |evs: &str, end: &str, aux: &str| -> Option<Params> {
        let mut p = Params {
            srv: w[2].into(), kind: w[3].into(), comp: 0, chunk: w[4].parse().ok()?, depth: w[5].parse().ok()?,
            speed: 'n', len: 0, seed: 0, piece: 8192, interrupt: 0, fail_at: NONE, variant: String::new(),
            evs: vec![], end: End::parse(end)?, level: 3, err_kind: 0,
        };
        p.parse_aux(aux)?;
        if p.kind.starts_with("writer:") { p.evs = parse_evs(evs)?; }
        Some(p)
    };
    Some((mk(w[7], w[8], w[13])?, mk(w[10], w[11], w[14])?, w[12].to_string()))
}

// ------------------------------------------------------------------------------------------
// stalled consumer (async / WebSocket pullers): `pull_consume_async` with a consumer that reads a
// little, sleeps (once long, or several times shorter), then drains.  Runs on its own thread,
// concurrently with the rest of the tier.  One-sided oracle: `Ok` must carry exactly the producer's
// bytes; an `Err`/watchdog on a loaded machine is a skip, never an alarm.
// ------------------------------------------------------------------------------------------
struct StallJob {
    p: Params,
    client: String,
    built_logical: Vec<u8>,
    stream_token: String,
    evs_tok: String,
    resource: String,
    /// the job's result arrives here; waiting is bounded (`budget` from the start)
    rx: std::sync::mpsc::Receiver<HlOut>,
    started: Instant,
    budget: Duration,
}

/// `st<ms>x<count>`
fn parse_stall(v: &str) -> Option<(u64, usize)> {
    let rest = v.strip_prefix("st")?;
    let (ms, n) = rest.split_once('x')?;
    Some((ms.parse().ok()?, n.parse().ok()?))
}

fn start_stall(sv: &mut Servers, p: &Params, client: &str) -> Option<StallJob> {
    let (ms, count) = parse_stall(&p.variant)?;
    let built = build(p)?;
    let resource = register(built.spec.clone());
    let addr = sv.addr(&p.srv, &p.kind, p.comp, p.chunk, p.depth, p.level)?;
    let rt = sv.rt.handle().clone();
    let is_ws = client == "wsc";
    let res = resource.clone();
    let budget = Duration::from_secs(60) + Duration::from_millis(ms * count as u64);
    let (tx_done, rx_done) = std::sync::mpsc::channel();
    std::thread::spawn(move || {
        let r = rt.block_on(async move {
            let consumer = move |mut reader: Box<dyn Read>| -> Result<Vec<u8>, repe::RepeError> {
                let mut got = Vec::new();
                for _ in 0..count {
                    let mut small = [0u8; 16];
                    let n = reader.read(&mut small)?;
                    got.extend_from_slice(&small[..n]);
                    std::thread::sleep(Duration::from_millis(ms));
                }
                reader.read_to_end(&mut got)?;
                Ok(got)
            };
            let fut = async {
                if is_ws {
                    match repe::WebSocketClient::connect(&format!("ws://{}/repe", addr)).await {
                        Ok(c) => repe::pull_consume_async(&c, &res, consumer).await.map(HlOut::Bytes).unwrap_or_else(|e| HlOut::Err(err_class(&e))),
                        Err(e) => HlOut::Err(format!("connect:{e}")),
                    }
                } else {
                    match repe::AsyncClient::connect(addr).await {
                        Ok(c) => repe::pull_consume_async(&c, &res, consumer).await.map(HlOut::Bytes).unwrap_or_else(|e| HlOut::Err(err_class(&e))),
                        Err(e) => HlOut::Err(format!("connect:{e}")),
                    }
                }
            };
            match tokio::time::timeout(budget, fut).await {
                Ok(x) => x,
                Err(_) => HlOut::Timeout,
            }
        });
        let _ = tx_done.send(r);
    });
    Some(StallJob {
        p: p.clone(),
        client: client.to_string(),
        stream_token: stream_tok(&built.logical, built.is_pattern),
        evs_tok: built.evs_tok.clone(),
        built_logical: built.logical,
        resource,
        rx: rx_done,
        started: Instant::now(),
        budget: budget + Duration::from_secs(5),
    })
}

fn finish_stall(job: StallJob, idx: &str) -> RawResult {
    let p = &job.p;
    let paused = p.variant.starts_with("pz");
    let puller = if paused { "vec" } else { "consume" };
    let op = format!(
        "hl {} {} {} {} {} {} {} {} {} {} {} {}",
        idx, p.srv, job.client, puller, p.kind, p.comp, p.chunk, p.depth, job.stream_token, job.evs_tok, p.end.tok(), p.aux()
    );
    // never wait for a call into the code under test without a bound
    let left = job.budget.saturating_sub(job.started.elapsed());
    let result = job.rx.recv_timeout(left).unwrap_or(HlOut::Timeout);
    unregister(&job.resource);
    let mut failures = Vec::new();
    let mut skip = false;
    let obs = match &result {
        HlOut::Bytes(b) => {
            if *b != job.built_logical {
                if paused {
                    failures.push((
                        "svs.hl.vec.paused_bytes_mismatch".to_string(),
                        format!(
                            "pull_to_vec ({} client) with a producer pausing {} reported success with {} bytes, producer emitted {}; first difference {:?}",
                            job.client, p.variant, b.len(), job.built_logical.len(), first_diff(b, &job.built_logical)
                        ),
                    ));
                } else {
                    failures.push((
                        "svs.hl.consume.stalled_bytes_mismatch".to_string(),
                        format!(
                            "pull_consume_async over {} with a consumer stalling {} reported success with {} bytes, producer emitted {}; first difference {:?}",
                            job.client, p.variant, b.len(), job.built_logical.len(), first_diff(b, &job.built_logical)
                        ),
                    ));
                }
            }
            if job.stream_token.starts_with("z:") { format!("{idx} ok {}", b.len()) } else { format!("{idx} ok {} {}", b.len(), fnv(b)) }
        }
        HlOut::Timeout => {
            // the property promises the bytes or an error: a call that never comes back is neither
            failures.push(("svs.hl.call_never_returned".to_string(), format!("{} over {} ({}) did not return within {:?}", puller, job.client, p.variant, job.budget)));
            format!("{idx} timeout")
        }
        // an error is allowed by the property; it says nothing either way
        _ => {
            skip = true;
            format!("{idx} err")
        }
    };
    RawResult { op, obs, nontrivial: true, failures, skip, pool: None }
}

// ------------------------------------------------------------------------------------------
// concurrent opens: n clients on separate connections, released together, each opens and pulls its
// own payload, `rounds` times.  Ids of simultaneously open streams must be pairwise distinct; every
// consumer gets exactly its own payload and exactly one `last`.
// ------------------------------------------------------------------------------------------
fn pat(a: usize, b: usize, n: usize) -> Vec<u8> {
    (0..n).map(|i| ((a * i + b) % 251) as u8).collect()
}

fn exec_conc(sv: &mut Servers, out: &mut Out, idx: &str, srv: &str, chunk: usize, depth: usize, n: usize, rounds: usize, l: usize) -> Option<RawResult> {
    let pool_key: Option<String> = None;
    let op = format!("conc {idx} {srv} {chunk} {depth} {n} {rounds} {l}");
    out.begin(&op);
    let addr = sv.addr(srv, "reader", 0, chunk, depth, 3)?;
    let sv: &Servers = sv;
    let barrier = std::sync::Barrier::new(n);
    // per client: per round (stream id, pulled bytes, lasts, error)
    type RoundRes = (Option<u64>, Vec<u8>, usize, Option<String>);
    let results: Vec<Vec<RoundRes>> = std::thread::scope(|scope| {
        let handles: Vec<_> = (0..n)
            .map(|i| {
                let barrier = &barrier;
                scope.spawn(move || {
                    let mut conn = Conn::connect(sv, srv, addr);
                    let mut res: Vec<RoundRes> = Vec::new();
                    for j in 0..rounds {
                        let data = pat(7, (16 * i + j) % 251, l + 3 * i + j);
                        let spec = Spec {
                            data: Arc::new(data), evs: vec![], piece: 8192, interrupt_every: 0, fail_at: NONE, end: End::Ok, slow_us: 0, err_kind: 0,
                            gate: None, pause: None, value: None, typed_u8: None, typed_f64: None, complex: None,
                        };
                        let resource = register(spec);
                        let mut rr: RoundRes = (None, Vec::new(), 0, None);
                        barrier.wait();
                        let opened = match &mut conn {
                            Ok(c) => do_open(c, sv, &resource).map(|o| o.stream_id),
                            Err(e) => Err(e.clone()),
                        };
                        // everybody holds an open stream now
                        barrier.wait();
                        match (opened, &mut conn) {
                            (Ok(id), Ok(c)) => {
                                rr.0 = Some(id);
                                let mut probs = Vec::new();
                                for _ in 0..100_000 {
                                    match do_next(c, sv, id, &mut probs) {
                                        Pulled::Chunk { body, last } => {
                                            rr.1.extend_from_slice(&body);
                                            if last == 1 {
                                                rr.2 += 1;
                                                break;
                                            }
                                        }
                                        Pulled::Err => { rr.3 = Some("next answered an error".into()); break; }
                                        Pulled::Bad(e) => { rr.3 = Some(e); break; }
                                    }
                                }
                            }
                            (Err(e), _) => rr.3 = Some(format!("open: {e}")),
                            (_, Err(e)) => rr.3 = Some(e.clone()),
                        }
                        // nobody opens the next round's stream before every stream of this one is finished
                        barrier.wait();
                        unregister(&resource);
                        res.push(rr);
                    }
                    if let Ok(c) = conn {
                        c.close(sv);
                    }
                    res
                })
            })
            .collect();
        handles.into_iter().map(|h| h.join().unwrap_or_default()).collect()
    });
    let mut failures: Vec<(String, String)> = Vec::new();
    let mut all_distinct = true;
    let mut toks = Vec::new();
    for j in 0..rounds {
        let mut ids: Vec<u64> = Vec::new();
        for i in 0..n {
            let Some(rr) = results.get(i).and_then(|r| r.get(j)) else {
                failures.push(("svs.conc.client_died".into(), format!("client {i} round {j} has no result")));
                toks.push("none".to_string());
                continue;
            };
            let want = pat(7, (16 * i + j) % 251, l + 3 * i + j);
            if let Some(id) = rr.0 {
                if ids.contains(&id) {
                    all_distinct = false;
                    failures.push(("svs.conc.same_stream_id".into(), format!("round {j}: two simultaneously open streams share id {id}")));
                }
                ids.push(id);
            }
            match &rr.3 {
                Some(e) => {
                    let sig = if e.contains("timeout") { "svs.conc.timeout" } else { "svs.conc.unexpected_error" };
                    failures.push((sig.into(), format!("client {i} round {j}: {e} (healthy producer, own stream)")));
                    toks.push("err".into());
                }
                None => {
                    if rr.1 != want {
                        failures.push(("svs.conc.concat_mismatch".into(), format!("client {i} round {j}: pulled {} bytes, its producer emitted {}; first difference {:?}", rr.1.len(), want.len(), first_diff(&rr.1, &want))));
                    }
                    if rr.2 != 1 {
                        failures.push(("svs.conc.last_count".into(), format!("client {i} round {j}: {} chunks carried last=1", rr.2)));
                    }
                    toks.push(format!("{}:{}:{}", rr.1.len(), fnv(&rr.1), rr.2));
                }
            }
        }
    }
    let obs = format!("{idx} conc {} {}", if all_distinct { "distinct" } else { "same" }, toks.join(" "));
    Some(RawResult { op, obs, nontrivial: true, failures, skip: false, pool: pool_key })
}

// ------------------------------------------------------------------------------------------
// concurrent `next` on ONE stream: k connections, barrier-released, each pulls until it sees `last`
// or an error.  Every chunk must go to exactly one of them; exactly one `last` overall.
// ------------------------------------------------------------------------------------------
fn exec_cnext(sv: &mut Servers, out: &mut Out, idx: &str, p: &Params, k: usize) -> Option<RawResult> {
    let pool_key: Option<String> = None;
    let built = build(p)?;
    let resource = register(built.spec.clone());
    let stream_token = stream_tok(&built.logical, built.is_pattern);
    let known = !stream_token.starts_with("z:");
    let op = format!("cnext {} {} {} {} {} {} {} {}", idx, p.srv, p.chunk, p.depth, k, stream_token, built.evs_tok, p.aux());
    out.begin(&op);
    let addr = sv.addr(&p.srv, &p.kind, 0, p.chunk, p.depth, 3)?;
    let sv: &Servers = sv;
    let mut failures: Vec<(String, String)> = Vec::new();
    let mut toks: Vec<String> = Vec::new();
    let opened = Conn::connect(sv, &p.srv, addr).and_then(|mut c| {
        let r = do_open(&mut c, sv, &resource);
        c.close(sv);
        r
    });
    match opened {
        Err(e) => failures.push(("svs.raw.open_failed".into(), e)),
        Ok(open) if p.srv == "wsc1" => {
            // one connection pipelines k `next`s at a time; the off-reader cap refuses the surplus (another property's error
            // code) — a refused request must not have consumed a chunk: what does come back is still every chunk once, one `last`
            let id = open.stream_id;
            let body = beve::to_vec(&NextRequest { stream_id: id }).unwrap();
            let mut total = 0usize;
            let mut lasts = 0usize;
            let mut gave_up = false;
            match Conn::connect(sv, &p.srv, addr) {
                Err(e) => failures.push(("svs.raw.connect".into(), e)),
                Ok(mut conn) => {
                    let mut refused = 0usize;
                    let t0 = Instant::now();
                    // a sliding window of k outstanding `next`s: every answer is followed at once by a new request
                    let mut outstanding: std::collections::VecDeque<u64> = std::collections::VecDeque::new();
                    let mut over = false;
                    loop {
                        while !over && outstanding.len() < k {
                            match conn.send(sv, "/_svs/next", &body, false) {
                                Ok(rid) => outstanding.push_back(rid),
                                Err(e) => { failures.push(("svs.cnext.send".into(), e)); over = true; }
                            }
                        }
                        let Some(rid) = outstanding.pop_front() else { break };
                        if t0.elapsed() > Duration::from_secs(6) {
                            // refusals are legitimate and can go on for as long as the server likes: no verdict from this case
                            gave_up = true;
                            break;
                        }
                        match conn.wait(sv, rid) {
                            Err(e) => { failures.push((format!("svs.cnext.{}", e.split(':').next().unwrap_or("io").replace(' ', "_")), format!("pipelined next: {e}"))); break; }
                            Ok(f) if f.h.ec == 8 => { refused += 1; }
                            Ok(f) if f.h.ec != 0 => { over = true; }
                            Ok(f) => {
                                let last = f.query.first().copied().unwrap_or(255);
                                total += f.body.len();
                                if last == 1 { lasts += 1; over = true; }
                                toks.push(show_pulled(&Pulled::Chunk { body: f.body, last }, known));
                            }
                        }
                    }
                    out.add("svs.cnext.refused_by_offreader_cap", refused as u64);
                    conn.close(sv);
                }
            }
            if gave_up {
                out.count("svs.cnext.wsc1_gave_up_after_4s");
                unregister(&resource);
                return None;
            }
            if failures.is_empty() {
                if lasts != 1 { failures.push(("svs.cnext.last_count".into(), format!("pipelined consumer under an off-reader cap of 1 saw {lasts} chunks with last=1"))); }
                if total != built.logical.len() { failures.push(("svs.cnext.bytes_total".into(), format!("pipelined consumer under an off-reader cap of 1 received {total} bytes in all, producer emitted {}", built.logical.len()))); }
            }
        }
        Ok(open) => {
            let barrier = std::sync::Barrier::new(k);
            let id = open.stream_id;
            let srv = p.srv.as_str();
            let per: Vec<Vec<Pulled>> = std::thread::scope(|scope| {
                let hs: Vec<_> = (0..k)
                    .map(|_| {
                        let barrier = &barrier;
                        scope.spawn(move || {
                            let mut conn = Conn::connect(sv, srv, addr);
                            barrier.wait();
                            let mut got = Vec::new();
                            if let Ok(c) = &mut conn {
                                let mut probs = Vec::new();
                                for _ in 0..100_000 {
                                    let pl = do_next(c, sv, id, &mut probs);
                                    let stop = !matches!(&pl, Pulled::Chunk { last: 0, .. });
                                    got.push(pl);
                                    if stop {
                                        break;
                                    }
                                }
                            } else {
                                got.push(Pulled::Bad("connect".into()));
                            }
                            if let Ok(c) = conn {
                                c.close(sv);
                            }
                            got
                        })
                    })
                    .collect();
                hs.into_iter().map(|h| h.join().unwrap_or_default()).collect()
            });
            let mut total = 0usize;
            let mut lasts = 0usize;
            for pl in per.iter().flatten() {
                match pl {
                    Pulled::Chunk { body, last } => {
                        total += body.len();
                        if *last == 1 {
                            lasts += 1;
                        }
                        toks.push(show_pulled(pl, known));
                    }
                    Pulled::Err => {}
                    Pulled::Bad(e) => failures.push((format!("svs.cnext.{}", e.split(':').next().unwrap_or("io").replace(' ', "_")), format!("next: {e}"))),
                }
            }
            if failures.is_empty() {
                if lasts != 1 {
                    failures.push(("svs.cnext.last_count".into(), format!("{k} concurrent consumers of one stream saw {lasts} chunks with last=1")));
                }
                if total != built.logical.len() {
                    failures.push(("svs.cnext.bytes_total".into(), format!("{k} concurrent consumers of one stream received {total} bytes in all, producer emitted {}", built.logical.len())));
                }
            }
        }
    }
    unregister(&resource);
    toks.sort();
    let obs = format!("{idx} cnext {}", toks.join(" ")).trim_end().to_string();
    Some(RawResult { op, obs, nontrivial: true, failures, skip: false, pool: pool_key })
}

// ------------------------------------------------------------------------------------------
// many live sessions on one router: n streams opened on ONE connection, one chunk pulled from each,
// then each drained in order.  Each must reproduce its own producer's bytes and end exactly once.
// ------------------------------------------------------------------------------------------
fn exec_many(sv: &mut Servers, out: &mut Out, idx: &str, srv: &str, chunk: usize, depth: usize, n: usize, l: usize) -> Option<RawResult> {
    let pool_key: Option<String> = None;
    let op = format!("many {idx} {srv} {chunk} {depth} {n} {l}");
    out.begin(&op);
    let addr = sv.addr(srv, "reader", 0, chunk, depth, 3)?;
    let sv: &Servers = sv;
    let mut failures: Vec<(String, String)> = Vec::new();
    let mut toks: Vec<String> = Vec::new();
    let mut distinct = true;
    match Conn::connect(sv, srv, addr) {
        Err(e) => failures.push(("svs.raw.connect".into(), e)),
        Ok(mut conn) => {
            let mut streams: Vec<(String, Vec<u8>, Option<u64>, Vec<u8>, usize, Option<String>)> = Vec::new();
            for i in 0..n {
                let want = pat(7, (16 * i) % 251, l + 3 * i);
                let spec = Spec {
                    data: Arc::new(want.clone()), evs: vec![], piece: 8192, interrupt_every: 0, fail_at: NONE, end: End::Ok, slow_us: 0, err_kind: 0,
                    gate: None, pause: None, value: None, typed_u8: None, typed_f64: None, complex: None,
                };
                let resource = register(spec);
                let id = match do_open(&mut conn, sv, &resource) {
                    Ok(o) => Some(o.stream_id),
                    Err(e) => { failures.push(("svs.many.open_failed".into(), format!("stream {i} of {n}: {e}"))); None }
                };
                if let Some(id) = id {
                    if streams.iter().any(|s| s.2 == Some(id)) {
                        distinct = false;
                        failures.push(("svs.many.same_stream_id".into(), format!("stream {i} of {n} got id {id}, which an open stream already has")));
                    }
                }
                streams.push((resource, want, id, Vec::new(), 0, None));
            }
            let mut probs = Vec::new();
            // one pull from each, in order …
            for s in streams.iter_mut() {
                if let Some(id) = s.2 {
                    match do_next(&mut conn, sv, id, &mut probs) {
                        Pulled::Chunk { body, last } => { s.3.extend_from_slice(&body); if last == 1 { s.4 += 1; } }
                        Pulled::Err => s.5 = Some("first `next` answered an error".into()),
                        Pulled::Bad(e) => s.5 = Some(e),
                    }
                }
            }
            // … then, in a shuffled (non-sorted) order, every fifth stream is cancelled and probed, the others pulled to their end
            let mut order: Vec<usize> = (0..streams.len()).collect();
            Rng::new((n * 7919 + l) as u64 | 1).shuffle(&mut order);
            let mut cancelled: Vec<bool> = vec![false; streams.len()];
            for &ix in &order {
                let s = &mut streams[ix];
                if ix % 5 == 3 {
                    if let (Some(id), None, 0) = (s.2, &s.5, s.4) {
                        cancelled[ix] = true;
                        if let Err(e) = do_cancel(&mut conn, sv, id, ix % 2 == 0) {
                            s.5 = Some(format!("cancel: {e}"));
                            continue;
                        }
                        if let Pulled::Chunk { .. } = do_next(&mut conn, sv, id, &mut probs) {
                            failures.push(("svs.many.released_not_error".into(), format!("stream {ix} of {n}: a `next` after its `cancel` returned a chunk")));
                        }
                    }
                    continue;
                }
                if let (Some(id), None, 0) = (s.2, &s.5, s.4) {
                    for _ in 0..100_000 {
                        match do_next(&mut conn, sv, id, &mut probs) {
                            Pulled::Chunk { body, last } => { s.3.extend_from_slice(&body); if last == 1 { s.4 += 1; break; } }
                            Pulled::Err => { s.5 = Some("a later `next` answered an error".into()); break; }
                            Pulled::Bad(e) => { s.5 = Some(e); break; }
                        }
                    }
                }
            }
            for (i, s) in streams.iter().enumerate() {
                match &s.5 {
                    Some(e) => {
                        let sig = if e.contains("timeout") { "svs.many.timeout" } else { "svs.many.unexpected_error" };
                        failures.push((sig.into(), format!("stream {i} of {n} (healthy producer, never released): {e} after {} of {} bytes", s.3.len(), s.1.len())));
                        toks.push("err".into());
                    }
                    None if s.2.is_none() => toks.push("err".into()),
                    None if cancelled[i] => {
                        if !s.1.starts_with(&s.3) {
                            failures.push(("svs.many.prefix_mismatch".into(), format!("stream {i} of {n}: bytes pulled before its cancel are not a prefix of its producer's bytes")));
                        }
                        toks.push("x".into());
                    }
                    None => {
                        if s.3 != s.1 {
                            failures.push(("svs.many.concat_mismatch".into(), format!("stream {i} of {n}: pulled {} bytes, its producer emitted {}; first difference {:?}", s.3.len(), s.1.len(), first_diff(&s.3, &s.1))));
                        }
                        if s.4 != 1 {
                            failures.push(("svs.many.last_count".into(), format!("stream {i} of {n}: {} chunks carried last=1", s.4)));
                        }
                        toks.push(format!("{}:{}:{}", s.3.len(), fnv(&s.3), s.4));
                    }
                }
                unregister(&s.0);
            }
            failures.truncate(6);
            conn.close(sv);
        }
    }
    let obs = format!("{idx} many {} {}", if distinct { "distinct" } else { "same" }, toks.join(" "));
    Some(RawResult { op, obs, nontrivial: n >= 2, failures, skip: false, pool: pool_key })
}

// ------------------------------------------------------------------------------------------
// paused producer (sync pullers): the writer sleeps once, longer than any plausible reply timeout,
// before some chunk; `pull_to_vec` over the blocking `Client` on its own thread.  One-sided: `Ok`
// must carry exactly the producer's bytes; an `Err` is a skip.
// ------------------------------------------------------------------------------------------
fn start_paused(sv: &mut Servers, p: &Params, client: &str) -> Option<StallJob> {
    let built = build(p)?;
    let (_, pause_ms) = built.spec.pause?;
    let resource = register(built.spec.clone());
    let addr = sv.addr(&p.srv, &p.kind, p.comp, p.chunk, p.depth, p.level)?;
    let res = resource.clone();
    let (tx_done, rx_done) = std::sync::mpsc::channel();
    let rt = sv.rt.handle().clone();
    let cl = client.to_string();
    std::thread::spawn(move || {
        let r = match cl.as_str() {
            "sync" => match repe::Client::connect(addr) {
                Err(e) => HlOut::Err(format!("connect:{e}")),
                Ok(c) => match repe::pull_to_vec(&c, &res) {
                    Ok(b) => HlOut::Bytes(b),
                    Err(e) => HlOut::Err(err_class(&e)),
                },
            },
            "async" => rt.block_on(async {
                match repe::AsyncClient::connect(addr).await {
                    Err(e) => HlOut::Err(format!("connect:{e}")),
                    Ok(c) => repe::pull_to_vec_async(&c, &res).await.map(HlOut::Bytes).unwrap_or_else(|e| HlOut::Err(err_class(&e))),
                }
            }),
            _ => rt.block_on(async {
                match repe::WebSocketClient::connect(&format!("ws://{}/repe", addr)).await {
                    Err(e) => HlOut::Err(format!("connect:{e}")),
                    Ok(c) => repe::pull_to_vec_async(&c, &res).await.map(HlOut::Bytes).unwrap_or_else(|e| HlOut::Err(err_class(&e))),
                }
            }),
        };
        let _ = tx_done.send(r);
    });
    Some(StallJob {
        p: p.clone(),
        client: client.to_string(),
        stream_token: stream_tok(&built.logical, built.is_pattern),
        evs_tok: built.evs_tok.clone(),
        built_logical: built.logical,
        resource,
        rx: rx_done,
        started: Instant::now(),
        budget: Duration::from_millis(pause_ms) * 3 + Duration::from_secs(45),
    })
}

// ------------------------------------------------------------------------------------------
// high-level pullers
// ------------------------------------------------------------------------------------------
enum HlOut {
    Bytes(Vec<u8>),
    ValueOk(bool), // decoded; equal to the original?
    Err(String),
    Timeout,
}

fn exec_hl(sv: &mut Servers, out: &mut Out, idx: &str, p: &Params, client: &str, puller: &str) -> Option<RawResult> {
    sv.addr(&p.srv, &p.kind, p.comp, p.chunk, p.depth, p.level)?;
    if sv.sync_clients.len() >= MAX_POOLED_CONNS { let k = sv.sync_clients.keys().next().cloned(); if let Some(k) = k { sv.sync_clients.remove(&k); } }
    if sv.async_clients.len() >= MAX_POOLED_CONNS { let k = sv.async_clients.keys().next().cloned(); if let Some(k) = k { sv.async_clients.remove(&k); } }
    if sv.ws_clients.len() >= MAX_POOLED_CONNS { let k = sv.ws_clients.keys().next().cloned(); if let Some(k) = k { sv.ws_clients.remove(&k); } }
    let built = build(p)?;
    let resource = register(built.spec.clone());
    let mut failures: Vec<(String, String)> = Vec::new();
    let stream_token = stream_tok(&built.logical, built.is_pattern);
    let op = format!(
        "hl {} {} {} {} {} {} {} {} {} {} {} {}",
        idx, p.srv, client, puller, p.kind, p.comp, p.chunk, p.depth, stream_token, built.evs_tok, p.end.tok(), p.aux()
    );
    out.begin(&op);
    let addr = sv.addr(&p.srv, &p.kind, p.comp, p.chunk, p.depth, p.level)?;
    let spec = built.spec.clone();
    let res = resource.clone();
    let pl = puller.to_string();
    let variant = p.variant.clone();
    let kind = p.kind.clone();
    let (seed, len) = (p.seed, p.len);
    let pool_name = format!("hl|{}|{}|{}", client, p.srv, addr);
    let pool_key: Option<String> = Some(pool_name.clone());
    let budget = WATCHDOG + Duration::from_secs(10);
    let file_path = out.dir.join(format!("svs-file-{}.bin", idx));
    let fpath = file_path.clone();
    // a consumer for `pull_consume(_async)`: `cerr` reads everything then fails, `cpart` reads 16 bytes and
    // returns them, `cpanic` reads 16 bytes and panics (payload kind varies)
    fn consume(kind: &str, reader: &mut dyn Read, salt: usize) -> Result<Vec<u8>, repe::RepeError> {
        let mut got = Vec::new();
        match kind {
            "cerr" => {
                reader.read_to_end(&mut got)?;
                Err(repe::RepeError::Io(io::Error::other("consumer rejects")))
            }
            "c1" => {
                // 64 one-byte reads, then reads of 2..7 bytes up to 256, then the rest at once
                let mut one = [0u8; 7];
                loop {
                    let want = if got.len() < 64 { 1 } else if got.len() < 256 { 2 + (got.len() + salt) % 6 } else { break };
                    let k = reader.read(&mut one[..want])?;
                    if k == 0 {
                        return Ok(got);
                    }
                    got.extend_from_slice(&one[..k]);
                }
                reader.read_to_end(&mut got)?;
                Ok(got)
            }
            "cpart" | "cpanic" => {
                let mut small = [0u8; 16];
                let mut n = 0;
                while n < 16 {
                    let k = reader.read(&mut small[n..])?;
                    if k == 0 {
                        break;
                    }
                    n += k;
                }
                got.extend_from_slice(&small[..n]);
                if kind == "cpanic" {
                    match salt % 3 {
                        0 => panic!("consumer panic (str)"),
                        1 => panic!("{}", format!("consumer panic {}", salt)),
                        _ => std::panic::panic_any(salt as u32),
                    }
                }
                Ok(got)
            }
            _ => {
                reader.read_to_end(&mut got)?;
                Ok(got)
            }
        }
    }
    let salt = p.len + p.chunk;
    let result: HlOut = match client {
        "sync" => {
            let (tx, rx) = std::sync::mpsc::channel();
            let pooled = sv.sync_clients.get(&pool_name).cloned();
            std::thread::spawn(move || {
                let mut keep: Option<Arc<repe::Client>> = None;
                let r = catch(|| {
                    (|| -> Result<HlOut, repe::RepeError> {
                        let c = match pooled {
                            Some(c) => c,
                            None => Arc::new(repe::Client::connect(addr)?),
                        };
                        keep = Some(c.clone());
                        let c: &repe::Client = &c;
                        Ok(match pl.as_str() {
                            "vec" => HlOut::Bytes(repe::pull_to_vec(c, &res)?),
                            "file" => {
                                repe::pull_to_file(c, &res, &fpath)?;
                                HlOut::Bytes(std::fs::read(&fpath)?)
                            }
                            "cerr" | "cpart" | "cpanic" | "call" | "c1" => {
                                let k = pl.clone();
                                HlOut::Bytes(repe::pull_consume(c, &res, move |r| consume(&k, r, salt))?)
                            }
                            "value" => match variant.as_str() {
                                "unit" => { repe::pull_value::<()>(c, &res)?; HlOut::ValueOk(true) }
                                "str" => { let s: String = repe::pull_value(c, &res)?; HlOut::ValueOk(Some(ValueCase::Str(s)) == spec.value) }
                                _ => { let r: Rec = repe::pull_value(c, &res)?; HlOut::ValueOk(r == make_rec(seed, len)) }
                            },
                            "typed" => if kind == "typed:f64" {
                                let v: Vec<f64> = repe::pull_typed_slice(c, &res)?;
                                HlOut::ValueOk(spec.typed_f64.as_ref().map(|w| w.iter().map(|x| x.to_bits()).eq(v.iter().map(|x| x.to_bits()))).unwrap_or(false))
                            } else {
                                let v: Vec<u8> = repe::pull_typed_slice(c, &res)?;
                                HlOut::ValueOk(spec.typed_u8.as_ref().map(|w| **w == v).unwrap_or(false))
                            },
                            _ => {
                                let v: Vec<Complex<f32>> = repe::pull_complex_slice(c, &res)?;
                                HlOut::ValueOk(spec.complex.as_ref().map(|w| w.len() == v.len() && w.iter().zip(v.iter()).all(|(a, b)| a.re.to_bits() == b.re.to_bits() && a.im.to_bits() == b.im.to_bits())).unwrap_or(false))
                            }
                        })
                    })()
                });
                let (o, panicked) = match r {
                    Ok(Ok(x)) => (x, false),
                    Ok(Err(e)) => (HlOut::Err(err_class(&e)), false),
                    Err(_) => (HlOut::Err("panic".into()), true),
                };
                // a consumer panic unwinds through the puller: that client is not reused
                let _ = tx.send((o, if panicked { None } else { keep }));
            });
            match rx.recv_timeout(budget) {
                Ok((o, keep)) => {
                    match (&o, keep) {
                        (HlOut::Err(e), _) if e.starts_with("connect") => { sv.sync_clients.remove(&pool_name); }
                        (_, Some(c)) => { sv.sync_clients.insert(pool_name.clone(), c); }
                        (_, None) => { sv.sync_clients.remove(&pool_name); }
                    }
                    o
                }
                Err(_) => {
                    sv.sync_clients.remove(&pool_name);
                    HlOut::Timeout
                }
            }
        }
        _ => {
            let is_ws = client == "wsc";
            let pooled_ws = if is_ws { sv.ws_clients.get(&pool_name).cloned() } else { None };
            let pooled_async = if is_ws { None } else { sv.async_clients.get(&pool_name).cloned() };
            let (o, keep_ws, keep_async) = sv.rt.block_on(async move {
                macro_rules! pulls {
                    ($c:expr) => {{
                        let c = $c;
                        let r: Result<HlOut, repe::RepeError> = async {
                            Ok(match pl.as_str() {
                                "vec" => HlOut::Bytes(repe::pull_to_vec_async(&c, &res).await?),
                                "file" => {
                                    repe::pull_to_file_async(&c, &res, &fpath).await?;
                                    HlOut::Bytes(std::fs::read(&fpath)?)
                                }
                                "cerr" | "cpart" | "cpanic" | "call" | "c1" => {
                                    let k = pl.clone();
                                    HlOut::Bytes(repe::pull_consume_async(&c, &res, move |mut r| consume(&k, &mut r, salt)).await?)
                                }
                                "value" => match variant.as_str() {
                                    "unit" => { repe::pull_value_async::<(), _>(&c, &res).await?; HlOut::ValueOk(true) }
                                    "str" => { let s: String = repe::pull_value_async(&c, &res).await?; HlOut::ValueOk(Some(ValueCase::Str(s)) == spec.value) }
                                    _ => { let r: Rec = repe::pull_value_async(&c, &res).await?; HlOut::ValueOk(r == make_rec(seed, len)) }
                                },
                                "typed" => if kind == "typed:f64" {
                                    let v: Vec<f64> = repe::pull_typed_slice_async(&c, &res).await?;
                                    HlOut::ValueOk(spec.typed_f64.as_ref().map(|w| w.iter().map(|x| x.to_bits()).eq(v.iter().map(|x| x.to_bits()))).unwrap_or(false))
                                } else {
                                    let v: Vec<u8> = repe::pull_typed_slice_async(&c, &res).await?;
                                    HlOut::ValueOk(spec.typed_u8.as_ref().map(|w| **w == v).unwrap_or(false))
                                },
                                _ => {
                                    let v: Vec<Complex<f32>> = repe::pull_complex_slice_async(&c, &res).await?;
                                    HlOut::ValueOk(spec.complex.as_ref().map(|w| w.len() == v.len() && w.iter().zip(v.iter()).all(|(a, b)| a.re.to_bits() == b.re.to_bits() && a.im.to_bits() == b.im.to_bits())).unwrap_or(false))
                                }
                            })
                        }.await;
                        match r { Ok(x) => x, Err(e) => HlOut::Err(err_class(&e)) }
                    }};
                }
                let fut = async {
                    if is_ws {
                        let c = match pooled_ws {
                            Some(c) => Ok(c),
                            None => repe::WebSocketClient::connect(&format!("ws://{}/repe", addr)).await,
                        };
                        match c {
                            Ok(c) => (pulls!(c.clone()), Some(c), None),
                            Err(e) => (HlOut::Err(format!("connect:{e}")), None, None),
                        }
                    } else {
                        let c = match pooled_async {
                            Some(c) => Ok(c),
                            None => repe::AsyncClient::connect(addr).await,
                        };
                        match c {
                            Ok(c) => (pulls!(c.clone()), None, Some(c)),
                            Err(e) => (HlOut::Err(format!("connect:{e}")), None, None),
                        }
                    }
                };
                match tokio::time::timeout(budget, fut).await {
                    Ok(x) => x,
                    Err(_) => (HlOut::Timeout, None, None),
                }
            });
            match keep_ws { Some(c) => { sv.ws_clients.insert(pool_name.clone(), c); } None => { sv.ws_clients.remove(&pool_name); } }
            match keep_async { Some(c) => { sv.async_clients.insert(pool_name.clone(), c); } None => { sv.async_clients.remove(&pool_name); } }
            o
        }
    };
    let _ = std::fs::remove_file(&file_path);
    unregister(&resource);
    let needs_beve = matches!(puller, "value" | "typed" | "complex");
    let expect_bytes: Vec<u8> = if puller == "cpart" || puller == "cpanic" { built.logical[..built.logical.len().min(16)].to_vec() } else { built.logical.clone() };
    let format_is_beve = p.kind == "value" || p.kind.starts_with("typed") || p.kind == "complex" || p.kind == "writer:1";
    let obs = match &result {
        HlOut::Bytes(b) => {
            if p.end != End::Ok {
                failures.push(("svs.hl.fail_returned_ok".into(), format!("{puller} over {client}: producer ended `{}` but the puller returned {} bytes", p.end.tok(), b.len())));
            } else if *b != expect_bytes {
                failures.push((format!("svs.hl.{puller}.bytes_mismatch"), format!("{client}: got {} bytes, expected {} of the producer's {} logical bytes; first difference {:?}", b.len(), expect_bytes.len(), built.logical.len(), first_diff(b, &expect_bytes))));
            }
            if stream_token.starts_with("z:") { format!("{idx} ok {}", b.len()) } else { format!("{idx} ok {} {}", b.len(), fnv(b)) }
        }
        HlOut::ValueOk(eq) => {
            if p.end != End::Ok {
                failures.push(("svs.hl.fail_returned_ok".into(), format!("{puller} over {client}: producer ended `{}` but the puller returned a value", p.end.tok())));
            } else if !eq {
                failures.push((format!("svs.hl.{puller}.value_mismatch"), format!("{client}: decoded value differs from the producer's")));
            }
            format!("{idx} ok")
        }
        HlOut::Err(e) => {
            if e.starts_with("connect:") {
                failures.push(("svs.hl.connect".into(), e.clone()));
            } else if p.end == End::Ok && !(needs_beve && !format_is_beve) && puller != "cerr" && puller != "cpanic" {
                failures.push(("svs.hl.unexpected_error".into(), format!("{puller} over {client}: healthy producer, puller returned {e}")));
            }
            format!("{idx} err")
        }
        HlOut::Timeout => {
            failures.push(("svs.hl.timeout".into(), format!("{puller} over {client} did not return within the watchdog")));
            format!("{idx} timeout")
        }
    };
    Some(RawResult { op, obs, nontrivial: built.logical.len() > p.chunk || p.end != End::Ok, failures, skip: false, pool: pool_key })
}

// ------------------------------------------------------------------------------------------
// scripted peer: a router whose `/_svs/*` handlers answer from a script — ANY list of answers (chunks with any
// query bytes, every error code, a wrong version / compression tag) reaches the crate's pullers
// ------------------------------------------------------------------------------------------
#[derive(Clone, Debug)]
enum PeerResp {
    Chunk(usize, Vec<u8>),
    Error(u32),
}
#[derive(Clone, Debug)]
struct PeerScript {
    version: u8,
    compression: u8,
    format: u16,
    resps: Vec<PeerResp>,
}
fn peer_scripts() -> &'static Mutex<HashMap<String, PeerScript>> {
    static S: OnceLock<Mutex<HashMap<String, PeerScript>>> = OnceLock::new();
    S.get_or_init(|| Mutex::new(HashMap::new()))
}
fn peer_streams() -> &'static Mutex<HashMap<u64, (Vec<PeerResp>, usize)>> {
    static S: OnceLock<Mutex<HashMap<u64, (Vec<PeerResp>, usize)>>> = OnceLock::new();
    S.get_or_init(|| Mutex::new(HashMap::new()))
}
fn code_of(n: u32) -> repe::ErrorCode {
    repe::ErrorCode::try_from(n).unwrap_or(repe::ErrorCode::InternalError)
}
struct PeerOpen;
struct PeerNext;
struct PeerCancel;
static PEER_ID: AtomicU64 = AtomicU64::new(1);
impl repe::server::HandlerErased for PeerOpen {
    fn handle(&self, req: &repe::Message) -> Result<repe::Message, repe::RepeError> {
        let o: OpenRequest = beve::from_slice(&req.body).map_err(|_| repe::RepeError::ServerError { code: repe::ErrorCode::InvalidBody, message: "open".into() })?;
        let Some(sc) = peer_scripts().lock().unwrap().get(&o.resource).cloned() else {
            return Err(repe::RepeError::ServerError { code: repe::ErrorCode::MethodNotFound, message: "no script".into() });
        };
        let id = PEER_ID.fetch_add(1, Ordering::Relaxed);
        peer_streams().lock().unwrap().insert(id, (sc.resps.clone(), 0));
        let body = beve::to_vec(&OpenResponse { version: sc.version, stream_id: id, format: sc.format, compression: sc.compression }).unwrap();
        Ok(repe::Message::builder().id(req.header.id).body_bytes(body).body_format_code(1).build())
    }
}
impl repe::server::HandlerErased for PeerNext {
    fn handle(&self, req: &repe::Message) -> Result<repe::Message, repe::RepeError> {
        let n: NextRequest = beve::from_slice(&req.body).map_err(|_| repe::RepeError::ServerError { code: repe::ErrorCode::InvalidBody, message: "next".into() })?;
        let mut t = peer_streams().lock().unwrap();
        let Some((resps, pos)) = t.get_mut(&n.stream_id) else {
            return Err(repe::RepeError::ServerError { code: repe::ErrorCode::InvalidQuery, message: "unknown".into() });
        };
        let r = resps.get(*pos).cloned();
        *pos += 1;
        match r {
            None => Err(repe::RepeError::ServerError { code: repe::ErrorCode::InvalidQuery, message: "script exhausted".into() }),
            Some(PeerResp::Error(c)) => Err(repe::RepeError::ServerError { code: code_of(c), message: "scripted".into() }),
            Some(PeerResp::Chunk(len, q)) => Ok(repe::Message::builder().id(req.header.id).query_format_code(0).query_bytes(q).body_format_code(0).body_bytes(pat(7, *pos, len)).build()),
        }
    }
}
impl repe::server::HandlerErased for PeerCancel {
    fn handle(&self, req: &repe::Message) -> Result<repe::Message, repe::RepeError> {
        if let Ok(c) = beve::from_slice::<CancelRequest>(&req.body) {
            peer_streams().lock().unwrap().remove(&c.stream_id);
        }
        Ok(repe::Message::builder().id(req.header.id).body_bytes(beve::to_vec(&true).unwrap()).body_format_code(1).build())
    }
}

fn parse_peer(open: &str, resps: &str) -> Option<PeerScript> {
    let mut sc = PeerScript { version: 1, compression: 0, format: 0, resps: vec![] };
    for part in open.split('.') {
        let (k, v) = part.split_at(1);
        match k { "v" => sc.version = v.parse().ok()?, "z" => sc.compression = v.parse().ok()?, "f" => sc.format = v.parse().ok()?, _ => return None }
    }
    if resps != "-" {
        for t in resps.split(',') {
            if let Some(c) = t.strip_prefix('e') {
                sc.resps.push(PeerResp::Error(c.parse().ok()?));
            } else {
                let (l, q) = t.strip_prefix('c')?.split_once('q')?;
                sc.resps.push(PeerResp::Chunk(l.parse().ok()?, unhex(q)?));
            }
        }
    }
    Some(sc)
}

fn exec_peer(sv: &mut Servers, out: &mut Out, idx: &str, srv: &str, client: &str, puller: &str, open: &str, resps: &str) -> Option<RawResult> {
    let sc = parse_peer(open, resps)?;
    let op = format!("peer {idx} {srv} {client} {puller} {open} {resps}");
    out.begin(&op);
    let addr = sv.addr(srv, "peer", 0, 1, 0, 3)?;
    let resource = format!("peer-{}", RES_COUNTER.fetch_add(1, Ordering::Relaxed));
    peer_scripts().lock().unwrap().insert(resource.clone(), sc.clone());
    // the harness's own reading of the script: bytes up to the first answer whose query starts with 1, unless an error (or the end of
    // the script, which answers an error) comes first; a bad version / compression tag makes every puller refuse
    let mut expect: Option<Vec<u8>> = None;
    if sc.version == 1 && sc.compression == 0 {
        let mut acc = Vec::new();
        for (j, r) in sc.resps.iter().enumerate() {
            match r {
                PeerResp::Error(_) => break,
                PeerResp::Chunk(len, q) => {
                    acc.extend(pat(7, j + 1, *len));
                    if q.first() == Some(&1) { expect = Some(acc.clone()); break; }
                }
            }
        }
    }
    let res = resource.clone();
    let pl = puller.to_string();
    let budget = WATCHDOG + Duration::from_secs(10);
    fn all(reader: &mut dyn Read, tiny: bool) -> Result<Vec<u8>, repe::RepeError> {
        let mut got = Vec::new();
        if tiny {
            let mut one = [0u8; 1];
            while got.len() < 40 {
                if reader.read(&mut one)? == 0 { return Ok(got); }
                got.push(one[0]);
            }
        }
        reader.read_to_end(&mut got)?;
        Ok(got)
    }
    let result: HlOut = match client {
        "sync" => {
            let (tx, rx) = std::sync::mpsc::channel();
            std::thread::spawn(move || {
                let r = (|| -> Result<Vec<u8>, repe::RepeError> {
                    let c = repe::Client::connect(addr)?;
                    match pl.as_str() {
                        "vec" => repe::pull_to_vec(&c, &res),
                        _ => { let tiny = pl == "c1"; repe::pull_consume(&c, &res, move |r| all(r, tiny)) }
                    }
                })();
                let _ = tx.send(match r { Ok(b) => HlOut::Bytes(b), Err(e) => HlOut::Err(err_class(&e)) });
            });
            rx.recv_timeout(budget).unwrap_or(HlOut::Timeout)
        }
        _ => {
            let is_ws = client == "wsc";
            sv.rt.block_on(async move {
                let fut = async {
                    macro_rules! go { ($c:expr) => {{ let c = $c; let r = match pl.as_str() {
                        "vec" => repe::pull_to_vec_async(&c, &res).await,
                        _ => { let tiny = pl == "c1"; repe::pull_consume_async(&c, &res, move |mut r| all(&mut r, tiny)).await }
                    }; match r { Ok(b) => HlOut::Bytes(b), Err(e) => HlOut::Err(err_class(&e)) } }}; }
                    if is_ws {
                        match repe::WebSocketClient::connect(&format!("ws://{}/repe", addr)).await { Ok(c) => go!(c), Err(e) => HlOut::Err(format!("connect:{e}")) }
                    } else {
                        match repe::AsyncClient::connect(addr).await { Ok(c) => go!(c), Err(e) => HlOut::Err(format!("connect:{e}")) }
                    }
                };
                tokio::time::timeout(budget, fut).await.unwrap_or(HlOut::Timeout)
            })
        }
    };
    peer_scripts().lock().unwrap().remove(&resource);
    let mut failures = Vec::new();
    let obs = match (&result, &expect) {
        (HlOut::Bytes(b), Some(e)) => {
            if b != e { failures.push(("svs.peer.bytes_mismatch".to_string(), format!("{puller} over {client}: got {} bytes, the answers up to the end marker carry {}; first difference {:?}", b.len(), e.len(), first_diff(b, e)))); }
            format!("{idx} ok {} {}", b.len(), fnv(b))
        }
        (HlOut::Bytes(b), None) => {
            failures.push(("svs.peer.error_swallowed".to_string(), format!("{puller} over {client}: the peer answered an error (or a bad tag) before any end marker, yet the puller returned Ok with {} bytes", b.len())));
            format!("{idx} ok {} {}", b.len(), fnv(b))
        }
        (HlOut::Err(e), Some(_)) => {
            if e.starts_with("connect") { failures.push(("svs.hl.connect".to_string(), e.clone())); }
            else { failures.push(("svs.peer.unexpected_error".to_string(), format!("{puller} over {client}: every answer up to the end marker was a chunk, yet the puller returned {e}"))); }
            format!("{idx} err")
        }
        (HlOut::Err(e), None) => { if e.starts_with("connect") { failures.push(("svs.hl.connect".to_string(), e.clone())); } format!("{idx} err") }
        (HlOut::Timeout, _) => { failures.push(("svs.peer.call_never_returned".to_string(), format!("{puller} over {client} did not return within {budget:?}"))); format!("{idx} timeout") }
        (HlOut::ValueOk(_), _) => format!("{idx} ?"),
    };
    Some(RawResult { op, obs, nontrivial: sc.resps.len() >= 2, failures, skip: false, pool: None })
}

// ------------------------------------------------------------------------------------------
// entry points of the anchored file, mechanically
// ------------------------------------------------------------------------------------------
/// `pub fn` / `pub async fn` / trait methods of `value_stream.rs` this family calls (directly, by name).
const DRIVEN: [&str; 19] = [
    "with_value_stream", "with_typed_value_stream", "with_complex_value_stream", "with_reader_stream", "with_writer_stream",
    "pull_value", "pull_to_vec", "pull_consume", "pull_to_file", "pull_typed_slice", "pull_complex_slice",
    "pull_value_async", "pull_typed_slice_async", "pull_complex_slice_async", "pull_consume_async", "pull_to_file_async", "pull_to_vec_async",
    "svs_call", "svs_notify",
];
/// … and the ones it does not, with the reason.
const NOT_DRIVEN: [(&str, &str); 6] = [
    ("pull_stream", "reached through pull_value (StreamOutput::Value) and pull_to_file (RawFile); its file outputs are C10's family `commit`"),
    ("pull_to_beve_zst_file", "commit protocol: C10's family"),
    ("pull_to_beve_file", "commit protocol: C10's family"),
    ("pull_to_file_trailer_verified", "commit protocol + TrailerHold: C10's family"),
    ("pull_to_file_verified_async", "commit protocol: C10's family"),
    ("pull_to_file_trailer_verified_async", "commit protocol + TrailerHold: C10's family"),
];

fn entry_point_audit(out: &mut Out) -> Vec<String> {
    let repo = std::env::var("VERIF_REPO").unwrap_or_else(|_| "/repo".into());
    let text = std::fs::read_to_string(std::path::Path::new(&repo).join("src").join("value_stream.rs")).unwrap_or_default();
    let text = text.split("#[cfg(test)]").next().unwrap_or("").to_string();
    let mut names: Vec<String> = Vec::new();
    let mut in_pub_trait = false;
    for line in text.lines() {
        let t = line.trim_start();
        if t.starts_with("pub trait ") { in_pub_trait = true; }
        if line.starts_with('}') { in_pub_trait = false; }
        let mut pres: Vec<&str> = vec!["pub async fn ", "pub fn "];
        if in_pub_trait { pres.extend(["async fn ", "fn "]); }
        for pre in pres {
            if let Some(rest) = t.strip_prefix(pre) {
                let name: String = rest.chars().take_while(|c| c.is_alphanumeric() || *c == '_').collect();
                if !name.is_empty() && !names.contains(&name) { names.push(name); }
            }
        }
    }
    let mut missing = Vec::new();
    for n in &names {
        if !DRIVEN.contains(&n.as_str()) && !NOT_DRIVEN.iter().any(|(k, _)| k == n) {
            out.count(&format!("svs.NOT_DRIVEN.{n}"));
            missing.push(n.clone());
        }
    }
    out.extra.insert("entry_points".into(), serde_json::json!({"found": names, "not_driven": missing,
        "not_driven_because": NOT_DRIVEN.iter().map(|(k, v)| format!("{k}: {v}")).collect::<Vec<_>>() }));
    out.extra.insert("not_driven".into(), serde_json::json!(missing));
    if !missing.is_empty() {
        eprintln!("svs: public entry points of value_stream.rs NOT DRIVEN by this family: {:?}", missing);
    }
    missing
}

// ------------------------------------------------------------------------------------------
// running an op (fresh or replayed) and bookkeeping
// ------------------------------------------------------------------------------------------
fn params_from_raw(w: &[&str]) -> Option<(Params, String)> {
    // raw idx srv kind comp chunk depth speed stream evs end script aux
    if w.len() != 13 { return None; }
    let mut p = Params {
        srv: w[2].into(), kind: w[3].into(), comp: w[4].parse().ok()?, chunk: w[5].parse().ok()?, depth: w[6].parse().ok()?,
        speed: w[7].chars().next()?, len: 0, seed: 0, piece: 8192, interrupt: 0, fail_at: NONE, variant: String::new(),
        evs: vec![], end: End::parse(w[10])?, level: 3, err_kind: 0,
    };
    p.parse_aux(w[12])?;
    if p.kind.starts_with("writer:") && p.comp == 0 { p.evs = parse_evs(w[9])?; }
    if p.kind.starts_with("writer:") && p.comp == 1 { p.evs = parse_evs(&p.variant.replace('_', ",").replace("e=", "")).unwrap_or_default(); }
    Some((p, w[11].to_string()))
}

fn params_from_hl(w: &[&str]) -> Option<(Params, String, String)> {
    // hl idx srv client puller kind comp chunk depth stream evs end aux
    if w.len() != 13 { return None; }
    let mut p = Params {
        srv: w[2].into(), kind: w[5].into(), comp: w[6].parse().ok()?, chunk: w[7].parse().ok()?, depth: w[8].parse().ok()?,
        speed: 'n', len: 0, seed: 0, piece: 8192, interrupt: 0, fail_at: NONE, variant: String::new(),
        evs: vec![], end: End::parse(w[11])?, level: 3, err_kind: 0,
    };
    p.parse_aux(w[12])?;
    if p.kind.starts_with("writer:") { p.evs = parse_evs(w[10])?; }
    Some((p, w[3].to_string(), w[4].to_string()))
}

struct Runner {
    sv: Servers,
    out: Out,
    n: usize,
    timeouts: usize,
    recent: HashMap<String, Vec<String>>,
    /// the deeper search `check` starts after a broken proof / correspondence is bounded in time
    deadline: Option<Instant>,
}

impl Runner {
    fn expired(&self) -> bool {
        self.deadline.map(|d| Instant::now() > d).unwrap_or(false)
    }
    fn finish_case(&mut self, r: RawResult) {
        if r.skip && r.failures.is_empty() {
            self.out.count("svs.zstd.second_pull_differs_skipped");
            return;
        }
        // a replay of a case that ran on a long-lived connection / client starts with that object's recent cases
        let mut ops: Vec<String> = r.pool.as_ref().and_then(|k| self.recent.get(k)).cloned().unwrap_or_default();
        ops.push(r.op.clone());
        if let Some(k) = &r.pool {
            let h = self.recent.entry(k.clone()).or_default();
            h.push(r.op.clone());
            if h.len() > 3 {
                h.remove(0);
            }
        }
        for (sig, detail) in &r.failures {
            self.out.oracle_fail(sig, detail, &ops);
            if sig.contains("timeout") {
                self.timeouts += 1;
            }
        }
        self.out.case(&r.op, &r.obs, r.nontrivial);
        if self.out.oracle_failures >= 12 || self.expired() {
            // enough failing inputs (or the search budget is used up): finish now so the verdict comes quickly
            self.out.count(if self.expired() { "svs.stopped_at_search_budget" } else { "svs.stopped_after_12_failures" });
            let spare = self.out.dir.join("spare");
            let _ = std::fs::create_dir_all(&spare);
            let out = std::mem::replace(&mut self.out, Out::new(&spare));
            out.finish();
            std::process::exit(0);
        }
        if self.timeouts >= 3 {
            // hung producers keep spinning; every further case would only wait for the watchdog again
            self.out.count("svs.aborted_after_timeouts");
            let spare = self.out.dir.join("spare");
            let _ = std::fs::create_dir_all(&spare);
            let out = std::mem::replace(&mut self.out, Out::new(&spare));
            out.finish();
            std::process::exit(0);
        }
    }
    fn raw(&mut self, p: &Params, script: &str) {
        self.n += 1;
        let idx = format!("{}", self.n);
        self.count(p, "raw");
        self.out.count(&format!("svs.script.{}", script.replace(',', "")));
        match exec_raw(&mut self.sv, &mut self.out, &idx, p, script) {
            Some(r) => self.finish_case(r),
            None => self.out.count("svs.generator.unbuildable"),
        }
    }
    fn stall_start(&mut self, p: &Params, client: &str) -> Option<StallJob> {
        self.count(p, "stall");
        self.out.count(&format!("svs.hl.{client}.consume.{}", p.variant));
        let j = start_stall(&mut self.sv, p, client);
        if j.is_none() {
            self.out.count("svs.generator.unbuildable");
        }
        j
    }
    fn paused_start(&mut self, p: &Params, client: &str) -> Option<StallJob> {
        self.count(p, "paused");
        self.out.count(&format!("svs.hl.{client}.vec.{}", p.variant));
        let j = start_paused(&mut self.sv, p, client);
        if j.is_none() {
            self.out.count("svs.generator.unbuildable");
        }
        j
    }
    fn cnext(&mut self, p: &Params, k: usize) {
        self.n += 1;
        let idx = format!("{}", self.n);
        self.count(p, "cnext");
        match exec_cnext(&mut self.sv, &mut self.out, &idx, p, k) {
            Some(r) => self.finish_case(r),
            None => self.out.count("svs.generator.unbuildable"),
        }
    }
    fn many(&mut self, srv: &str, chunk: usize, depth: usize, n: usize, l: usize) {
        self.n += 1;
        let idx = format!("{}", self.n);
        self.out.count("svs.op.many");
        self.out.count(&format!("svs.many.live{n}"));
        match exec_many(&mut self.sv, &mut self.out, &idx, srv, chunk, depth, n, l) {
            Some(r) => self.finish_case(r),
            None => self.out.count("svs.generator.unbuildable"),
        }
    }
    fn peer(&mut self, srv: &str, client: &str, puller: &str, open: &str, resps: &str) {
        self.n += 1;
        let idx = format!("{}", self.n);
        self.out.count("svs.op.peer");
        self.out.count(&format!("svs.peer.{client}.{puller}"));
        match exec_peer(&mut self.sv, &mut self.out, &idx, srv, client, puller, open, resps) {
            Some(r) => self.finish_case(r),
            None => self.out.count("svs.generator.unbuildable"),
        }
    }
    fn conc(&mut self, srv: &str, chunk: usize, depth: usize, n: usize, rounds: usize, l: usize) {
        self.n += 1;
        let idx = format!("{}", self.n);
        self.out.count("svs.op.conc");
        self.out.count(&format!("svs.conc.{srv}.clients{n}"));
        match exec_conc(&mut self.sv, &mut self.out, &idx, srv, chunk, depth, n, rounds, l) {
            Some(r) => self.finish_case(r),
            None => self.out.count("svs.generator.unbuildable"),
        }
    }
    fn stall_finish(&mut self, job: StallJob) {
        self.n += 1;
        let idx = format!("{}", self.n);
        let r = finish_stall(job, &idx);
        self.finish_case(r);
    }
    fn duo(&mut self, pa: &Params, pb: &Params, script: &str) {
        self.n += 1;
        let idx = format!("{}", self.n);
        self.count(pa, "duo");
        match exec_duo(&mut self.sv, &mut self.out, &idx, pa, pb, script) {
            Some(r) => self.finish_case(r),
            None => self.out.count("svs.generator.unbuildable"),
        }
    }
    fn hl(&mut self, p: &Params, client: &str, puller: &str) {
        self.n += 1;
        let idx = format!("{}", self.n);
        self.count(p, "hl");
        self.out.count(&format!("svs.hl.{client}.{puller}"));
        match exec_hl(&mut self.sv, &mut self.out, &idx, p, client, puller) {
            Some(r) => self.finish_case(r),
            None => self.out.count("svs.generator.unbuildable"),
        }
    }
    fn count(&mut self, p: &Params, what: &str) {
        let o = &mut self.out;
        o.count(&format!("svs.op.{what}"));
        o.count(&format!("svs.kind.{}", p.kind));
        o.count(&format!("svs.srv.{}", p.srv));
        o.count(&format!("svs.comp.{}", p.comp));
        if p.comp == 1 {
            o.count(&format!("svs.zstd_level.{}", p.level));
        }
        o.count(&format!("svs.chunk.{}", p.chunk));
        o.count(&format!("svs.depth.{}", p.depth));
        o.count(&format!("svs.end.{}", p.end.tok()));
        o.count(&format!("svs.speed.{}", p.speed));
    }
}

/// Writer events that split `n` bytes at random points, with flushes and empty writes sprinkled in.
fn random_evs(r: &mut Rng, n: usize, chunk: usize) -> Vec<Ev> {
    let mut evs = Vec::new();
    let mut left = n;
    while left > 0 {
        if r.chance(1, 5) { evs.push(Ev::F); }
        if r.chance(1, 12) { evs.push(Ev::W(0)); }
        let max = match r.below(4) { 0 => 1, 1 => chunk.max(1), 2 => 3 * chunk.max(1), _ => left };
        let k = (1 + r.below(max.min(left) as u64) as usize).min(left);
        // bias to exact chunk boundaries
        let k = if r.chance(1, 4) && chunk <= left { chunk } else { k };
        evs.push(Ev::W(k));
        left -= k;
    }
    if r.chance(1, 3) { evs.push(Ev::F); }
    evs
}

/// zstd levels exercised whenever compression is on: fast (negative), 0 = zstd's default, low, high, max.
const ZSTD_LEVELS: [i32; 7] = [-7, -1, 0, 1, 3, 19, 22];
static LEVEL_ROT: AtomicU64 = AtomicU64::new(0);

fn base(srv: &str, kind: &str, comp: u8, chunk: usize, depth: usize) -> Params {
    // the ultra levels allocate a 128 MiB window per stream: a few cases each per run, the rest cycles the cheap ones
    let level = if comp == 1 {
        let k = LEVEL_ROT.fetch_add(1, Ordering::Relaxed);
        match k % 40 {
            7 if k % 80 == 7 => 19,
            31 if k % 80 == 31 => -131072,      // ZSTD_minCLevel
            23 if k % 200 == 23 => 22,
            _ => ZSTD_LEVELS[(k % 5) as usize],
        }
    } else {
        3
    };
    Params { srv: srv.into(), kind: kind.into(), comp, chunk, depth, speed: 'n', len: 0, seed: 0, piece: 8192, interrupt: 0, fail_at: NONE, variant: String::new(), evs: vec![], end: End::Ok, level, err_kind: 0 }
}

/// Parameters that make `kind` emit (as close as possible to) `target` logical bytes.
fn sized(r: &mut Rng, mut p: Params, target: usize) -> Params {
    match p.kind.as_str() {
        "reader" => { p.len = target; p.piece = *r.pick(&[1usize, 5, 4096, 8192, 100_000]); if target > 65536 { p.piece = 8192; } }
        k if k.starts_with("writer:") => { p.evs = if target > 65536 { big_evs(r, target, p.chunk) } else { random_evs(r, target, p.chunk) }; }
        "value" => {
            if target > 100 && r.chance(1, 3) { p.variant = "rec".into(); p.seed = 1 + r.below(1000); p.len = target / 8; }
            else if target <= 1 { p.variant = "unit".into(); }
            else { p.variant = "str".into(); p.seed = 1 + r.below(1000);
                   // 1 header byte + compressed size (1/2/4/8 bytes) + n
                   let n = if target <= 65 { target - 2 } else if target <= 16386 { target.saturating_sub(3).max(64) } else { target.saturating_sub(5).max(16384) };
                   p.len = n; }
        }
        "typed:u8" => { p.seed = 1 + r.below(1000); p.len = if target <= 65 { target.saturating_sub(2) } else if target <= 16386 { target.saturating_sub(3).max(64) } else { target.saturating_sub(5).max(16384) }; }
        "typed:f64" => { p.seed = 1 + r.below(1000); p.len = target / 8; }
        "complex" => { p.seed = 1 + r.below(1000); p.len = target / 8; }
        _ => {}
    }
    p
}

fn big_evs(r: &mut Rng, n: usize, chunk: usize) -> Vec<Ev> {
    // a few large writes around chunk boundaries
    let mut evs = Vec::new();
    let mut left = n;
    while left > 0 {
        let k = match r.below(4) { 0 => chunk, 1 => chunk.saturating_sub(1).max(1), 2 => chunk + 1, _ => left }.min(left).max(1);
        evs.push(Ev::W(k));
        if r.chance(1, 4) { evs.push(Ev::F); }
        left -= k;
    }
    evs
}

fn boundary_lengths(chunk: usize, kmax: usize) -> Vec<usize> {
    let mut v = Vec::new();
    for k in 0..=kmax {
        for d in [-1i64, 0, 1] {
            let n = (k * chunk) as i64 + d;
            if n >= 0 && !v.contains(&(n as usize)) { v.push(n as usize); }
        }
    }
    v
}

fn main() {
    let args = Args::parse();
    quiet_panics();
    let mut run = Runner { sv: Servers::new(), out: Out::new(&args.out), n: 0, timeouts: 0, recent: HashMap::new(), deadline: if args.out.to_string_lossy().ends_with("-search") { Some(Instant::now() + Duration::from_secs(150)) } else { None } };
    run.out.rule = "real Server (tcp) and WebSocketServer (ws), every producer kind (value: unit/string/struct; typed u8/f64; complex f32; reader with 1..100000-byte reads, Interrupted reads; writer with random write/flush scripts), chunk sizes {1,2,3,7,64,4096,1MiB}, payload lengths k*chunk-1,k*chunk,k*chunk+1 for k=0..4 plus random, depths 0..8, zstd on/off (for zstd the compressed stream is recorded from a separate pull of the same resource), slow producer / slow consumer, failure (Err and panic) injected at k*chunk-1,k*chunk,k*chunk+1 written bytes, scripts of next/cancel (request and notify)/next-past-the-end; then pull_to_vec, pull_value, pull_typed_slice, pull_complex_slice and their async forms over Client, AsyncClient and WebSocketClient. Distinct by op line without its index; non-trivial = at least two pulls or three script steps (raw), payload longer than one chunk or failing producer (hl)".into();
    if std::env::args().any(|a| a == "--check-entry-points") {
        let missing = entry_point_audit(&mut run.out);
        println!("value_stream.rs entry points not driven by the svs family: {:?}", missing);
        std::process::exit(if missing.is_empty() { 0 } else { 1 });
    }
    entry_point_audit(&mut run.out);
    if let Some(ops) = args.replay_ops() {
        for l in ops {
            let w = words(&l);
            match w.first().copied() {
                Some("raw") => if let Some((p, script)) = params_from_raw(&w) { run.raw(&p, &script); },
                Some("hl") => if let Some((p, client, puller)) = params_from_hl(&w) {
                    if puller == "consume" {
                        if let Some(j) = run.stall_start(&p, &client) { run.stall_finish(j); }
                    } else if puller == "vec" && p.variant.starts_with("pz") {
                        if let Some(j) = run.paused_start(&p, &client) { run.stall_finish(j); }
                    } else {
                        run.hl(&p, &client, &puller);
                    }
                },
                Some("cnext") if w.len() == 9 => {
                    let mut p = base(w[2], "reader", 0, w[3].parse().unwrap_or(1), w[4].parse().unwrap_or(0));
                    if p.parse_aux(w[8]).is_some() && p.chunk >= 1 {
                        run.cnext(&p, w[5].parse::<usize>().unwrap_or(2).clamp(1, 16));
                    }
                }
                Some("peer") if w.len() == 7 => run.peer(w[2], w[3], w[4], w[5], w[6]),
                Some("many") if w.len() == 7 => {
                    let f: Vec<usize> = w[3..7].iter().filter_map(|x| x.parse().ok()).collect();
                    if f.len() == 4 && f[0] >= 1 && f[2] <= 5000 { run.many(w[2], f[0], f[1], f[2], f[3]); }
                }
                Some("conc") if w.len() == 8 => {
                    let f: Vec<usize> = w[3..8].iter().filter_map(|x| x.parse().ok()).collect();
                    if f.len() == 5 && f[2] >= 1 && f[2] <= 32 { run.conc(w[2], f[0], f[1], f[2], f[3], f[4]); }
                }
                Some("duo") => if let Some((pa, pb, script)) = params_from_duo(&w) { run.duo(&pa, &pb, &script); },
                _ => {}
            }
        }
        run.out.finish();
        std::process::exit(0);
    }
    // `--lite`: the quick-size generators whatever the tier (the release-profile leg of the thorough tier)
    let thorough = args.thorough() && !args.has("--lite");
    let mut r = Rng::new(args.seed);
    let kinds = ["reader", "writer:0", "value", "typed:u8", "typed:f64", "complex"];
    let small_chunks = [1usize, 2, 3, 7, 64, 4096];
    let srvs = ["tcp", "ws"];
    let mut rot = r.below(1000) as usize;

    // (S) stalled consumers on the async / WebSocket pullers, on their own threads for the whole run
    let mut stall_jobs: Vec<StallJob> = Vec::new();
    {
        let mut specs: Vec<(&str, &str, u8, &str)> = vec![("tcp", "async", 0, "st2800x1"), ("ws", "wsc", 0, "st2800x1"), ("tcp", "async", 0, "st700x4"), ("ws", "wsc", 0, "st700x4"),
            ("tcp", "async", 0, "st300x3"), ("ws", "wsc", 0, "st600x2"), ("tcp", "async", 0, "st1100x2"), ("ws", "wsc", 0, "st1100x1")];
        if thorough {
            specs.extend([("tcp", "async", 0, "st6000x1"), ("ws", "wsc", 0, "st6000x1"), ("tcp", "async", 0, "st12000x1"), ("ws", "wsc", 0, "st12000x1"),
                          ("tcp", "async", 1, "st2800x1"), ("ws", "wsc", 1, "st6000x1"), ("tcp", "async", 0, "st2300x3"), ("ws", "wsc", 0, "st2300x3")]);
        }
        for (srv, client, comp, st) in specs {
            let chunk = *r.pick(&[512usize, 1024, 2048]);
            let mut p = base(srv, "reader", comp, chunk, 4);
            p.len = chunk * (24 + r.below(24) as usize) + r.below(3) as usize;
            if comp == 1 { p.seed = 1 + r.below(1 << 30); }
            p.variant = st.to_string();
            if let Some(j) = run.stall_start(&p, client) { stall_jobs.push(j); }
        }
    }

    // (P) paused producers for the blocking puller, on their own threads (joined at the end)
    {
        let mut pauses: Vec<(u64, bool, &str)> = vec![(6500, true, "sync"), (6500, false, "sync"), (300, false, "sync"), (600, true, "async"), (1100, false, "wsc"),
            (300, true, "wsc"), (600, false, "sync"), (1100, true, "async"), (6500, false, "async"), (6500, true, "wsc")];
        if thorough { pauses.extend([(12000, false, "sync"), (30000, true, "sync"), (2500, false, "async"), (5500, true, "wsc"), (11000, false, "async"), (2500, true, "sync"), (5500, false, "sync"), (11000, true, "wsc")]); }
        for (ms, head, client) in pauses {
            rot += 1;
            let chunk = *r.pick(&[256usize, 1024]);
            let mut p = base(if client == "wsc" { "ws" } else { "tcp" }, "writer:0", 0, chunk, rot % 9);
            let nchunks = 10 + r.below(8) as usize;
            p.evs = (0..nchunks).map(|_| Ev::W(chunk)).chain(std::iter::once(Ev::W(1 + r.below(chunk as u64 - 1) as usize))).collect();
            let at = if head { 0 } else { nchunks / 2 };
            p.variant = format!("pz{ms}at{at}");
            if let Some(j) = run.paused_start(&p, client) { stall_jobs.push(j); }
        }
    }
    // (A) boundary grid, uncompressed: every chunk size x k=0..4 x {-1,0,+1}
    for &chunk in &small_chunks {
        for n in boundary_lengths(chunk, 4) {
            let reps = if thorough { 2 * kinds.len() } else { 3 };
            for _ in 0..reps {
                rot += 1;
                let kind = kinds[rot % kinds.len()];
                let p = sized(&mut r, base(srvs[rot % 2], kind, 0, chunk, rot % 9), n);
                run.out.count(&format!("svs.boundary.{}", match (n + 1) % chunk.max(1) { 0 => "minus1", 1 if chunk > 1 => "exact", 2 if chunk > 2 => "plus1", _ => "any" }));
                run.raw(&p, if r.chance(3, 4) { "N,n,n" } else { "n,n,n,n,n,n,n" });
            }
        }
    }
    // (B) 1 MiB chunks
    {
        let chunk = 1usize << 20;
        let lens = if thorough { boundary_lengths(chunk, 4) } else { vec![0, 1, chunk - 1, chunk, chunk + 1, 2 * chunk, 4 * chunk + 1] };
        for n in lens {
            rot += 1;
            let kind = if thorough { kinds[rot % kinds.len()] } else { ["writer:0", "reader", "typed:u8"][rot % 3] };
            let p = sized(&mut r, base(srvs[rot % 2], kind, 0, chunk, rot % 9), n);
            run.raw(&p, "N,n");
        }
        // incompressible data through zstd so the compressed stream spans 1 MiB chunks
        for n in if thorough { vec![chunk - 100, chunk, 2 * chunk + 5, 3 * chunk] } else { vec![chunk, 2 * chunk + 5] } {
            rot += 1;
            let mut p = base(srvs[rot % 2], "reader", 1, chunk, rot % 9);
            p.len = n; p.seed = 1 + r.below(1 << 30);
            run.raw(&p, "N,n");
        }
    }
    // (C) depth sweep on both servers
    for depth in 0..=8usize {
        for &srv in &srvs {
            for &(chunk, n) in &[(7usize, 30usize), (1, 4), (64, 128)] {
                rot += 1;
                let kind = ["reader", "writer:0"][rot % 2];
                let p = sized(&mut r, base(srv, kind, 0, chunk, depth), n);
                run.raw(&p, "N,n");
            }
        }
    }
    // (D) random fragmentation / lengths / everything
    let odd_chunks: Vec<usize> = (0..6).map(|_| 1 + r.below(10_000) as usize).collect();
    let n_random = if thorough { 30000 } else { 900 };
    for _ in 0..n_random {
        let chunk = match r.below(12) {
            // io::copy's 8 KiB buffer boundary, 64 KiB ± 1, odd sizes, anything up to 10000
            0 => *r.pick(&[5usize, 100, 1000, 8191, 8192, 8193, 65535, 65536, 65537]),
            1 => odd_chunks[r.below(odd_chunks.len() as u64) as usize],
            _ => *r.pick(&[1usize, 2, 3, 7, 64, 4096, 4096, 64, 7]),
        };
        let n = match r.below(5) { 0 => r.below(6) as usize, 1 => chunk * r.below(5) as usize, 2 => chunk * r.below(5) as usize + 1, 3 => (chunk * (1 + r.below(4) as usize)).saturating_sub(1), _ => r.below(6 * chunk as u64 + 2) as usize };
        let n = n.min(40 * chunk.max(8));
        let kind = if r.chance(1, 12) { *r.pick(&["writer:1", "writer:2", "writer:3"]) } else { *r.pick(&kinds) };
        let comp = if r.chance(1, 3) { 1 } else { 0 };
        let srv_pick = *r.pick(&srvs);
        // depths beyond the property's 0..8 now and then (a knob of the public API)
        let depth_pick = if r.chance(1, 12) { *r.pick(&[16usize, 64, 1024]) } else { r.below(9) as usize };
        let mut p = sized(&mut r, base(srv_pick, kind, comp, chunk, depth_pick), n);
        if comp == 1 && (kind == "reader") { p.seed = 1 + r.below(1 << 30); }
        if (kind == "reader" || kind.starts_with("writer")) && r.chance(1, 8) { p.seed = FLAVOUR_BASE + r.below(8000); }
        if kind == "reader" && r.chance(1, 4) { p.interrupt = 2 + r.below(3) as usize; }
        if kind.starts_with("writer") && comp == 1 { p.variant = format!("e={}", evs_tok(&p.evs).replace(',', "_")); }
        let script = *r.pick(&["N,n", "N,n,n", "n,n,n", "N", "n,c,n", "c,n", "n,n,k,n,n", "N,c,n", "n,k,n", "N,k,n",
            "N,w,n,n", "n,c,w,n", "n,w,n,N,w,n", "w,N,n", "u,n,u,N,u", "m,n,m,N,m,n", "o,n,j,n,o,N,n", "n,j,N,n", "u,m,j,o,N,u", "n,u,c,u,n", "j,n,k,n,j"]);
        run.raw(&p, script);
    }
    // (E) failures at every chunk boundary +-1 written byte
    for &chunk in &small_chunks {
        for at in boundary_lengths(chunk, 4) {
            for (ki, kind) in ["reader", "writer:0"].iter().enumerate() {
                let _ = ki;
                rot += 1;
                let end = if rot % 4 == 0 { End::Vanish } else { End::Err };
                let mut p = base(srvs[rot % 2], kind, 0, chunk, rot % 9);
                p.end = end;
                if *kind == "reader" {
                    p.len = at + 1 + r.below(3 * chunk as u64 + 2) as usize;
                    p.fail_at = at;
                    p.piece = *r.pick(&[1usize, 3, 8192]);
                } else {
                    p.evs = random_evs(&mut r, at, chunk);
                }
                run.raw(&p, *r.pick(&["N,n", "N,n,n", "n,n,n,n,n,n,n"]));
            }
        }
    }
    // failing producers behind zstd
    for _ in 0..(if thorough { 120 } else { 16 }) {
        rot += 1;
        // > 128 KiB of incompressible input so the encoder has emitted blocks before the failure
        let chunk = *r.pick(&[4096usize, 16384, 65536]);
        let mut p = base(srvs[rot % 2], "reader", 1, chunk, rot % 9);
        p.seed = 1 + r.below(1 << 30);
        p.len = 300_000 + r.below(100_000) as usize;
        p.fail_at = if rot % 5 == 0 { r.below(1000) as usize } else { 135_000 + r.below(160_000) as usize };
        p.end = if rot % 3 == 0 { End::Vanish } else { End::Err };
        run.raw(&p, "N,n");
    }
    // (Q) `cancel` while a `next` is parked on a gated producer
    for k in 0..(if thorough { 60 } else { 8 }) {
        rot += 1;
        let chunk = *r.pick(&[1usize, 3, 7, 64]);
        let srv = srvs[k % 2];
        let mut p = base(srv, "writer:0", 0, chunk, r.below(9) as usize);
        // `pre` chunks flow, the gate holds the rest back
        let pre = 2 + r.below(3) as usize;
        let post = 2 + r.below(4) as usize;
        p.evs = (0..pre + post).map(|_| Ev::W(chunk)).collect();
        p.variant = format!("g{pre}");
        // pre-1 chunks can be pulled (the last of them is the lookahead); the next `next` parks
        let mut script: Vec<&str> = vec!["n"; pre - 1];
        script.push("q");
        script.extend(["n", "n", "n"]);
        run.raw(&p, &script.join(","));
    }
    // (C) concurrent opens on separate connections
    for k in 0..(if thorough { 40 } else { 6 }) {
        let n = 4 + r.below(5) as usize;
        let chunk = *r.pick(&[3usize, 7, 64]);
        run.conc(srvs[k % 2], chunk, r.below(9) as usize, n, if thorough { 12 } else { 8 }, 5 + r.below(40) as usize);
    }
    // (C2) several connections pulling ONE stream concurrently
    for kk in 0..(if thorough { 200 } else { 24 }) {
        let chunk = *r.pick(&[1usize, 3, 7, 64]);
        let mut p = base(srvs[kk % 2], "reader", 0, chunk, r.below(9) as usize);
        p.len = chunk * (3 + r.below(20) as usize) + r.below(chunk as u64 + 1) as usize;
        p.piece = *r.pick(&[1usize, 5, 8192]);
        if r.chance(1, 2) { p.seed = 1 + r.below(1 << 20); }
        run.cnext(&p, 2 + r.below(4) as usize);
    }
    // (K) a producer failing with EVERY io::ErrorKind, at several offsets, reader / writer / behind zstd
    for kind_ix in 0..20usize {
        for (fi, form) in ["reader", "writer:0"].iter().enumerate() {
            // a reader that keeps answering Interrupted is retried for ever by io::copy (that is std's contract): not a failure
            if *form == "reader" && ERR_KINDS[kind_ix] == io::ErrorKind::Interrupted { continue; }
            for oi in 0..(if thorough { 5 } else { 2 }) {
                rot += 1;
                let chunk = *r.pick(&[1usize, 3, 7, 64]);
                let at = match (oi + kind_ix + fi) % 5 { 0 => 0, 1 => chunk.saturating_sub(1), 2 => chunk, 3 => chunk + 1, _ => 3 * chunk + 2 };
                let comp = if (rot % 5) == 0 { 1 } else { 0 };
                let mut p = base(srvs[rot % 2], form, comp, chunk, rot % 9);
                p.end = End::Err;
                p.err_kind = kind_ix;
                if *form == "reader" { p.len = at + 1 + r.below(2 * chunk as u64 + 2) as usize; p.fail_at = at; p.piece = *r.pick(&[1usize, 3, 8192]); if comp == 1 { p.seed = 1 + r.below(1 << 20); } }
                else { p.evs = random_evs(&mut r, at, chunk); if comp == 1 { p.variant = format!("e={}", evs_tok(&p.evs).replace(',', "_")); } }
                run.out.count(&format!("svs.errkind.{:?}", ERR_KINDS[kind_ix]));
                run.raw(&p, if oi % 2 == 0 { "N,n" } else { "n,n,n,n,n,n,n,n" });
            }
        }
        for &(srv, client) in &[("tcp", "sync"), ("tcp", "async"), ("ws", "wsc")] {
            rot += 1;
            let chunk = *r.pick(&[1usize, 7, 64]);
            let form = ["writer:0", "reader"][rot % 2];
            if form == "reader" && ERR_KINDS[kind_ix] == io::ErrorKind::Interrupted { continue; }
            let mut p = base(srv, form, (rot % 2) as u8, chunk, rot % 9);
            p.end = End::Err;
            p.err_kind = kind_ix;
            let at = chunk * r.below(4) as usize + r.below(3) as usize;
            if form == "reader" { p.len = at + 5; p.fail_at = at; p.piece = 3; } else { p.evs = random_evs(&mut r, at, chunk); }
            run.hl(&p, client, *r.pick(&["vec", "call", "file"]));
        }
    }
    // (M) many live, partly pulled streams on one router (1, 2, around 64, 200; thorough: 256, 1000)
    {
        let mut ns: Vec<(usize, &str)> = vec![(1, "tcp"), (2, "ws"), (63, "tcp"), (64, "ws"), (65, "tcp"), (66, "ws"), (200, "tcp")];
        if thorough { ns.extend([(255, "ws"), (256, "tcp"), (257, "ws"), (1000, "tcp"), (65, "ws"), (129, "tcp")]); }
        for (n, srv) in ns {
            let chunk = *r.pick(&[3usize, 7, 64]);
            run.many(srv, chunk, r.below(9) as usize, n, 2 * chunk + 1 + r.below(3 * chunk as u64) as usize);
        }
    }
    // (G) the same event N times in a row: past-the-end pulls, unknown ids, malformed requests, duplicate cancels,
    // unknown resources — the N-th is treated like the first; and streams of 255 / 256 / 257 chunks
    {
        let mut counts: Vec<usize> = vec![1, 2, 7, 8, 9, 16, 17, 64, 65, 256];
        if thorough { counts.push(1000); }
        for (ci, &k) in counts.iter().enumerate() {
            for (ti, tmpl) in ["N,n*K", "u*K,N,u*K", "n,m*K,N,n", "n,c*K,n*K", "n,j*K,N", "o*K,n,o*K,N,n", "n,k*K,n"].iter().enumerate() {
                if !thorough && k > 17 && (ci + ti) % 3 != 0 { continue; }
                rot += 1;
                let chunk = *r.pick(&[1usize, 3, 7]);
                let kind = ["reader", "writer:0"][rot % 2];
                let p = sized(&mut r, base(srvs[rot % 2], kind, 0, chunk, rot % 9), 3 * chunk + 1);
                run.raw(&p, &tmpl.replace('K', &k.to_string()));
            }
        }
        for n in if thorough { vec![255usize, 256, 257, 1000, 4096] } else { vec![255, 256, 257] } {
            rot += 1;
            let mut p = base(srvs[rot % 2], "reader", 0, 1, rot % 9);
            p.len = n;
            run.raw(&p, "N,n");
            let client = ["sync", "async", "wsc"][rot % 3];
            let mut p = base(if client == "wsc" { "ws" } else { "tcp" }, "reader", 0, 1, rot % 9);
            p.len = n;
            run.hl(&p, client, "vec");
        }
    }
    // (K2) two knobs at their extremes at once: chunk x depth x compression/level
    for &chunk in &[1usize, 1 << 20] {
        for &depth in &[0usize, 1024] {
            for &(comp, level) in &[(0u8, 3i32), (1, -131072), (1, 0), (1, 19)] {
                rot += 1;
                let kind = ["reader", "writer:0", "typed:u8"][rot % 3];
                let target = if chunk == 1 { 5 + r.below(20) as usize } else { chunk + 1 + r.below(1 << 20) as usize };
                let mut p = sized(&mut r, base(srvs[rot % 2], kind, comp, chunk, depth), target);
                p.level = level;
                if comp == 1 && kind == "reader" { p.seed = 1 + r.below(1 << 30); }
                if kind.starts_with("writer") && comp == 1 { p.variant = format!("e={}", evs_tok(&p.evs).replace(',', "_")); }
                run.raw(&p, "N,n");
            }
        }
    }
    // (I) fragmented I/O: raw requests leaving in 1-byte / 2–4 pieces (cuts inside the header, at 48, inside
    // query and body); everything (raw, blocking and async clients) through a proxy that re-fragments both directions
    for k in 0..(if thorough { 400 } else { 60 }) {
        rot += 1;
        let chunk = *r.pick(&[1usize, 3, 7, 64, 4096]);
        let kind = *r.pick(&["reader", "writer:0", "typed:u8", "value"]);
        let srv = if k % 2 == 0 { "tcp" } else { "tcpx" };
        let target = r.below(5 * chunk as u64 + 3) as usize;
        let mut p = sized(&mut r, base(srv, kind, (k % 5 == 0) as u8, chunk, rot % 9), target);
        if p.comp == 1 && kind == "reader" { p.seed = 1 + r.below(1 << 30); }
        if kind.starts_with("writer") && p.comp == 1 { p.variant = format!("e={}", evs_tok(&p.evs).replace(',', "_")); }
        p.speed = 'f';
        run.raw(&p, *r.pick(&["N,n", "n,c,n", "m,n,u,N,n", "n,j,N,o,n", "n,w,N,n", "N,n*9"]));
    }
    for k in 0..(if thorough { 200 } else { 36 }) {
        rot += 1;
        let chunk = *r.pick(&[1usize, 7, 64, 4096, 65536]);
        let (kind, puller) = [("reader", "vec"), ("writer:0", "call"), ("typed:u8", "typed"), ("value", "value"), ("reader", "file"), ("complex", "complex")][k % 6];
        let target = chunk * r.below(5) as usize + r.below(3) as usize;
        let mut p = sized(&mut r, base("tcpx", kind, (k % 4 == 0) as u8, chunk, rot % 9), target);
        if p.comp == 1 && kind == "reader" { p.seed = 1 + r.below(1 << 30); }
        if k % 7 == 0 && (kind == "reader" || kind == "writer:0") {
            p.end = End::Err; p.err_kind = k % 20;
            if ERR_KINDS[p.err_kind] == io::ErrorKind::Interrupted { p.err_kind = 0; }
            if kind == "reader" { p.fail_at = p.len / 2; }
        }
        run.hl(&p, ["sync", "async"][k % 2], puller);
    }
    // (L) a WebSocket server whose runtime has ONE blocking-pool thread: every off-reader `next` competes for it
    {
        run.conc("wsl", 7, 2, 5, if thorough { 12 } else { 4 }, 23);
        run.many("wsl", 7, 4, if thorough { 100 } else { 20 }, 17);
        for k in 0..(if thorough { 120 } else { 24 }) {
            rot += 1;
            let chunk = *r.pick(&[1usize, 3, 7, 64]);
            match k % 4 {
                0 => {
                    let mut p = base("wsl", "reader", 0, chunk, r.below(9) as usize);
                    p.len = chunk * (3 + r.below(10) as usize) + 1;
                    run.cnext(&p, 2 + r.below(3) as usize);
                }
                1 => {
                    let mut p = base("wsl", "writer:0", 0, chunk, r.below(9) as usize);
                    let pre = 2 + r.below(3) as usize;
                    p.evs = (0..pre + 3).map(|_| Ev::W(chunk)).collect();
                    p.variant = format!("g{pre}");
                    let mut script: Vec<&str> = vec!["n"; pre - 1];
                    script.push("q");
                    script.extend(["n", "n"]);
                    run.raw(&p, &script.join(","));
                }
                2 => {
                    let kind = *r.pick(&["reader", "writer:0", "value"]);
                    let (d, target) = (r.below(9) as usize, r.below(6 * chunk as u64 + 2) as usize);
                    let p = sized(&mut r, base("wsl", kind, (k % 8 == 2) as u8, chunk, d), target);
                    if p.comp == 1 && kind != "value" { continue; }
                    run.raw(&p, *r.pick(&["N,n", "n,c,n", "n,k,n,n", "u,N,u", "n,w,N,n"]));
                }
                _ => {
                    let (kind, puller) = [("reader", "vec"), ("writer:0", "call"), ("typed:u8", "typed"), ("reader", "cpart")][(k / 4) % 4];
                    let (d, target) = (r.below(9) as usize, r.below(6 * chunk as u64 + 2) as usize);
                    let p = sized(&mut r, base("wsl", kind, 0, chunk, d), target);
                    run.hl(&p, "wsc", puller);
                }
            }
        }
    }
    // (X) scripted peer: arbitrary answer lists into the crate's pullers — every error code at every position, query bytes
    // 0/1/2/255/empty/two bytes, empty bodies, scripts that end without an end marker, bad version / compression tags
    {
        let qs = ["00", "01", "02", "ff", "-", "0100", "0001"];
        let codes = [1u32, 2, 3, 4, 5, 6, 7, 8, 9, 4096];
        let mut scripts: Vec<(String, String)> = Vec::new();
        for (ci, c) in codes.iter().enumerate() {
            for pos in [0usize, 1, 3] {
                let mut v: Vec<String> = (0..pos).map(|j| format!("c{}q00", [5usize, 0, 300][(j + ci) % 3])).collect();
                v.push(format!("e{c}"));
                v.push("c4q01".into());
                scripts.push(("v1.z0.f0".into(), v.join(",")));
            }
        }
        for _ in 0..(if thorough { 600 } else { 60 }) {
            let n = r.below(7) as usize;
            let mut v: Vec<String> = (0..n).map(|_| if r.chance(1, 9) { format!("e{}", r.pick(&codes)) } else { format!("c{}q{}", r.pick(&[0usize, 1, 5, 300, 9000]), r.pick(&qs)) }).collect();
            if r.chance(2, 3) { v.push(format!("c{}q01", r.pick(&[0usize, 3, 70]))); }
            scripts.push(("v1.z0.f0".into(), if v.is_empty() { "-".into() } else { v.join(",") }));
        }
        for open in ["v0.z0.f0", "v2.z0.f0", "v255.z0.f1", "v1.z2.f0", "v1.z255.f1", "v1.z0.f1", "v1.z0.f65535"] {
            scripts.push((open.into(), "c3q00,c2q01".into()));
        }
        for (k, (open, resps)) in scripts.iter().enumerate() {
            let (srv, client) = [("tcp", "sync"), ("tcp", "async"), ("ws", "wsc")][k % 3];
            run.peer(srv, client, ["vec", "call", "c1"][(k / 3) % 3], open, resps);
        }
    }
    // (U) my clauses on the saturation path of the WebSocket off-reader cap: pipelined `next`s, cap = 1
    for kk in 0..(if thorough { 40 } else { 6 }) {
        let chunk = *r.pick(&[1usize, 3, 7, 64]);
        let mut p = base("wsc1", "reader", 0, chunk, r.below(9) as usize);
        p.len = chunk * (3 + r.below(12) as usize) + r.below(chunk as u64 + 1) as usize;
        p.piece = *r.pick(&[1usize, 5, 8192]);
        if kk % 3 == 0 { p.speed = 'p'; }
        run.cnext(&p, 2 + r.below(3) as usize);
    }
    // (Y) payloads whose CONTENT looks like the crate's own framing (a valid zstd stream, the zstd magic + garbage, REPE frames,
    // BEVE bodies of the protocol, `last`-marker bytes), uncompressed and compressed, raw and through every byte puller
    for fl in 0..N_FLAVOURS {
        for &comp in &[0u8, 1] {
            for (ci, &(srv, client)) in [("tcp", "sync"), ("tcp", "async"), ("ws", "wsc")].iter().enumerate() {
                rot += 1;
                let chunk = *r.pick(&[1usize, 3, 7, 64, 4096]);
                let kind = ["reader", "writer:0"][rot % 2];
                let n = match rot % 4 { 0 => 4, 1 => 5 + r.below(60) as usize, 2 => 200 + r.below(3000) as usize, _ => 3 * chunk + 1 };
                let mut p = sized(&mut r, base(srv, kind, comp, chunk, rot % 9), n);
                p.seed = FLAVOUR_BASE + fl + N_FLAVOURS * r.below(1000);
                if kind.starts_with("writer") && comp == 1 { p.variant = format!("e={}", evs_tok(&p.evs).replace(',', "_")); }
                run.hl(&p, client, ["vec", "call", "file", "c1"][(rot / 2 + ci) % 4]);
                if ci == (fl as usize) % 3 { run.raw(&p, "N,n"); }
            }
        }
    }
    // (Z) the default configuration's top chunk size with at least one FULL chunk, through the pullers (the `next` frame is then
    // 48 + 1 + 1 MiB bytes): StreamOpts::default() itself (zstd 3, depth 4) with incompressible data, and uncompressed
    for (k, &(srv, client)) in [("tcp", "sync"), ("tcp", "async"), ("ws", "wsc"), ("tcp", "sync"), ("ws", "wsc"), ("tcp", "async")].iter().enumerate() {
        let comp = (k % 2) as u8;
        let mut p = base(srv, "reader", comp, 1 << 20, 4);
        p.level = 3;
        p.len = (1 << 20) + [0usize, 5, (1 << 20) + 1][k % 3] + if comp == 1 { 4096 } else { 0 };
        if comp == 1 { p.seed = 1 + r.below(1 << 30); }
        run.hl(&p, client, ["vec", "call", "file"][k % 3]);
    }
    // (F2) two streams open at once on one connection: isolation of sessions, ids, lookahead
    for _ in 0..(if thorough { 600 } else { 60 }) {
        rot += 1;
        let chunk = *r.pick(&[1usize, 2, 3, 7, 64]);
        let kind = ["reader", "writer:0"][rot % 2];
        let srv = srvs[(rot / 2) % 2];
        let depth = r.below(9) as usize;
        let mk = |r: &mut Rng| {
            let n = r.below(5 * chunk as u64 + 2) as usize;
            let mut p = sized(r, base(srv, kind, 0, chunk, depth), n);
            if r.chance(1, 5) {
                p.end = if r.chance(1, 3) { End::Vanish } else { End::Err };
                if kind == "reader" { p.fail_at = r.below(n as u64 + 1) as usize; p.len = p.fail_at + 3; }
            }
            if r.chance(1, 2) { p.seed = 1 + r.below(1 << 20); }
            p
        };
        let (pa, pb) = (mk(&mut r), mk(&mut r));
        let len = 2 + r.below(8) as usize;
        let script: Vec<&str> = (0..len).map(|_| *r.pick(&["a", "b", "a", "b", "a", "b", "A", "B", "x", "y"])).collect();
        run.duo(&pa, &pb, &script.join(","));
    }
    // (G) slow producer / slow consumer
    for &speed in &['p', 'c'] {
        for depth in [0usize, 1, 2, 4, 8] {
            for &srv in &srvs {
                rot += 1;
                let kind = ["reader", "writer:0"][rot % 2];
                let mut p = sized(&mut r, base(srv, kind, 0, 7, depth), 7 * 4 + (rot % 3));
                if kind == "reader" { p.piece = 3; }
                p.speed = speed;
                run.raw(&p, "N,n");
            }
        }
    }
    // (H) high-level pullers
    let combos = [("tcp", "sync"), ("tcp", "async"), ("ws", "wsc")];
    let hl_rounds = if thorough { 60 } else { 3 };
    for round in 0..hl_rounds {
        for &(srv, client) in &combos {
            for &comp in &[0u8, 1] {
                for (kind, puller) in [("reader", "vec"), ("writer:0", "vec"), ("value", "vec"), ("value", "value"), ("typed:u8", "typed"), ("typed:f64", "typed"), ("complex", "complex"), ("typed:u8", "vec"), ("writer:1", "value"), ("reader", "value")] {
                    rot += 1;
                    let chunk = *r.pick(&[1usize, 3, 7, 64, 4096]);
                    let target = match (round + rot) % 4 { 0 => chunk * (1 + r.below(4) as usize), 1 => chunk * r.below(5) as usize + 1, 2 => (chunk * (1 + r.below(4) as usize)) - 1, _ => r.below(5 * chunk as u64 + 3) as usize };
                    let target = target.min(30 * chunk.max(8));
                    let mut p = sized(&mut r, base(srv, kind, comp, chunk, rot % 9), target);
                    if kind == "value" && puller == "value" && rot % 3 == 0 { p.variant = "rec".into(); p.len = target / 8; p.seed = 1 + r.below(1000); }
                    if kind == "writer:1" {
                        p.variant = "rec".into(); p.len = target / 8; p.seed = 1 + r.below(1000);
                        let mut v = Vec::new();
                        beve::to_writer_streaming(&mut v, &make_rec(p.seed, p.len)).unwrap();
                        p.evs = random_evs(&mut r, v.len(), chunk);
                    }
                    run.hl(&p, client, puller);
                }
                // the consumer-closure entry points and the file pullers
                for (kind, puller) in [("reader", "c1"), ("writer:0", "c1"), ("reader", "call"), ("writer:0", "call"), ("reader", "file"), ("writer:0", "file"), ("reader", "cpart"), ("writer:0", "cerr"), ("reader", "cpanic"), ("typed:u8", "cpart")] {
                    rot += 1;
                    let chunk = *r.pick(&[1usize, 3, 7, 64, 4096]);
                    let target = match rot % 3 { 0 => chunk * (1 + r.below(4) as usize), 1 => r.below(20) as usize, _ => r.below(5 * chunk as u64 + 3) as usize };
                    let target = target.min(30 * chunk.max(8));
                    let mut p = sized(&mut r, base(srv, kind, comp, chunk, rot % 9), target);
                    if comp == 1 && kind == "reader" { p.seed = 1 + r.below(1 << 30); }
                    run.hl(&p, client, puller);
                }
                // failing producers through every puller family
                for (kind, puller) in [("reader", "vec"), ("writer:0", "vec"), ("value", "value"), ("value", "vec"), ("reader", "call"), ("writer:0", "file")] {
                    rot += 1;
                    let chunk = *r.pick(&[1usize, 7, 64]);
                    let mut p = base(srv, kind, comp, chunk, rot % 9);
                    p.end = if rot % 4 == 0 { End::Vanish } else { End::Err };
                    let at = chunk * r.below(5) as usize + r.below(3) as usize;
                    match kind {
                        "reader" => { p.len = at + 10; p.fail_at = at.saturating_sub(1); p.piece = 3; }
                        "writer:0" => { p.evs = random_evs(&mut r, at.saturating_sub(1), chunk); }
                        _ => { p.variant = if p.end == End::Vanish { "panicseq".into() } else { "failseq".into() }; p.len = at; }
                    }
                    run.hl(&p, client, puller);
                }
            }
        }
    }
    for j in stall_jobs {
        run.stall_finish(j);
    }
    run.out.finish();
    std::process::exit(0);
}
