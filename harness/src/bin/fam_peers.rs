//! Family `peers` (C18): the real `repe::PeerRegistry` driven by op lines.
//! Usage: fam_peers --tier T --seed N --out DIR [--replay FILE]
//!
//! Line protocol: see lean/RepeVerif/Driver/Peers.lean.  Keys and paths travel as lower-case hex of
//! their UTF-8 bytes.  A `PeerHandle` is observed as `<id>/<tag>`, where the tag names the sink the
//! handle wraps (found by sending a probe notify through the handle).
use repe::{BodyFormat, NotifyBody, PeerHandle, PeerId, PeerRegistry, PeerSendError, PeerSink};
use repe_verif_harness::*;
use std::cell::Cell;
use std::collections::{BTreeMap, BTreeSet, HashSet};
use std::sync::atomic::{AtomicBool, AtomicUsize, Ordering};
use std::sync::{Arc, Mutex};
use std::time::{Duration, Instant};

const PROBE: &str = "\u{0}verif-probe";
thread_local! { static PROBED: Cell<u64> = const { Cell::new(u64::MAX) }; }

#[derive(Clone, Copy, PartialEq, Debug)]
enum Beh {
    Ok,
    Disc,
    Full,
    Other,
    /// re-entrant: removes peer `.0` from inside `send_notify`, answers Ok
    Rem(u64),
    /// answers Ok but reports `is_connected() == false`
    OkDown,
    /// a sink type that does not override `is_connected` (trait default), answers Ok
    Plain,
    /// panics inside `send_notify`: payload String / &'static str / non-string
    Panic(u8),
    /// sleeps a few milliseconds, answers Ok
    Slow,
    /// re-entrant: aliases its own peer id with the key `r<tag>`, answers Ok
    AliasSelf,
    /// re-entrant, once: inserts a new peer (id 1000+tag, sink tag 100000+tag), answers Ok
    InsNew,
    /// re-entrant, read-only: len / get_by / peers / aliases_for / key_for, answers Ok
    Read,
}

impl Beh {
    fn parse(s: &str) -> Option<Beh> {
        Some(match s {
            "ok" => Beh::Ok,
            "disc" => Beh::Disc,
            "full" => Beh::Full,
            "other" => Beh::Other,
            "okdown" => Beh::OkDown,
            "plain" => Beh::Plain,
            "slow" => Beh::Slow,
            "alias" => Beh::AliasSelf,
            "ins" => Beh::InsNew,
            "read" => Beh::Read,
            "panic:0" => Beh::Panic(0),
            "panic:1" => Beh::Panic(1),
            "panic:2" => Beh::Panic(2),
            _ => Beh::Rem(s.strip_prefix("rem:")?.parse().ok()?),
        })
    }
    fn show(&self) -> String {
        match self {
            Beh::Ok => "ok".into(),
            Beh::Disc => "disc".into(),
            Beh::Full => "full".into(),
            Beh::Other => "other".into(),
            Beh::Rem(x) => format!("rem:{}", x),
            Beh::OkDown => "okdown".into(),
            Beh::Plain => "plain".into(),
            Beh::Panic(k) => format!("panic:{}", k),
            Beh::Slow => "slow".into(),
            Beh::AliasSelf => "alias".into(),
            Beh::InsNew => "ins".into(),
            Beh::Read => "read".into(),
        }
    }
    fn answer(&self) -> &'static str {
        match self {
            Beh::Disc => "Disconnected",
            Beh::Full => "Full",
            Beh::Other => "Other",
            Beh::Panic(_) => "PANIC",
            _ => "ok",
        }
    }
    fn connected(&self) -> bool {
        !matches!(self, Beh::Disc | Beh::OkDown)
    }
}

/// The text an `Other` sink puts into `PeerSendError::Other` (a function of the tag, so replays are exact).
fn other_text(tag: u64) -> String {
    match tag % 4 {
        0 => String::new(),
        1 => "x".into(),
        2 => "é".repeat(300),
        _ => "line\nbreak \u{0} nul".into(),
    }
}

fn self_key(tag: u64) -> String {
    format!("r{}", tag)
}

#[derive(Clone, Debug)]
struct Rec {
    tag: u64,
    path: String,
    fmt: u16,
    body: Vec<u8>,
}

type Log = Arc<Mutex<Vec<Rec>>>;

/// Capturing sink.  Re-entrant behaviours call back into the registry from inside `send_notify`.
struct Sink {
    id: u64,
    tag: u64,
    beh: Beh,
    log: Log,
    reg: Option<PeerRegistry>,
    fired: AtomicBool,
}

/// `NotifyBody::as_bytes()` and `into_bytes()` disagreed on some body (twins-agree oracle).
static TWIN_MISMATCH: AtomicBool = AtomicBool::new(false);
/// Sinks inserted by coded ops (enumeration / races) are slow.
static CODED_SLOW: AtomicBool = AtomicBool::new(false);

impl Sink {
    fn handle_send(&self, method: &str, body: NotifyBody) -> Result<(), PeerSendError> {
        if method == PROBE {
            PROBED.with(|c| c.set(self.tag));
            return Ok(());
        }
        let fmt = body.body_format() as u16;
        let borrowed = body.as_bytes().to_vec();
        let bytes = body.into_bytes();
        if borrowed != bytes {
            TWIN_MISMATCH.store(true, Ordering::SeqCst);
        }
        self.log.lock().unwrap().push(Rec { tag: self.tag, path: method.to_string(), fmt, body: bytes });
        match self.beh {
            Beh::Ok | Beh::OkDown | Beh::Plain => Ok(()),
            Beh::Disc => Err(PeerSendError::Disconnected),
            Beh::Full => Err(PeerSendError::Full),
            Beh::Other => Err(PeerSendError::Other(other_text(self.tag))),
            Beh::Rem(x) => {
                if let Some(r) = &self.reg {
                    r.remove(PeerId(x));
                }
                Ok(())
            }
            Beh::Panic(0) => panic!("{}", format!("sink {} panics", self.tag)),
            Beh::Panic(1) => panic!("sink panics"),
            Beh::Panic(_) => std::panic::panic_any(42u32),
            Beh::Slow => {
                std::thread::sleep(Duration::from_micros(200));
                Ok(())
            }
            Beh::AliasSelf => {
                if let Some(r) = &self.reg {
                    r.alias(PeerId(self.id), self_key(self.tag));
                }
                Ok(())
            }
            Beh::InsNew => {
                if let Some(r) = &self.reg {
                    if !self.fired.swap(true, Ordering::SeqCst) {
                        let h = Real::handle(r, &self.log, 1000 + self.tag, 100000 + self.tag, Beh::Ok);
                        r.insert(h);
                    }
                }
                Ok(())
            }
            Beh::Read => {
                if let Some(r) = &self.reg {
                    let _ = (r.len(), r.is_empty(), r.peers().len(), r.get_by("a").is_some(), r.aliases_for(PeerId(self.id)).len(), r.key_for(PeerId(self.id)), r.get(PeerId(self.id)).is_some());
                }
                Ok(())
            }
        }
    }
}

impl PeerSink for Sink {
    fn send_notify(&self, method: &str, body: NotifyBody) -> Result<(), PeerSendError> {
        self.handle_send(method, body)
    }
    fn is_connected(&self) -> bool {
        self.beh.connected()
    }
}

/// Same sink, but `is_connected` is the trait's default.
struct PlainSink(Sink);
impl PeerSink for PlainSink {
    fn send_notify(&self, method: &str, body: NotifyBody) -> Result<(), PeerSendError> {
        self.0.handle_send(method, body)
    }
}

/// A value whose `Serialize` impl fails (encoder error path of broadcast_notify_json/_beve).
struct Unencodable;
impl serde::Serialize for Unencodable {
    fn serialize<S: serde::Serializer>(&self, _s: S) -> Result<S::Ok, S::Error> {
        Err(serde::ser::Error::custom("unencodable"))
    }
}

/// A borrowed key form whose `Hash` panics: `get_by(&Evil)` unwinds out of the map lookup while the
/// registry's mutex is held and so poisons it.  `PeerRegistry::lock` documents that it recovers from
/// poisoning; every later call must behave as if nothing had happened.
#[repr(transparent)]
struct Evil(str);
impl std::borrow::Borrow<Evil> for String {
    fn borrow(&self) -> &Evil {
        // SAFETY: `Evil` is a transparent wrapper around `str`
        unsafe { &*(self.as_str() as *const str as *const Evil) }
    }
}
impl std::hash::Hash for Evil {
    fn hash<H: std::hash::Hasher>(&self, state: &mut H) {
        if self.0.starts_with("\u{1}panic") {
            panic!("Evil::hash");
        }
        self.0.hash(state)
    }
}
impl PartialEq for Evil {
    fn eq(&self, o: &Evil) -> bool {
        self.0 == o.0
    }
}
impl Eq for Evil {}

/// Fails after the encoder has already emitted the opening of a map and one entry.
struct PartialThenFail;
impl serde::Serialize for PartialThenFail {
    fn serialize<S: serde::Serializer>(&self, s: S) -> Result<S::Ok, S::Error> {
        use serde::ser::SerializeMap;
        let mut m = s.serialize_map(None)?;
        m.serialize_entry("first", &1u8)?;
        m.serialize_entry("second", &Unencodable)?;
        m.end()
    }
}

/// A worker thread that lives as long as one explicit history (from `reset` to the next `reset`, so that
/// a recorded history replays exactly): every broadcast of the history runs on
/// it, so state a helper keeps per thread (a reused encode buffer, ...) survives from one call to the
/// next exactly as it does for a publisher task; a broadcast that never returns is still a report.
struct Worker {
    tx: std::sync::mpsc::Sender<Box<dyn FnOnce() + Send>>,
}

impl Worker {
    fn new() -> Worker {
        let (tx, rx) = std::sync::mpsc::channel::<Box<dyn FnOnce() + Send>>();
        std::thread::spawn(move || {
            while let Ok(job) = rx.recv() {
                job();
            }
        });
        Worker { tx }
    }
    /// Run `f` on the worker; `None` if it does not finish within `limit`.
    fn run<T: Send + 'static>(&self, limit: Duration, f: impl FnOnce() -> T + Send + 'static) -> Option<T> {
        let (rtx, rrx) = std::sync::mpsc::channel();
        let _ = self.tx.send(Box::new(move || {
            let _ = rtx.send(f());
        }));
        rrx.recv_timeout(limit).ok()
    }
}

fn tag_of(h: &PeerHandle) -> u64 {
    PROBED.with(|c| c.set(u64::MAX));
    let _ = h.send_notify(PROBE, NotifyBody::Raw(Vec::new(), BodyFormat::RawBinary));
    PROBED.with(|c| c.get())
}

fn show_handle(h: Option<PeerHandle>) -> String {
    match h {
        Some(h) => format!("{}/{}", h.peer_id().0, tag_of(&h)),
        None => "-".into(),
    }
}

fn key_of_hex(k: &str) -> String {
    String::from_utf8(unhex(k).expect("key hex")).expect("key utf8")
}

fn show_keys(ks: &[String]) -> String {
    format!("[{}]", ks.join(","))
}

fn send_class(r: &Result<(), PeerSendError>) -> &'static str {
    match r {
        Ok(()) => "ok",
        Err(PeerSendError::Disconnected) => "Disconnected",
        Err(PeerSendError::Full) => "Full",
        Err(PeerSendError::Other(_)) => "Other",
    }
}

// ---------------------------------------------------------------------------------------------
// (n) which public entry points of src/peer.rs does this family drive?
// ---------------------------------------------------------------------------------------------
/// `pub fn` names of `src/peer.rs` driven by the op lines of this family.
const DRIVEN: &[&str] = &[
    "body_format", "as_bytes", "into_bytes", // NotifyBody (in the capturing sinks)
    "new", "peer_id", "send_notify", "is_connected", // PeerHandle (`new` also: CallContext, PeerRegistry)
    "detached", "method", "peer", "is_cancelled", "cancelled", // CallContext
    "next_peer_id", "len", "is_empty", "peers", "get", "alias", "get_by", "key_for", "aliases_for", "insert", "remove",
    "broadcast_notify_json", "broadcast_notify_beve", "broadcast_notify_utf8", "broadcast_notify_raw",
];
/// Public items this family does not drive, and why.
const NOT_DRIVEN_BECAUSE: &[(&str, &str)] = &[];

/// `pub fn` names in the non-test part of `src/peer.rs` of the tree under test that are neither driven nor
/// explained.  They go to stats.json (`not_driven`) and to stderr: a new twin must not go unnoticed.
fn entry_point_audit(out: &mut Out) -> Vec<String> {
    let repo = std::env::var("VERIF_REPO").unwrap_or_else(|_| "/repo".into());
    let text = std::fs::read_to_string(std::path::Path::new(&repo).join("src").join("peer.rs")).unwrap_or_default();
    let text = text.split("#[cfg(test)]").next().unwrap_or("").to_string();
    let mut names: Vec<String> = Vec::new();
    for line in text.lines() {
        let t = line.trim_start();
        for pre in ["pub async fn ", "pub fn "] {
            if let Some(rest) = t.strip_prefix(pre) {
                let name: String = rest.chars().take_while(|c| c.is_alphanumeric() || *c == '_').collect();
                if !name.is_empty() && !names.contains(&name) {
                    names.push(name);
                }
            }
        }
    }
    let missing: Vec<String> = names.iter().filter(|n| !DRIVEN.contains(&n.as_str()) && !NOT_DRIVEN_BECAUSE.iter().any(|(m, _)| m == n)).cloned().collect();
    out.extra.insert("entry_points_found".into(), serde_json::json!(names.len()));
    out.extra.insert("not_driven".into(), serde_json::json!(missing));
    for m in &missing {
        out.count(&format!("NOT_DRIVEN.{}", m));
    }
    missing
}

// ---------------------------------------------------------------------------------------------
// (o) liveness of the check on a broken tree: every call into the registry bumps PROGRESS; a watchdog thread
// turns 40 s without progress into an oracle failure (with the history as the failing input) and ends the run.
// ---------------------------------------------------------------------------------------------
static PROGRESS: std::sync::atomic::AtomicU64 = std::sync::atomic::AtomicU64::new(0);
/// what is running right now: the explicit history since the last `reset`, or the replay of a coded sequence
static RUNNING: Mutex<Vec<String>> = Mutex::new(Vec::new());
static RUNNING_CODED: Mutex<Vec<(usize, String)>> = Mutex::new(Vec::new());

fn progress() {
    PROGRESS.fetch_add(1, Ordering::Relaxed);
}

fn start_watchdog(dir: std::path::PathBuf, limit: Duration) {
    std::thread::spawn(move || {
        let mut last = PROGRESS.load(Ordering::Relaxed);
        let mut since = Instant::now();
        loop {
            std::thread::sleep(Duration::from_millis(500));
            let now = PROGRESS.load(Ordering::Relaxed);
            if now != last {
                last = now;
                since = Instant::now();
                continue;
            }
            if since.elapsed() > limit {
                let coded = RUNNING_CODED.lock().map(|v| v.clone()).unwrap_or_default();
                let ops: Vec<String> = if let Some((_, path)) = coded.first() {
                    eops_of_str(path).map(|p| explicit_replay(&p)).unwrap_or_default()
                } else {
                    RUNNING.lock().map(|v| v.clone()).unwrap_or_default()
                };
                let cur = std::fs::read_to_string(dir.join("current_op.txt")).unwrap_or_default();
                let v = serde_json::json!({"sig": "peers.call_never_returned", "detail": format!("no call into the registry returned for {} s while running `{}`", limit.as_secs(), cur.chars().take(200).collect::<String>()), "ops": ops});
                use std::io::Write;
                if let Ok(mut f) = std::fs::OpenOptions::new().append(true).create(true).open(dir.join("oracle.txt")) {
                    let _ = writeln!(f, "{}", v);
                }
                eprintln!("peers: watchdog: no progress for {} s, giving up", limit.as_secs());
                std::process::exit(0);
            }
        }
    });
}

// ---------------------------------------------------------------------------------------------
// the real registry
// ---------------------------------------------------------------------------------------------
struct Real {
    reg: PeerRegistry,
    log: Log,
    inserted: Vec<u64>,
}

impl Real {
    fn new() -> Real {
        Real { reg: PeerRegistry::new(), log: Arc::new(Mutex::new(Vec::new())), inserted: Vec::new() }
    }
    fn handle(reg: &PeerRegistry, log: &Log, id: u64, tag: u64, beh: Beh) -> PeerHandle {
        let r = if matches!(beh, Beh::Rem(_) | Beh::AliasSelf | Beh::InsNew | Beh::Read) { Some(reg.clone()) } else { None };
        let sink = Sink { id, tag, beh, log: log.clone(), reg: r, fired: AtomicBool::new(false) };
        if beh == Beh::Plain {
            PeerHandle::new(PeerId(id), Arc::new(PlainSink(sink)))
        } else {
            PeerHandle::new(PeerId(id), Arc::new(sink))
        }
    }
    fn ins(&mut self, id: u64, tag: u64, beh: Beh) -> &'static str {
        let h = Real::handle(&self.reg, &self.log, id, tag, beh);
        self.inserted.push(id);
        let reg = self.reg.clone();
        match catch(move || reg.insert(h)) {
            Ok(()) => "u",
            Err(_) => "PANIC",
        }
    }
    fn rem(&self, id: u64) -> String {
        show_handle(self.reg.remove(PeerId(id)))
    }
    /// `via`: which `Into<String>` type carries the key (0 String, 1 &str, 2 Cow, 3 Box<str>, 4 char when one char)
    fn alias(&self, id: u64, khex: &str, via: u8) -> &'static str {
        let k = key_of_hex(khex);
        let r = match via {
            1 => self.reg.alias(PeerId(id), k.as_str()),
            2 => self.reg.alias(PeerId(id), std::borrow::Cow::Borrowed(k.as_str())),
            3 => self.reg.alias(PeerId(id), k.clone().into_boxed_str()),
            4 if k.chars().count() == 1 => self.reg.alias(PeerId(id), k.chars().next().unwrap()),
            _ => self.reg.alias(PeerId(id), k),
        };
        if r { "T" } else { "F" }
    }
    fn get(&self, id: u64) -> String {
        show_handle(self.reg.get(PeerId(id)))
    }
    fn getby(&self, khex: &str) -> String {
        self.getby_via(khex, 0)
    }
    /// `via`: the borrowed form of the key (0 &str, 1 &String)
    fn getby_via(&self, khex: &str, via: u8) -> String {
        let k = key_of_hex(khex);
        show_handle(if via == 1 { self.reg.get_by::<String>(&k) } else { self.reg.get_by(k.as_str()) })
    }
    fn keyfor(&self, id: u64) -> String {
        self.reg.key_for(PeerId(id)).map(|k| hex(k.as_bytes())).unwrap_or_else(|| "-".into())
    }
    fn aliases(&self, id: u64) -> String {
        let ks: Vec<String> = self.reg.aliases_for(PeerId(id)).iter().map(|k| hex(k.as_bytes())).collect();
        show_keys(&ks)
    }
    fn len(&self) -> usize {
        self.reg.len()
    }
    fn digest(&self, ids: &[u64], keys: &[String]) -> String {
        let mut s = format!("n={};", self.len());
        let parts: Vec<String> = ids
            .iter()
            .map(|&i| {
                let tag = match self.reg.get(PeerId(i)) {
                    Some(h) => tag_of(&h).to_string(),
                    None => "-".into(),
                };
                format!("{}:{}:{}:{}", i, tag, self.keyfor(i), self.aliases(i))
            })
            .collect();
        s.push_str(&parts.join(";"));
        s.push('#');
        let parts: Vec<String> = keys.iter().map(|k| format!("{}={}", k, self.getby(k))).collect();
        s.push_str(&parts.join(";"));
        s
    }
}

impl Drop for Real {
    fn drop(&mut self) {
        // break Arc cycles of re-entrant sinks (guarded: a registry that panics on every call must not
        // take the harness down with it)
        let reg = self.reg.clone();
        let ids = self.inserted.clone();
        let _ = catch(move || {
            for id in ids {
                reg.remove(PeerId(id));
            }
        });
    }
}

// ---------------------------------------------------------------------------------------------
// the specification, recomputed here (direct oracle): the present peers, each with its ordered key
// list; a key is listed by at most one peer.
// ---------------------------------------------------------------------------------------------
#[derive(Clone, Debug)]
struct APeer {
    id: u64,
    tag: u64,
    keys: Vec<String>,
}

#[derive(Clone, Default, Debug)]
struct Spec {
    peers: Vec<APeer>,
}

impl Spec {
    fn find(&self, id: u64) -> Option<&APeer> {
        self.peers.iter().find(|p| p.id == id)
    }
    fn present(&self, id: u64) -> bool {
        self.find(id).is_some()
    }
    fn insert(&mut self, id: u64, tag: u64) {
        if let Some(p) = self.peers.iter_mut().find(|p| p.id == id) {
            p.tag = tag; // outside the contract: handle replaced, keys stay
        } else {
            self.peers.push(APeer { id, tag, keys: vec![] });
        }
    }
    fn remove(&mut self, id: u64) -> String {
        match self.peers.iter().position(|p| p.id == id) {
            Some(i) => {
                let p = self.peers.remove(i);
                format!("{}/{}", p.id, p.tag)
            }
            None => "-".into(),
        }
    }
    /// returns (accepted, branch)
    fn alias(&mut self, id: u64, k: &str) -> (bool, &'static str) {
        if !self.present(id) {
            return (false, "alias.rejected");
        }
        if self.find(id).unwrap().keys.iter().any(|x| x == k) {
            return (true, "alias.same");
        }
        let mut moved = false;
        for p in self.peers.iter_mut() {
            let n = p.keys.len();
            p.keys.retain(|x| x != k);
            moved |= p.keys.len() != n;
        }
        self.peers.iter_mut().find(|p| p.id == id).unwrap().keys.push(k.to_string());
        (true, if moved { "alias.moved" } else { "alias.fresh" })
    }
    fn get(&self, id: u64) -> String {
        self.find(id).map(|p| format!("{}/{}", p.id, p.tag)).unwrap_or_else(|| "-".into())
    }
    fn getby(&self, k: &str) -> String {
        self.peers.iter().find(|p| p.keys.iter().any(|x| x == k)).map(|p| format!("{}/{}", p.id, p.tag)).unwrap_or_else(|| "-".into())
    }
    fn keyfor(&self, id: u64) -> String {
        self.find(id).and_then(|p| p.keys.first().cloned()).unwrap_or_else(|| "-".into())
    }
    fn aliases(&self, id: u64) -> String {
        show_keys(self.find(id).map(|p| &p.keys[..]).unwrap_or(&[]))
    }
    fn digest(&self, ids: &[u64], keys: &[String]) -> String {
        let mut s = format!("n={};", self.peers.len());
        let parts: Vec<String> = ids
            .iter()
            .map(|&i| format!("{}:{}:{}:{}", i, self.find(i).map(|p| p.tag.to_string()).unwrap_or_else(|| "-".into()), self.keyfor(i), self.aliases(i)))
            .collect();
        s.push_str(&parts.join(";"));
        s.push('#');
        let parts: Vec<String> = keys.iter().map(|k| format!("{}={}", k, self.getby(k))).collect();
        s.push_str(&parts.join(";"));
        s
    }
    fn sorted_ids(&self) -> Vec<u64> {
        let mut v: Vec<u64> = self.peers.iter().map(|p| p.id).collect();
        v.sort();
        v
    }
}

/// Which part of two digests differs (stable oracle signature component).
fn digest_diff(imp: &str, spec: &str) -> String {
    let (ia, ib) = imp.split_once('#').unwrap_or((imp, ""));
    let (sa, sb) = spec.split_once('#').unwrap_or((spec, ""));
    if ib != sb {
        return "get_by".into();
    }
    let iv: Vec<&str> = ia.split(';').collect();
    let sv: Vec<&str> = sa.split(';').collect();
    if iv.first() != sv.first() {
        return "len".into();
    }
    for (x, y) in iv.iter().zip(sv.iter()).skip(1) {
        if x != y {
            let xf: Vec<&str> = x.split(':').collect();
            let yf: Vec<&str> = y.split(':').collect();
            if xf.get(1) != yf.get(1) {
                return "get".into();
            }
            if xf.get(3) != yf.get(3) {
                return "aliases_for".into();
            }
            return "key_for".into();
        }
    }
    "digest".into()
}

// ---------------------------------------------------------------------------------------------
// the coded alphabet of the small-scope domain: 3 peers x 3 keys
// ---------------------------------------------------------------------------------------------
const ENUM_IDS: [u64; 3] = [0, 1, 2];
fn enum_keys() -> Vec<String> {
    vec!["61".into(), "62".into(), "63".into()]
}

#[derive(Clone, Copy, Debug, PartialEq)]
enum EOp {
    Ins(u64),
    Rem(u64),
    Alias(u64, usize),
    GetBy(usize),
    Aliases(u64),
    Len,
    Bcast,
    Get(u64),
    KeyFor(u64),
    Peers,
    IsEmpty,
    DbgReg,
}

fn eop_of_code(c: u8) -> Option<EOp> {
    let c = c as u64;
    Some(if c < 3 {
        EOp::Ins(c)
    } else if c < 6 {
        EOp::Rem(c - 3)
    } else if c < 15 {
        EOp::Alias((c - 6) / 3, ((c - 6) % 3) as usize)
    } else if c < 18 {
        EOp::GetBy((c - 15) as usize)
    } else if c < 21 {
        EOp::Aliases(c - 18)
    } else if c == 21 {
        EOp::Len
    } else if c == 22 {
        EOp::Bcast
    } else if c < 26 {
        EOp::Get(c - 23)
    } else if c < 29 {
        EOp::KeyFor(c - 26)
    } else if c == 29 {
        EOp::Peers
    } else if c == 30 {
        EOp::IsEmpty
    } else if c == 31 {
        EOp::DbgReg
    } else {
        return None;
    })
}

fn eops_of_str(s: &str) -> Option<Vec<EOp>> {
    if s == "-" {
        return Some(vec![]);
    }
    // a..z = codes 0..25, A..F = codes 26..31 (key_for 0..2, peers, is_empty, Debug of the registry)
    s.bytes().map(|b| if (97..123).contains(&b) { eop_of_code(b - 97) } else if (65..71).contains(&b) { eop_of_code(b - 65 + 26) } else { None }).collect()
}

fn code_char(c: u8) -> char {
    if c < 26 { (97 + c) as char } else { (65 + c - 26) as char }
}

/// Explicit op line of a coded op (for replays).
fn explicit(op: EOp, idx: usize, tag: u64) -> String {
    let k = enum_keys();
    match op {
        EOp::Ins(p) => format!("ins {} {} {} ok", idx, p, tag),
        EOp::Rem(p) => format!("rem {} {}", idx, p),
        EOp::Alias(p, i) => format!("alias {} {} {}", idx, p, k[i]),
        EOp::GetBy(i) => format!("getby {} {}", idx, k[i]),
        EOp::Aliases(p) => format!("aliases {} {}", idx, p),
        EOp::Len => format!("len {}", idx),
        EOp::Bcast => format!("bcast {} raw 2f63 0 01", idx),
        EOp::Get(p) => format!("get {} {}", idx, p),
        EOp::KeyFor(p) => format!("keyfor {} {}", idx, p),
        EOp::Peers => format!("peers {}", idx),
        EOp::IsEmpty => format!("isempty {}", idx),
        EOp::DbgReg => format!("dbgreg {}", idx),
    }
}

fn explicit_replay(path: &[EOp]) -> Vec<String> {
    let mut v = vec!["reset 0".to_string()];
    for (i, op) in path.iter().enumerate() {
        v.push(explicit(*op, i + 1, (i + 1) as u64));
    }
    v.push(format!("dump {}", path.len() + 1));
    v
}

/// Apply a coded op to the spec; `None` = insert of a present id (pruned).
fn spec_apply(s: &mut Spec, tag: u64, op: EOp) -> Option<String> {
    let k = enum_keys();
    Some(match op {
        EOp::Ins(p) => {
            if s.present(p) {
                return None;
            }
            s.insert(p, tag);
            "u".into()
        }
        EOp::Rem(p) => s.remove(p),
        EOp::Alias(p, i) => if s.alias(p, &k[i]).0 { "T".into() } else { "F".into() },
        EOp::GetBy(i) => s.getby(&k[i]),
        EOp::Aliases(p) => s.aliases(p),
        EOp::Len => s.peers.len().to_string(),
        EOp::Bcast => format!("{{{}}}", s.sorted_ids().iter().map(|x| x.to_string()).collect::<Vec<_>>().join(",")),
        EOp::Get(p) => s.get(p),
        EOp::KeyFor(p) => s.keyfor(p),
        EOp::IsEmpty => if s.peers.is_empty() { "T".into() } else { "F".into() },
        EOp::DbgReg => format!("PeerRegistry{{len:{}}}", s.peers.len()),
        EOp::Peers => {
            let mut v: Vec<(u64, u64)> = s.peers.iter().map(|p| (p.id, p.tag)).collect();
            v.sort();
            format!("[{}]", v.iter().map(|(i, t)| format!("{}/{}", i, t)).collect::<Vec<_>>().join(","))
        }
    })
}

/// Apply a coded op to a real registry.  `bcast_body` identifies the broadcast in the sinks' log.
fn real_apply(reg: &PeerRegistry, log: &Log, tag: u64, op: EOp, keys: &[String], bcast_body: &[u8]) -> String {
    let r = real_apply_inner(reg, log, tag, op, keys, bcast_body);
    progress();
    r
}

fn real_apply_inner(reg: &PeerRegistry, log: &Log, tag: u64, op: EOp, keys: &[String], bcast_body: &[u8]) -> String {
    match op {
        EOp::Ins(p) => {
            let beh = if CODED_SLOW.load(Ordering::Relaxed) { Beh::Slow } else { Beh::Ok };
            let h = Real::handle(reg, log, p, tag, beh);
            match catch(|| reg.insert(h)) {
                Ok(()) => "u".into(),
                Err(_) => "PANIC".into(),
            }
        }
        EOp::Rem(p) => show_handle(reg.remove(PeerId(p))),
        EOp::Alias(p, i) => if reg.alias(PeerId(p), key_of_hex(&keys[i])) { "T".into() } else { "F".into() },
        EOp::GetBy(i) => show_handle(reg.get_by(key_of_hex(&keys[i]).as_str())),
        EOp::Aliases(p) => {
            let ks: Vec<String> = reg.aliases_for(PeerId(p)).iter().map(|k| hex(k.as_bytes())).collect();
            show_keys(&ks)
        }
        EOp::Len => reg.len().to_string(),
        EOp::Bcast => {
            let res = reg.broadcast_notify_raw("/c", BodyFormat::RawBinary, bcast_body);
            let mut ids: Vec<u64> = res.keys().map(|p| p.0).collect();
            ids.sort();
            format!("{{{}}}", ids.iter().map(|x| x.to_string()).collect::<Vec<_>>().join(","))
        }
        EOp::Get(p) => show_handle(reg.get(PeerId(p))),
        EOp::KeyFor(p) => reg.key_for(PeerId(p)).map(|k| hex(k.as_bytes())).unwrap_or_else(|| "-".into()),
        EOp::IsEmpty => if reg.is_empty() { "T".into() } else { "F".into() },
        EOp::DbgReg => format!("{:?}", reg).replace(' ', ""),
        EOp::Peers => {
            let mut v: Vec<(u64, u64)> = reg.peers().iter().map(|h| (h.peer_id().0, tag_of(h))).collect();
            v.sort();
            format!("[{}]", v.iter().map(|(i, t)| format!("{}/{}", i, t)).collect::<Vec<_>>().join(","))
        }
    }
}

// ---------------------------------------------------------------------------------------------
// enumeration of every sequence (pruned: no insert of a present id), preorder, same as the model
// ---------------------------------------------------------------------------------------------
struct Fail {
    sig: String,
    detail: String,
    ops: Vec<String>,
}

/// One failure per signature: the one with the shortest reproducing sequence.
fn keep_shortest(fails: &mut Vec<Fail>, f: Fail) {
    match fails.iter_mut().find(|g| g.sig == f.sig) {
        Some(g) => {
            if f.ops.len() < g.ops.len() {
                *g = f;
            }
        }
        None => fails.push(f),
    }
}

fn fnv_step(mut h: u64, s: &str) -> u64 {
    for b in s.bytes() {
        h ^= b as u64;
        h = h.wrapping_mul(0x100000001b3);
    }
    h ^= 10;
    h.wrapping_mul(0x100000001b3)
}

struct EnumCtx {
    keys: Vec<String>,
    alphabet: Vec<u8>,
    nodes: u64,
    nontrivial: u64,
    fails: Vec<Fail>,
}

thread_local! { static ENUM_SLOT: Cell<usize> = const { Cell::new(0) }; }

fn code_of(op: EOp) -> u8 {
    (0..32u8).find(|c| eop_of_code(*c) == Some(op)).unwrap_or(0)
}

fn run_real_path(path: &[EOp], keys: &[String]) -> (String, String) {
    // remember what this thread is replaying (for the watchdog's report)
    {
        let me = ENUM_SLOT.with(|c| c.get());
        let ps: String = path.iter().map(|op| code_char(code_of(*op))).collect();
        if let Ok(mut v) = RUNNING_CODED.lock() {
            match v.iter_mut().find(|(i, _)| *i == me) {
                Some(e) => e.1 = ps,
                None => v.push((me, ps)),
            }
        }
    }
    let mut real = Real::new();
    let mut last = String::new();
    for (i, op) in path.iter().enumerate() {
        if let EOp::Ins(p) = op {
            real.inserted.push(*p);
        }
        last = real_apply(&real.reg, &real.log, (i + 1) as u64, *op, keys, &[1]);
    }
    let d = real.digest(&ENUM_IDS, keys);
    if real.reg.is_empty() != (real.len() == 0) {
        return (last, format!("{} is_empty-disagrees-with-len", d));
    }
    (last, d)
}

/// Visit one node: run it on the real code, compare with the spec (direct oracle), return its line.
fn visit(ctx: &mut EnumCtx, path: &[EOp], pathstr: &str, spec: &Spec, spec_ret: &str) -> String {
    let (ret, dig) = run_real_path(path, &ctx.keys);
    ctx.nodes += 1;
    let sd = spec.digest(&ENUM_IDS, &ctx.keys);
    if sd.contains("/") {
        ctx.nontrivial += 1;
    }
    let found = if ret != spec_ret {
        let name = match path.last() {
            Some(EOp::Ins(_)) => "insert",
            Some(EOp::Rem(_)) => "remove",
            Some(EOp::Alias(..)) => "alias",
            _ => "query",
        };
        Some((format!("peers.ret.{}", name), format!("sequence {}: the last call returned {} but the specification says {}", pathstr, ret, spec_ret)))
    } else if dig != sd {
        Some((format!("peers.state.{}", digest_diff(&dig, &sd)), format!("after sequence {}: registry answers {} but the specification says {}", pathstr, dig, sd)))
    } else {
        None
    };
    if let Some((sig, detail)) = found {
        keep_shortest(&mut ctx.fails, Fail { sig, detail, ops: explicit_replay(path) });
    }
    format!("{} {} {}", pathstr, ret, dig)
}

fn hash_sub(ctx: &mut EnumCtx, fuel: usize, path: &mut Vec<EOp>, pathstr: &mut String, spec: &Spec, mut h: u64) -> u64 {
    if fuel == 0 {
        return h;
    }
    for c in ctx.alphabet.clone() {
        let op = eop_of_code(c).unwrap();
        let mut s2 = spec.clone();
        if let Some(sret) = spec_apply(&mut s2, (path.len() + 1) as u64, op) {
            path.push(op);
            pathstr.push(code_char(c));
            let line = visit(ctx, path, pathstr, &s2, &sret);
            h = fnv_step(h, &line);
            h = hash_sub(ctx, fuel - 1, path, pathstr, &s2, h);
            path.pop();
            pathstr.pop();
        }
    }
    h
}

fn enum_emit(ctx: &mut EnumCtx, idx: &str, fold: usize, fuel: usize, path: &mut Vec<EOp>, pathstr: &mut String, spec: &Spec, out: &mut Vec<String>) {
    if fuel == 0 {
        return;
    }
    for c in ctx.alphabet.clone() {
        let op = eop_of_code(c).unwrap();
        let mut s2 = spec.clone();
        if let Some(sret) = spec_apply(&mut s2, (path.len() + 1) as u64, op) {
            path.push(op);
            pathstr.push(code_char(c));
            let mut line = format!("{} {}", idx, visit(ctx, path, pathstr, &s2, &sret));
            if fuel == 1 && fold > 0 {
                let h = hash_sub(ctx, fold, path, pathstr, &s2, 0xcbf29ce484222325);
                line.push_str(&format!(" h={:016x}", h));
            }
            out.push(line);
            enum_emit(ctx, idx, fold, fuel - 1, path, pathstr, &s2, out);
            path.pop();
            pathstr.pop();
        }
    }
}

/// `enum <idx> <depth> <fold> <prefix>`: the subtrees of the first level run on worker threads.
fn run_enum(idx: &str, depth: usize, fold: usize, prefix: &str, alphabet: &[u8], threads: usize) -> Option<(Vec<String>, u64, u64, Vec<Fail>)> {
    let pre = eops_of_str(prefix)?;
    let mut spec = Spec::default();
    for (i, op) in pre.iter().enumerate() {
        spec_apply(&mut spec, (i + 1) as u64, *op)?;
    }
    let levels = depth.checked_sub(fold)?;
    let pstr = if prefix == "-" { String::new() } else { prefix.to_string() };
    if levels == 0 {
        return Some((vec![], 0, 0, vec![]));
    }
    // first level sequentially (15 nodes), their subtrees in parallel
    let next = AtomicUsize::new(0);
    let results: Mutex<BTreeMap<usize, (Vec<String>, u64, u64, Vec<Fail>)>> = Mutex::new(BTreeMap::new());
    std::thread::scope(|sc| {
        for _ in 0..threads.max(1) {
            sc.spawn(|| loop {
                let ci = next.fetch_add(1, Ordering::SeqCst);
                ENUM_SLOT.with(|c| c.set(ci + 1));
                if ci >= alphabet.len() {
                    break;
                }
                let c = alphabet[ci] as usize;
                let op = eop_of_code(c as u8).unwrap();
                let mut ctx = EnumCtx { keys: enum_keys(), alphabet: alphabet.to_vec(), nodes: 0, nontrivial: 0, fails: vec![] };
                let mut out = Vec::new();
                let mut s2 = spec.clone();
                let mut path = pre.clone();
                let mut pathstr = pstr.clone();
                if let Some(sret) = spec_apply(&mut s2, (path.len() + 1) as u64, op) {
                    path.push(op);
                    pathstr.push(code_char(c as u8));
                    let mut line = format!("{} {}", idx, visit(&mut ctx, &path, &pathstr, &s2, &sret));
                    if levels == 1 && fold > 0 {
                        let h = hash_sub(&mut ctx, fold, &mut path, &mut pathstr, &s2, 0xcbf29ce484222325);
                        line.push_str(&format!(" h={:016x}", h));
                    }
                    out.push(line);
                    enum_emit(&mut ctx, idx, fold, levels - 1, &mut path, &mut pathstr, &s2, &mut out);
                }
                results.lock().unwrap().insert(ci, (out, ctx.nodes, ctx.nontrivial, ctx.fails));
            });
        }
    });
    let mut lines = Vec::new();
    let (mut nodes, mut nt, mut fails) = (0, 0, Vec::new());
    for (_, (o, n, t, f)) in results.into_inner().unwrap() {
        lines.extend(o);
        nodes += n;
        nt += t;
        for x in f {
            keep_shortest(&mut fails, x);
        }
    }
    Some((lines, nodes, nt, fails))
}

// ---------------------------------------------------------------------------------------------
// concurrent histories
// ---------------------------------------------------------------------------------------------
fn seq_outcomes(spec: &Spec, progs: &[Vec<EOp>], pos: &mut Vec<usize>, rets: &mut Vec<Vec<String>>, out: &mut HashSet<String>) {
    if (0..progs.len()).all(|i| pos[i] == progs[i].len()) {
        let r: Vec<String> = rets.iter().map(|v| v.join(",")).collect();
        out.insert(format!("{}|{}", r.join(";"), spec.digest(&ENUM_IDS, &enum_keys())));
        return;
    }
    for i in 0..progs.len() {
        if pos[i] < progs[i].len() {
            let mut s2 = spec.clone();
            let tag = (100 * (i + 1) + pos[i] + 1) as u64;
            if let Some(r) = spec_apply(&mut s2, tag, progs[i][pos[i]]) {
                pos[i] += 1;
                rets[i].push(r);
                seq_outcomes(&s2, progs, pos, rets, out);
                rets[i].pop();
                pos[i] -= 1;
            }
        }
    }
}

fn spin_until(cond: impl Fn() -> bool, limit: Duration) -> bool {
    let t0 = Instant::now();
    let mut n = 0u64;
    while !cond() {
        n += 1;
        if n % 64 == 0 {
            std::thread::yield_now();
        }
        if n % 4096 == 0 && t0.elapsed() > limit {
            return false;
        }
        std::hint::spin_loop();
    }
    true
}

struct ConcResult {
    observed: BTreeSet<String>,
    stuck: bool,
    bcast_fail: Option<String>,
    reps: u64,
}

struct Shared {
    slot: Mutex<Option<(PeerRegistry, Log)>>,
    gen: AtomicUsize,
    ready: AtomicUsize,
    done: AtomicUsize,
    quit: AtomicBool,
    rets: Vec<Mutex<Vec<String>>>,
    progs: Vec<Vec<EOp>>,
    keys: Vec<String>,
}

/// Race the thread programs on the real registry `reps` times; collect the distinct outcomes.
/// Worker threads are detached (not scoped) so that a deadlock inside the registry can be reported.
fn run_conc(setup: &[EOp], progs: &[Vec<EOp>], reps: u64, budget: Duration) -> ConcResult {
    let t = progs.len();
    let sh = Arc::new(Shared {
        slot: Mutex::new(None),
        gen: AtomicUsize::new(0),
        ready: AtomicUsize::new(0),
        done: AtomicUsize::new(0),
        quit: AtomicBool::new(false),
        rets: (0..t).map(|_| Mutex::new(Vec::new())).collect(),
        progs: progs.to_vec(),
        keys: enum_keys(),
    });
    let mut res = ConcResult { observed: BTreeSet::new(), stuck: false, bcast_fail: None, reps: 0 };
    let limit = Duration::from_secs(60);
    let long = Duration::from_secs(3600);
    let mut joins = Vec::new();
    for ti in 0..t {
        let sh = sh.clone();
        joins.push(std::thread::spawn(move || {
            let mut rep = 0usize;
            loop {
                rep += 1;
                if !spin_until(|| sh.gen.load(Ordering::Acquire) >= rep || sh.quit.load(Ordering::Acquire), long) {
                    return;
                }
                if sh.quit.load(Ordering::Acquire) {
                    return;
                }
                let (reg, log) = sh.slot.lock().unwrap().clone().unwrap();
                sh.ready.fetch_add(1, Ordering::AcqRel);
                if !spin_until(|| sh.ready.load(Ordering::Acquire) >= rep * t || sh.quit.load(Ordering::Acquire), long) {
                    return;
                }
                let prog = &sh.progs[ti];
                let mut my = Vec::with_capacity(prog.len());
                for (pos, op) in prog.iter().enumerate() {
                    let tag = (100 * (ti + 1) + pos + 1) as u64;
                    my.push(real_apply(&reg, &log, tag, *op, &sh.keys, &[ti as u8 + 1, pos as u8]));
                }
                *sh.rets[ti].lock().unwrap() = my;
                drop(reg);
                sh.done.fetch_add(1, Ordering::AcqRel);
            }
        }));
    }
    let t_start = Instant::now();
    for rep in 1..=(reps as usize) {
        // wall-clock budget per spec: on an oversubscribed machine the spin barriers get slow; fewer
        // races are run then, never a different verdict
        if rep > 20 && t_start.elapsed() > budget {
            break;
        }
        let mut real = Real::new();
        for (i, op) in setup.iter().enumerate() {
            if let EOp::Ins(p) = op {
                real.inserted.push(*p);
            }
            real_apply(&real.reg, &real.log, (i + 1) as u64, *op, &sh.keys, &[0, i as u8]);
        }
        for p in progs.iter().flatten() {
            if let EOp::Ins(p) = p {
                real.inserted.push(*p);
            }
        }
        real.log.lock().unwrap().clear();
        *sh.slot.lock().unwrap() = Some((real.reg.clone(), real.log.clone()));
        sh.gen.store(rep, Ordering::Release);
        if !spin_until(|| sh.done.load(Ordering::Acquire) >= rep * t, limit) {
            res.stuck = true;
            sh.quit.store(true, Ordering::Release);
            // the stuck workers hold the registry lock: nothing more can be done with this registry
            std::mem::forget(real);
            return res;
        }
        let r: Vec<String> = sh.rets.iter().map(|m| m.lock().unwrap().join(",")).collect();
        // direct oracle on broadcasts: one delivery per id of the result map, to distinct sinks, nothing else
        if res.bcast_fail.is_none() {
            let log = real.log.lock().unwrap().clone();
            for (ti, prog) in progs.iter().enumerate() {
                let mine = sh.rets[ti].lock().unwrap().clone();
                for (pos, op) in prog.iter().enumerate() {
                    if *op == EOp::Bcast {
                        let body = vec![ti as u8 + 1, pos as u8];
                        let mut got: Vec<u64> = log.iter().filter(|r| r.body == body).map(|r| r.tag).collect();
                        got.sort();
                        let wrong = log.iter().any(|r| r.body == body && (r.path != "/c" || r.fmt != 0));
                        let n_ids = if mine[pos] == "{}" { 0 } else { mine[pos].matches(',').count() + 1 };
                        let mut uniq = got.clone();
                        uniq.dedup();
                        if got.len() != n_ids || uniq.len() != got.len() || wrong {
                            res.bcast_fail = Some(format!("broadcast by thread {} op {} reported {} but sinks {:?} received it", ti, pos, mine[pos], got));
                        }
                    }
                }
            }
        }
        res.observed.insert(format!("{}|{}", r.join(";"), real.digest(&ENUM_IDS, &sh.keys)));
        res.reps += 1;
    }
    sh.quit.store(true, Ordering::Release);
    for j in joins {
        let _ = j.join();
    }
    res
}

// ---------------------------------------------------------------------------------------------
// looped races: one mutator cycles through a sequence of calls that returns to its start state while
// reader threads repeat lookups.  Every lookup is one atomic step, so its answer must be the answer in
// ONE of the states of the cycle (a necessary condition for linearizability that needs no search).
// ---------------------------------------------------------------------------------------------
fn loop_tag(op: EOp) -> u64 {
    match op {
        EOp::Ins(p) => 10 + p,
        _ => 0,
    }
}

/// States of the cycle (start state first) or None if the spec is ill-formed (insert of a present id, or
/// the cycle does not return to its start state).
fn loop_states(setup: &[EOp], cycle: &[EOp]) -> Option<Vec<Spec>> {
    let mut spec = Spec::default();
    for op in setup {
        spec_apply(&mut spec, loop_tag(*op), *op)?;
    }
    let start = spec.digest(&ENUM_IDS, &enum_keys());
    let mut states = vec![spec.clone()];
    for op in cycle {
        spec_apply(&mut spec, loop_tag(*op), *op)?;
        states.push(spec.clone());
    }
    if spec.digest(&ENUM_IDS, &enum_keys()) != start {
        return None;
    }
    Some(states)
}

fn is_query(op: EOp) -> bool {
    matches!(op, EOp::GetBy(_) | EOp::Aliases(_) | EOp::Len | EOp::Bcast | EOp::Get(_) | EOp::KeyFor(_) | EOp::Peers | EOp::IsEmpty | EOp::DbgReg)
}

struct LoopResult {
    /// per reader: passes over its program that fell inside one call of the cycling thread (step index, answers)
    windows: Vec<Windows>,
    /// a return value of the cycling thread that differs from the specification's (step index, got)
    mutator_bad: Option<(usize, String)>,
    final_digest: String,
    /// per reader, per query position: the distinct answers observed
    answers: Vec<Vec<BTreeSet<String>>>,
    cycles: u64,
    reads: u64,
    stuck: bool,
}

type Windows = BTreeSet<(usize, Vec<String>)>;

fn run_loop(setup: &[EOp], cycle: &[EOp], readers: &[Vec<EOp>], expect: &[String], budget: Duration) -> LoopResult {
    let keys = enum_keys();
    let mut real = Real::new();
    for op in setup {
        if let EOp::Ins(p) = op {
            real.inserted.push(*p);
        }
        real_apply(&real.reg, &real.log, loop_tag(*op), *op, &keys, &[0]);
    }
    for op in cycle {
        if let EOp::Ins(p) = op {
            real.inserted.push(*p);
        }
    }
    let stop = Arc::new(AtomicBool::new(false));
    let go = Arc::new(AtomicBool::new(false));
    let cycles = Arc::new(AtomicUsize::new(0));
    let reads = Arc::new(AtomicUsize::new(0));
    // number of calls the cycling thread has completed (published after each call returns)
    let done = Arc::new(AtomicUsize::new(0));
    let mut joins: Vec<std::thread::JoinHandle<(Vec<BTreeSet<String>>, Windows)>> = Vec::new();
    {
        let (reg, log, stop, go, cycles, keys, cycle, expect, done) = (real.reg.clone(), real.log.clone(), stop.clone(), go.clone(), cycles.clone(), keys.clone(), cycle.to_vec(), expect.to_vec(), done.clone());
        joins.push(std::thread::spawn(move || {
            while !go.load(Ordering::Acquire) {
                std::hint::spin_loop();
            }
            let mut bad: Vec<BTreeSet<String>> = Vec::new();
            // always finish the cycle that was started: the registry ends in the start state
            while !stop.load(Ordering::Acquire) {
                for (i, op) in cycle.iter().enumerate() {
                    // the readers do not change the registry: the cycling thread's own calls must return
                    // exactly what they return without observers
                    let r = real_apply(&reg, &log, loop_tag(*op), *op, &keys, &[0]);
                    if r != expect[i] && bad.is_empty() {
                        bad.push(BTreeSet::from([format!("{}:{}", i, r)]));
                    }
                    done.fetch_add(1, Ordering::SeqCst);
                }
                cycles.fetch_add(1, Ordering::Relaxed);
                if cycles.load(Ordering::Relaxed) % 64 == 0 {
                    log.lock().unwrap().clear();
                }
            }
            (bad, Windows::new())
        }));
    }
    for prog in readers {
        let (reg, log, stop, go, reads, keys, prog, done, clen) = (real.reg.clone(), real.log.clone(), stop.clone(), go.clone(), reads.clone(), keys.clone(), prog.clone(), done.clone(), cycle.len());
        joins.push(std::thread::spawn(move || {
            let mut seen: Vec<BTreeSet<String>> = prog.iter().map(|_| BTreeSet::new()).collect();
            while !go.load(Ordering::Acquire) {
                std::hint::spin_loop();
            }
            let mut n = 0usize;
            let mut windows = Windows::new();
            let mut cur: Vec<String> = Vec::with_capacity(prog.len());
            while !stop.load(Ordering::Acquire) {
                // a pass over the program that starts and ends with the same number of completed calls of the
                // cycling thread lies inside ONE of its calls: at most that one call takes effect meanwhile
                let c1 = done.load(Ordering::SeqCst);
                cur.clear();
                for (i, op) in prog.iter().enumerate() {
                    let a = real_apply(&reg, &log, 0, *op, &keys, &[9]);
                    if !seen[i].contains(&a) {
                        seen[i].insert(a.clone());
                    }
                    cur.push(a);
                }
                let c2 = done.load(Ordering::SeqCst);
                if c1 == c2 && windows.len() < 48 {
                    let w = (c1 % clen, cur.clone());
                    if !windows.contains(&w) {
                        windows.insert(w);
                    }
                }
                n += 1;
                if n % 256 == 0 {
                    std::thread::yield_now();
                }
            }
            reads.fetch_add(n, Ordering::Relaxed);
            (seen, windows)
        }));
    }
    go.store(true, Ordering::Release);
    std::thread::sleep(budget);
    stop.store(true, Ordering::Release);
    let t0 = Instant::now();
    let mut res = LoopResult { windows: Vec::new(), mutator_bad: None, final_digest: String::new(), answers: Vec::new(), cycles: 0, reads: 0, stuck: false };
    for (i, j) in joins.into_iter().enumerate() {
        while !j.is_finished() {
            if t0.elapsed() > Duration::from_secs(60) {
                res.stuck = true;
                std::mem::forget(real);
                return res;
            }
            std::thread::sleep(Duration::from_millis(1));
        }
        let (seen, wins) = j.join().unwrap_or_default();
        if i > 0 {
            res.answers.push(seen);
            res.windows.push(wins);
        } else if let Some(b) = seen.first().and_then(|x| x.iter().next()) {
            let (i, r) = b.split_once(':').unwrap_or(("0", ""));
            res.mutator_bad = Some((i.parse().unwrap_or(0), r.to_string()));
        }
    }
    res.final_digest = real.digest(&ENUM_IDS, &keys);
    res.cycles = cycles.load(Ordering::Relaxed) as u64;
    res.reads = reads.load(Ordering::Relaxed) as u64;
    res
}

// ---------------------------------------------------------------------------------------------
// (s) sinks that stall for longer than any plausible internal timer; (u) the broadcast clause on the built-in
// WebSocket server's own sink (`with_peer_registry`)
// ---------------------------------------------------------------------------------------------
struct StallSink {
    ms: u64,
    got: Arc<Mutex<Vec<(u64, String, u16, Vec<u8>)>>>,
}
impl PeerSink for StallSink {
    fn send_notify(&self, method: &str, body: NotifyBody) -> Result<(), PeerSendError> {
        let fmt = body.body_format() as u16;
        // a transport that is slow to take the message: busy elsewhere for `ms`, then accepts it
        let t0 = Instant::now();
        while t0.elapsed() < Duration::from_millis(self.ms) {
            std::thread::sleep(Duration::from_millis(20));
            progress();
        }
        self.got.lock().unwrap().push((self.ms, method.to_string(), fmt, body.into_bytes()));
        Ok(())
    }
}

/// One broadcast to sinks that each stall for one of `stalls` ms, while a second thread keeps using the
/// registry.  Returns an error text if a peer present at the call did not get exactly one notification with the
/// given content, or the result map is not one `Ok` per such peer.
fn run_stall(stalls: &[u64]) -> Result<usize, String> {
    let reg = PeerRegistry::new();
    let got = Arc::new(Mutex::new(Vec::new()));
    for (i, ms) in stalls.iter().enumerate() {
        reg.insert(PeerHandle::new(PeerId(i as u64), Arc::new(StallSink { ms: *ms, got: got.clone() })));
        reg.alias(PeerId(i as u64), format!("k{}", i));
    }
    let stop = Arc::new(AtomicBool::new(false));
    let side = {
        let (reg, stop, got) = (reg.clone(), stop.clone(), got.clone());
        std::thread::spawn(move || {
            // inserts / removes of OTHER peers and lookups while the broadcast is between its sends
            let mut n = 0u64;
            while !stop.load(Ordering::Acquire) {
                let id = 100 + n % 5;
                reg.insert(PeerHandle::new(PeerId(id), Arc::new(StallSink { ms: 0, got: got.clone() })));
                reg.alias(PeerId(id), "side");
                let _ = (reg.get_by("k0").is_some(), reg.len(), reg.aliases_for(PeerId(0)));
                reg.remove(PeerId(id));
                n += 1;
                progress();
                std::thread::sleep(Duration::from_millis(5));
            }
            n
        })
    };
    std::thread::sleep(Duration::from_millis(30));
    let body = vec![7u8; 100];
    let res = reg.broadcast_notify_raw("/stall", BodyFormat::RawBinary, &body);
    stop.store(true, Ordering::Release);
    let side_ops = side.join().unwrap_or(0);
    let got = got.lock().unwrap().clone();
    // the peers 0..n were present at the call (the side thread's peers may or may not have been)
    for (i, ms) in stalls.iter().enumerate() {
        let mine: Vec<_> = got.iter().filter(|g| g.0 == *ms && g.1 == "/stall").collect();
        let same_ms = stalls.iter().filter(|m| *m == ms).count();
        if mine.len() != same_ms || mine.iter().any(|g| g.2 != 0 || g.3 != body) {
            return Err(format!("the sink that stalls {} ms received {} notifications (expected one with the given body)", ms, mine.len()));
        }
        match res.get(&PeerId(i as u64)) {
            Some(Ok(())) => {}
            other => return Err(format!("result for the peer whose sink stalls {} ms: {:?} (its sink answered Ok)", ms, other.map(|r| r.as_ref().map_err(|e| e.to_string())))),
        }
    }
    for i in 0..stalls.len() {
        if reg.get_by(format!("k{}", i).as_str()).map(|h| h.peer_id().0) != Some(i as u64) || reg.aliases_for(PeerId(i as u64)) != vec![format!("k{}", i)] {
            return Err(format!("after the broadcast peer {} or its key is gone", i));
        }
    }
    Ok(side_ops as usize)
}

/// The built-in server path: a WebSocketServer wired with `with_peer_registry`, `k` raw WebSocket clients;
/// every broadcast must reach every connected client exactly once as a notify frame with the given path, body
/// and format, and report one Ok per connected peer; after one client left, the same for the remaining ones.
fn run_ws(k: usize) -> Result<usize, String> {
    use futures_util::StreamExt;
    use repe_verif_harness::frames::RawFrame;
    use tokio_tungstenite::tungstenite::Message as WsMsg;
    let rt = tokio::runtime::Builder::new_multi_thread().worker_threads(2).enable_all().build().map_err(|e| e.to_string())?;
    let wd = Duration::from_secs(15);
    rt.block_on(async move {
        let reg = PeerRegistry::new();
        let l = tokio::net::TcpListener::bind("127.0.0.1:0").await.map_err(|e| e.to_string())?;
        let addr = l.local_addr().map_err(|e| e.to_string())?;
        let server = repe::WebSocketServer::new(repe::Router::new()).with_peer_registry(reg.clone());
        tokio::spawn(async move {
            let _ = server.serve_listener(l, "/repe").await;
        });
        let mut clients = Vec::new();
        for _ in 0..k {
            let (ws, _) = tokio::time::timeout(wd, tokio_tungstenite::connect_async(format!("ws://{}/repe", addr))).await.map_err(|_| "connect timed out".to_string())?.map_err(|e| e.to_string())?;
            clients.push(ws);
        }
        let wait_len = |want: usize| {
            let reg = reg.clone();
            async move {
                let t0 = Instant::now();
                while reg.len() != want {
                    if t0.elapsed() > wd {
                        return Err(format!("registry never reached {} peers (has {})", want, reg.len()));
                    }
                    tokio::time::sleep(Duration::from_millis(5)).await;
                    progress();
                }
                Ok(())
            }
        };
        wait_len(k).await?;
        let ids: Vec<PeerId> = reg.peers().iter().map(|h| h.peer_id()).collect();
        for (i, id) in ids.iter().enumerate() {
            if !reg.alias(*id, format!("c{}", i)) {
                return Err("alias of a connected peer refused".into());
            }
        }
        let mut checked = 0usize;
        let rounds: Vec<(&str, &str, u16, Vec<u8>)> = vec![
            ("raw", "/w/raw", 0, vec![1, 2, 3, 255]),
            ("utf8", "/w/é", 3, "héllo".as_bytes().to_vec()),
            ("json", "", 2, serde_json::to_vec(&serde_json::json!({"n": 1})).unwrap()),
            ("raw", "/w/big", 1, vec![9u8; 70_000]),
        ];
        for phase in 0..2 {
            for (variant, path, fmt, body) in &rounds {
                let reg2 = reg.clone();
                let (variant, path2, fmt, body2) = (variant.to_string(), path.to_string(), *fmt, body.clone());
                // the broadcast helpers are synchronous: off the runtime's worker threads
                let res = tokio::time::timeout(wd, tokio::task::spawn_blocking(move || match variant.as_str() {
                    "utf8" => reg2.broadcast_notify_utf8(&path2, String::from_utf8(body2).unwrap()),
                    "json" => reg2.broadcast_notify_json(&path2, &serde_json::from_slice::<serde_json::Value>(&body2).unwrap()).unwrap_or_default(),
                    _ => reg2.broadcast_notify_raw(&path2, BodyFormat::try_from(fmt).unwrap(), &body2),
                })).await.map_err(|_| "broadcast did not return".to_string())?.map_err(|e| e.to_string())?;
                if res.len() != clients.len() || res.values().any(|r| r.is_err()) {
                    return Err(format!("{} connected clients, result map {:?}", clients.len(), res.iter().map(|(k, v)| (k.0, v.is_ok())).collect::<Vec<_>>()));
                }
                for ws in clients.iter_mut() {
                    let m = tokio::time::timeout(wd, ws.next()).await.map_err(|_| format!("a connected client received nothing for the broadcast to `{}`", path))?;
                    let Some(Ok(WsMsg::Binary(b))) = m else { return Err("a connected client got something other than a binary message".into()) };
                    let Some((f, n)) = RawFrame::parse_prefix(&b) else { return Err("the notification is not a REPE frame".into()) };
                    if n != b.len() || f.h.notify != 1 || f.query != path.as_bytes() || f.body != *body || f.h.body_format != fmt {
                        return Err(format!("client received notify={} query {} bytes body {} bytes format {} for a broadcast of path {} bytes, body {} bytes, format {}", f.h.notify, f.query.len(), f.body.len(), f.h.body_format, path.len(), body.len(), fmt));
                    }
                    checked += 1;
                    progress();
                }
            }
            if phase == 0 {
                // one client leaves: its peer and its key must go, the others stay
                let mut gone = clients.remove(0);
                let _ = gone.close(None).await;
                drop(gone);
                wait_len(k - 1).await?;
                let live = (0..k).filter(|i| reg.get_by(format!("c{}", i).as_str()).is_some()).count();
                if live != k - 1 {
                    return Err(format!("after one of {} clients left, {} keys still resolve", k, live));
                }
            }
        }
        // nobody may have received anything more
        for ws in clients.iter_mut() {
            if let Ok(Some(Ok(WsMsg::Binary(_)))) = tokio::time::timeout(Duration::from_millis(150), ws.next()).await {
                return Err("a client received a notification nobody broadcast".into());
            }
        }
        Ok(checked)
    })
}

// ---------------------------------------------------------------------------------------------
// explicit op lines: a session = real registry + spec, both driven by the same lines
// ---------------------------------------------------------------------------------------------
struct Sess {
    real: Real,
    spec: Spec,
    ids: BTreeSet<u64>,
    keys: BTreeSet<String>,
    behs: BTreeMap<u64, Beh>,
    history: Vec<String>,
    minted: u64,
    fired: BTreeSet<u64>,
    worker: Worker,
    /// the registry stopped working (a poisoned mutex that is not recovered from): the rest of the history is skipped
    dead: bool,
}

/// the background broadcast to stalling sinks (started by `stall`, collected by `stalljoin`, across resets)
static STALL: Mutex<Option<std::thread::JoinHandle<Result<usize, String>>>> = Mutex::new(None);
static STALL_LINE: Mutex<String> = Mutex::new(String::new());

impl Sess {
    fn new() -> Sess {
        Sess { real: Real::new(), spec: Spec::default(), ids: BTreeSet::new(), keys: BTreeSet::new(), behs: BTreeMap::new(), history: vec![], minted: 0, fired: BTreeSet::new(), worker: Worker::new(), dead: false }
    }
    fn universe(&self) -> (Vec<u64>, Vec<String>) {
        (self.ids.iter().cloned().collect(), self.keys.iter().cloned().collect())
    }
}

struct Cfg {
    loop_budget: Duration,
    conc_reps: u64,
    conc_budget: Duration,
    threads: usize,
}

fn debug_mode() -> &'static str {
    if cfg!(debug_assertions) { "debug" } else { "release" }
}

/// Execute one op line. Returns (op line as recorded, observation, nontrivial).
/// Re-entrant sinks: what the sink with `tag` (wrapped by peer `id`'s handle) does to the registry when it is
/// sent to, applied to the harness specification.  All of these commute, so the order in which a
/// broadcast reaches the sinks does not matter for the final state.
fn fire_spec(out: &mut Out, se: &mut Sess, id: u64, tag: u64) {
    match se.behs.get(&tag).copied() {
        Some(Beh::Rem(x)) => {
            se.spec.remove(x);
            out.count("reentrant.remove");
        }
        Some(Beh::AliasSelf) => {
            let k = hex(self_key(tag).as_bytes());
            se.spec.alias(id, &k);
            se.keys.insert(k);
            out.count("reentrant.alias");
        }
        Some(Beh::InsNew) => {
            if se.fired.insert(tag) {
                se.spec.insert(1000 + tag, 100000 + tag);
                se.behs.insert(100000 + tag, Beh::Ok);
                se.ids.insert(1000 + tag);
                se.real.inserted.push(1000 + tag);
                out.count("reentrant.insert");
            }
        }
        Some(Beh::Read) => out.count("reentrant.read"),
        _ => {}
    }
}

fn exec(out: &mut Out, se: &mut Sess, cfg: &Cfg, line: &str) -> (String, String, bool) {
    // `via=<n>` (which generic instantiation carries the key / path) and `on=clone` (run this call on a
    // fresh clone of the registry) are parameters of the harness only; the model ignores them
    let mut via: u8 = 0;
    let mut w: Vec<&str> = Vec::new();
    for t in words(line) {
        if let Some(v) = t.strip_prefix("via=") {
            via = v.parse().unwrap_or(0);
        } else if t == "on=clone" {
            se.real.reg = se.real.reg.clone();
        } else {
            w.push(t);
        }
    }
    let idx = w.get(1).copied().unwrap_or("?").to_string();
    let bad = |l: &str| (l.to_string(), format!("{} bad-op", idx), false);
    progress();
    if !matches!(w[0], "enum" | "conc" | "concs" | "loop") {
        se.history.push(line.to_string());
        if let Ok(mut r) = RUNNING.lock() {
            if w[0] == "reset" {
                r.clear();
            }
            r.push(line.to_string());
        }
    } else if let Ok(mut r) = RUNNING.lock() {
        // the line itself is the replay of a race
        r.clear();
        r.push(line.to_string());
    }
    if let Ok(mut c) = RUNNING_CODED.lock() {
        c.clear();
    }
    let check_ret = |out: &mut Out, se: &Sess, name: &str, imp: &str, want: &str| {
        if imp != want {
            out.oracle_fail(&format!("peers.ret.{}", name), &format!("`{}` returned {} but the specification says {}", line, imp, want), &se.history);
        }
    };
    if se.dead && w[0] != "reset" {
        return (line.to_string(), format!("{} dead", idx), false);
    }
    match w[0] {
        "poison" if w.len() == 2 => {
            // a lookup whose key's `Hash` panics while the registry lock is held
            let reg = se.real.reg.clone();
            let r = catch(move || {
                let k = String::from("\u{1}panic");
                let e: &Evil = std::borrow::Borrow::borrow(&k);
                reg.get_by(e).is_some()
            });
            out.count("poison");
            // the registry must keep working: one probe call, guarded so that a registry that now panics on
            // every call is a report and not a crash of the harness
            let reg = se.real.reg.clone();
            match catch(move || reg.len()) {
                Ok(_) => {}
                Err(_) => {
                    out.oracle_fail("peers.poison.not_recovered", "after a caller panicked inside a lookup the registry panics on every call", &se.history);
                    se.dead = true;
                }
            }
            // (whether the lookup gets as far as hashing the key depends on the map being non-empty: not observed)
            out.count(if r.is_err() { "poison.panicked_under_lock" } else { "poison.lookup_returned" });
            (line.to_string(), format!("{} done", idx), true)
        }
        "reset" => {
            *se = Sess::new();
            if via == 1 {
                se.real.reg = PeerRegistry::default();
            }
            se.history.push(line.to_string());
            (line.to_string(), format!("{} ok", idx), false)
        }
        "ins" if w.len() == 5 => {
            let (Ok(id), Ok(tag), Some(beh)) = (w[2].parse::<u64>(), w[3].parse::<u64>(), Beh::parse(w[4])) else { return bad(line) };
            se.ids.insert(id);
            let was = se.spec.present(id);
            let r = se.real.ins(id, tag, beh);
            se.spec.insert(id, tag);
            se.behs.insert(tag, beh);
            out.count(if was { "ins.present(out-of-contract)" } else { "ins.fresh" });
            let want = if was && cfg!(debug_assertions) { "PANIC" } else { "u" };
            if !was {
                check_ret(out, se, "insert", r, want);
            }
            (line.to_string(), format!("{} {}", idx, r), !was)
        }
        "rem" if w.len() == 3 => {
            let Ok(id) = w[2].parse::<u64>() else { return bad(line) };
            se.ids.insert(id);
            let r = se.real.rem(id);
            let want = se.spec.remove(id);
            out.count(if want == "-" { "rem.absent" } else { "rem.present" });
            check_ret(out, se, "remove", &r, &want);
            (line.to_string(), format!("{} {}", idx, r), want != "-")
        }
        "alias" if w.len() == 4 => {
            let Ok(id) = w[2].parse::<u64>() else { return bad(line) };
            se.ids.insert(id);
            se.keys.insert(w[3].to_string());
            let r = se.real.alias(id, w[3], via);
            let (ok, branch) = se.spec.alias(id, w[3]);
            out.count(branch);
            check_ret(out, se, "alias", r, if ok { "T" } else { "F" });
            (line.to_string(), format!("{} {}", idx, r), branch == "alias.moved" || branch == "alias.fresh")
        }
        "get" if w.len() == 3 => {
            let Ok(id) = w[2].parse::<u64>() else { return bad(line) };
            se.ids.insert(id);
            let r = se.real.get(id);
            let want = se.spec.get(id);
            out.count("get");
            check_ret(out, se, "get", &r, &want);
            (line.to_string(), format!("{} {}", idx, r), want != "-")
        }
        "getby" if w.len() == 3 => {
            se.keys.insert(w[2].to_string());
            let r = se.real.getby_via(w[2], via);
            let want = se.spec.getby(w[2]);
            out.count(if want == "-" { "getby.none" } else { "getby.some" });
            check_ret(out, se, "get_by", &r, &want);
            (line.to_string(), format!("{} {}", idx, r), want != "-")
        }
        "keyfor" if w.len() == 3 => {
            let Ok(id) = w[2].parse::<u64>() else { return bad(line) };
            se.ids.insert(id);
            let r = se.real.keyfor(id);
            let want = se.spec.keyfor(id);
            out.count("keyfor");
            check_ret(out, se, "key_for", &r, &want);
            (line.to_string(), format!("{} {}", idx, r), want != "-")
        }
        "aliases" if w.len() == 3 => {
            let Ok(id) = w[2].parse::<u64>() else { return bad(line) };
            se.ids.insert(id);
            let r = se.real.aliases(id);
            let want = se.spec.aliases(id);
            out.count("aliases");
            check_ret(out, se, "aliases_for", &r, &want);
            (line.to_string(), format!("{} {}", idx, r), want != "[]")
        }
        "len" if w.len() == 2 => {
            let r = se.real.len().to_string();
            check_ret(out, se, "len", &r, &se.spec.peers.len().to_string());
            out.count("len");
            (line.to_string(), format!("{} {}", idx, r), false)
        }
        "dump" if w.len() == 2 => {
            let (ids, keys) = se.universe();
            let d = se.real.digest(&ids, &keys);
            let sd = se.spec.digest(&ids, &keys);
            out.count("dump");
            if d != sd {
                out.oracle_fail(&format!("peers.state.{}", digest_diff(&d, &sd)), &format!("registry answers {} but the specification says {}", d, sd), &se.history);
            }
            // twins agree (both sides from the registry itself, independent of the specification)
            for i in &ids {
                let first = se.real.reg.aliases_for(PeerId(*i)).first().cloned();
                if se.real.reg.key_for(PeerId(*i)) != first {
                    out.oracle_fail("peers.twins.key_for", &format!("key_for({}) is not the first element of aliases_for({})", i, i), &se.history);
                }
            }
            let mut snap: Vec<u64> = se.real.reg.peers().iter().map(|h| h.peer_id().0).collect();
            snap.sort();
            let mut via_get: Vec<u64> = ids.iter().cloned().filter(|i| se.real.reg.get(PeerId(*i)).is_some()).collect();
            via_get.sort();
            if snap != via_get || snap.len() != se.real.len() {
                out.oracle_fail("peers.twins.peers", &format!("peers() lists {:?}, get() finds {:?}, len() = {}", snap, via_get, se.real.len()), &se.history);
            }
            if se.real.reg.is_empty() != (se.real.len() == 0) {
                out.oracle_fail("peers.state.is_empty", "is_empty() disagrees with len()", &se.history);
            }
            (line.to_string(), format!("{} {}", idx, d), sd.contains('/'))
        }
        "bcast" if w.len() == 6 || w.len() == 7 => {
            let variant = w[2];
            let (Some(pathb), Ok(fmt), Some(body)) = (unhex(w[3]), w[4].parse::<u16>(), unhex(w[5])) else { return bad(line) };
            let Ok(path) = String::from_utf8(pathb) else { return bad(line) };
            let src = w.get(6).and_then(|s| unhex(s));
            se.real.log.lock().unwrap().clear();
            let reg = se.real.reg.clone();
            // run on the long-lived worker thread: a registry that holds its lock while sending deadlocks on
            // a re-entrant sink, which must become a report, not a hang; and per-thread state of the helpers
            // survives between calls
            let (variant_s, path_s, body_s) = (variant.to_string(), path.clone(), body.clone());
            type BRes = (Vec<(u64, &'static str)>, Vec<(u64, String)>);
            let outcome = se.worker.run(Duration::from_secs(30), move || {
                let r: Result<Result<BRes, String>, String> = catch(|| {
                    let res = match (variant_s.as_str(), via) {
                        ("raw", v) => {
                            let f = BodyFormat::try_from(fmt).map_err(|_| "fmt".to_string())?;
                            match v {
                                1 => reg.broadcast_notify_raw(path_s.as_str(), f, &body_s),
                                2 => reg.broadcast_notify_raw(path_s.clone(), f, &body_s),
                                3 => reg.broadcast_notify_raw(std::borrow::Cow::Borrowed(path_s.as_str()), f, &body_s),
                                _ => reg.broadcast_notify_raw(&path_s, f, &body_s),
                            }
                        }
                        ("utf8", v) => {
                            let text = String::from_utf8(body_s.clone()).map_err(|_| "utf8".to_string())?;
                            match v {
                                1 => reg.broadcast_notify_utf8(path_s.as_str(), text.as_str()),
                                2 => reg.broadcast_notify_utf8(path_s.clone(), std::borrow::Cow::Borrowed(text.as_str())),
                                _ => reg.broadcast_notify_utf8(&path_s, text),
                            }
                        }
                        ("json", v) => {
                            let val: serde_json::Value = serde_json::from_slice(&body_s).map_err(|_| "json".to_string())?;
                            match (v, val.as_str()) {
                                // unsized `T = str`
                                (1, Some(t)) => reg.broadcast_notify_json::<_, str>(path_s.as_str(), t).map_err(|_| "encode".to_string())?,
                                _ => reg.broadcast_notify_json(&path_s, &val).map_err(|_| "encode".to_string())?,
                            }
                        }
                        ("beve", _) => {
                            let val: serde_json::Value = serde_json::from_slice(src.as_deref().unwrap_or(b"null")).map_err(|_| "json".to_string())?;
                            reg.broadcast_notify_beve(&path_s, &val).map_err(|_| "encode".to_string())?
                        }
                        _ => return Err("variant".to_string()),
                    };
                    let mut v: Vec<(u64, &'static str)> = res.iter().map(|(k, r)| (k.0, send_class(r))).collect();
                    v.sort();
                    let mut texts: Vec<(u64, String)> = res.iter().filter_map(|(k, r)| if let Err(PeerSendError::Other(t)) = r { Some((k.0, t.clone())) } else { None }).collect();
                    texts.sort();
                    Ok((v, texts))
                });
                r
            });
            let mut present: Vec<(u64, u64)> = se.spec.peers.iter().map(|p| (p.id, p.tag)).collect();
            present.sort();
            let panicky = present.iter().any(|(_, t)| matches!(se.behs.get(t), Some(Beh::Panic(_))));
            let (got, texts) = match outcome {
                Some(Ok(Ok(v))) => v,
                Some(Ok(Err(_))) => return bad(line),
                Some(Err(_)) => {
                    // the property says nothing about what a broadcast does when a sink panics; it is only
                    // a report when no present sink was one that panics.  The registry itself must be
                    // untouched either way (the `dump` that follows checks that).
                    if !panicky {
                        out.oracle_fail("peers.bcast.panic", "broadcast panicked although no sink did", &se.history);
                    }
                    out.count("bcast.sink_panics");
                    return (line.to_string(), format!("{} PANIC", idx), false);
                }
                None => {
                    out.oracle_fail("peers.bcast.stuck", "broadcast did not return within 30 s with a sink that calls back into the registry (lock held while sending?)", &se.history);
                    return (line.to_string(), format!("{} STUCK", idx), false);
                }
            };
            if panicky {
                // a sink panicked and the broadcast swallowed it: not the property's business, but the
                // model predicts PANIC (unwinding out of broadcast_each), so this shows as a disagreement
                return (line.to_string(), format!("{} swallowed-panic", idx), false);
            }
            let want_fmt: u16 = match variant { "json" => 2, "beve" => 1, "utf8" => 3, _ => fmt };
            let mut log = se.real.log.lock().unwrap().clone();
            log.sort_by_key(|r| {
                se.spec.peers.iter().find(|p| p.tag == r.tag).map(|p| p.id).unwrap_or(u64::MAX)
            });
            // direct oracle: one notification with the given path/body/format per present peer, one result per peer
            let mut got_tags: Vec<u64> = log.iter().map(|r| r.tag).collect();
            got_tags.sort();
            let mut want_tags: Vec<u64> = present.iter().map(|p| p.1).collect();
            want_tags.sort();
            if got_tags != want_tags {
                out.oracle_fail("peers.bcast.deliveries", &format!("present peers' sinks {:?}, sinks that received the notification {:?}", want_tags, got_tags), &se.history);
            }
            if log.iter().any(|r| r.path != path || r.body != body || r.fmt != want_fmt) {
                let bad_r = log.iter().find(|r| r.path != path || r.body != body || r.fmt != want_fmt).unwrap();
                out.oracle_fail("peers.bcast.content", &format!("a sink received a different path, body or format than the caller gave: path {} bytes (given {}), body {} bytes (given {}), format {} (given {})", bad_r.path.len(), path.len(), bad_r.body.len(), body.len(), bad_r.fmt, want_fmt), &se.history);
            }
            let want_res: Vec<(u64, &'static str)> = present.iter().map(|(id, tag)| (*id, se.behs.get(tag).map(|b| b.answer()).unwrap_or("ok"))).collect();
            if got != want_res {
                out.oracle_fail("peers.bcast.results", &format!("result map {:?}, expected one result per present peer {:?}", got, want_res), &se.history);
            }
            let want_texts: Vec<(u64, String)> = present.iter().filter(|(_, t)| se.behs.get(t) == Some(&Beh::Other)).map(|(id, t)| (*id, other_text(*t))).collect();
            if got == want_res && texts != want_texts {
                out.oracle_fail("peers.bcast.result_value", "the result reported for a peer is not the error its sink returned", &se.history);
            }
            if TWIN_MISMATCH.load(Ordering::SeqCst) {
                out.oracle_fail("peers.body.twins", "NotifyBody::as_bytes() and into_bytes() disagree", &se.history);
                TWIN_MISMATCH.store(false, Ordering::SeqCst);
            }
            // re-entrant sinks have fired
            for (id, tag) in &present {
                fire_spec(out, se, *id, *tag);
            }
            out.count(&format!("bcast.{}.peers{}", variant, present.len().min(4)));
            out.count(&format!("bcast.body.{}", match body.len() { 0 => "0", 1..=255 => "1-255", 256..=4095 => "256-4095", 4096..=65534 => "4096-65534", _ => ">=65535" }));
            out.count(&format!("bcast.path.{}", match path.len() { 0 => "0", 1..=255 => "1-255", _ => ">255" }));
            let id_of = |tag: u64| present.iter().find(|p| p.1 == tag).map(|p| p.0.to_string()).unwrap_or_else(|| "?".into());
            let eqp = |x: &str| if x == path { "=".to_string() } else { hex(x.as_bytes()) };
            let eqb = |x: &[u8]| if x == &body[..] { "=".to_string() } else { hex(x) };
            let sent = if log.is_empty() { "-".to_string() } else { log.iter().map(|r| format!("{}/{}:{}:{}:{}", id_of(r.tag), r.tag, eqp(&r.path), r.fmt, eqb(&r.body))).collect::<Vec<_>>().join(",") };
            let res = if got.is_empty() { "-".to_string() } else { got.iter().map(|(i, r)| format!("{}={}", i, r)).collect::<Vec<_>>().join(",") };
            (line.to_string(), format!("{} sent {} res {}", idx, sent, res), !present.is_empty())
        }
        "peers" if w.len() == 2 => {
            let mut hs: Vec<(u64, u64)> = se.real.reg.peers().iter().map(|h| (h.peer_id().0, tag_of(h))).collect();
            hs.sort();
            let mut want: Vec<(u64, u64)> = se.spec.peers.iter().map(|p| (p.id, p.tag)).collect();
            want.sort();
            out.count("peers");
            if hs != want {
                out.oracle_fail("peers.ret.peers", &format!("peers() returned {:?} but the present peers are {:?}", hs, want), &se.history);
            }
            (line.to_string(), format!("{} [{}]", idx, hs.iter().map(|(i, t)| format!("{}/{}", i, t)).collect::<Vec<_>>().join(",")), !want.is_empty())
        }
        "isempty" if w.len() == 2 => {
            let r = se.real.reg.is_empty();
            out.count("isempty");
            if r != se.spec.peers.is_empty() {
                out.oracle_fail("peers.ret.is_empty", "is_empty() disagrees with the specification", &se.history);
            }
            (line.to_string(), format!("{} {}", idx, if r { "T" } else { "F" }), false)
        }
        "mint" if w.len() == 2 => {
            // every clone of the registry shares one counter: mint through a fresh clone each time
            let r = se.real.reg.clone().next_peer_id().0;
            out.count("mint");
            if r != se.minted {
                out.oracle_fail("peers.ret.next_peer_id", &format!("next_peer_id returned {} after {} earlier mints", r, se.minted), &se.history);
            }
            se.minted += 1;
            (line.to_string(), format!("{} {}", idx, r), true)
        }
        "hsend" if w.len() == 7 => {
            let (Ok(id), Some(pathb), Ok(fmt), Some(body)) = (w[2].parse::<u64>(), unhex(w[4]), w[5].parse::<u16>(), unhex(w[6])) else { return bad(line) };
            let Ok(path) = String::from_utf8(pathb) else { return bad(line) };
            se.ids.insert(id);
            let nb = match w[3] {
                "beve" => NotifyBody::Beve(body.clone()),
                "json" => NotifyBody::Json(body.clone()),
                "utf8" => match String::from_utf8(body.clone()) {
                    Ok(t) => NotifyBody::Utf8(t),
                    Err(_) => return bad(line),
                },
                "raw" => match BodyFormat::try_from(fmt) {
                    Ok(f) => NotifyBody::Raw(body.clone(), f),
                    Err(_) => return bad(line),
                },
                _ => return bad(line),
            };
            let want_fmt: u16 = match w[3] { "beve" => 1, "json" => 2, "utf8" => 3, _ => fmt };
            out.count(&format!("hsend.{}", w[3]));
            match se.real.reg.get(PeerId(id)) {
                None => {
                    if se.spec.present(id) {
                        out.oracle_fail("peers.ret.get", "get returned None for a present peer", &se.history);
                    }
                    (line.to_string(), format!("{} none", idx), false)
                }
                Some(h) => {
                    se.real.log.lock().unwrap().clear();
                    let tag = se.spec.find(id).map(|p| p.tag).unwrap_or(u64::MAX);
                    let beh = se.behs.get(&tag).copied().unwrap_or(Beh::Ok);
                    let path2 = path.clone();
                    let r = match catch(move || h.send_notify(&path2, nb)) {
                        Ok(r) => r,
                        Err(_) => {
                            if !matches!(beh, Beh::Panic(_)) {
                                out.oracle_fail("peers.handle.panic", "PeerHandle::send_notify panicked although the sink did not", &se.history);
                            }
                            return (line.to_string(), format!("{} PANIC", idx), false);
                        }
                    };
                    let log = se.real.log.lock().unwrap().clone();
                    // direct oracle: PeerHandle::send_notify hands exactly this call to its own sink
                    let ok = log.len() == 1 && log[0].tag == tag && log[0].path == path && log[0].fmt == want_fmt && log[0].body == body && send_class(&r) == beh.answer();
                    if !ok {
                        out.oracle_fail("peers.handle.send_notify", &format!("sink log {:?}, result {}", log.iter().map(|r| (r.tag, r.path.len(), r.fmt, r.body.len())).collect::<Vec<_>>(), send_class(&r)), &se.history);
                    }
                    if let (Beh::Other, Err(PeerSendError::Other(t))) = (beh, &r) {
                        if *t != other_text(tag) {
                            out.oracle_fail("peers.handle.result_value", "PeerHandle::send_notify did not return the sink's error", &se.history);
                        }
                    }
                    fire_spec(out, se, id, tag);
                    let eqp = |x: &str| if x == path { "=".to_string() } else { hex(x.as_bytes()) };
                    let eqb = |x: &[u8]| if x == &body[..] { "=".to_string() } else { hex(x) };
                    let l = log.first().map(|r| format!("{}/{}:{}:{}:{}", id, r.tag, eqp(&r.path), r.fmt, eqb(&r.body))).unwrap_or_else(|| "nolog".into());
                    (line.to_string(), format!("{} {} {}", idx, l, send_class(&r)), true)
                }
            }
        }
        "hconn" | "dbg" if w.len() == 3 => {
            let Ok(id) = w[2].parse::<u64>() else { return bad(line) };
            se.ids.insert(id);
            out.count(w[0]);
            match se.real.reg.get(PeerId(id)) {
                None => (line.to_string(), format!("{} none", idx), false),
                Some(h) => {
                    if w[0] == "hconn" {
                        let tag = se.spec.find(id).map(|p| p.tag).unwrap_or(u64::MAX);
                        let want = se.behs.get(&tag).copied().unwrap_or(Beh::Ok).connected();
                        if h.is_connected() != want {
                            out.oracle_fail("peers.handle.is_connected", "PeerHandle::is_connected does not forward the sink's answer", &se.history);
                        }
                        (line.to_string(), format!("{} {}", idx, if h.is_connected() { "T" } else { "F" }), true)
                    } else {
                        (line.to_string(), format!("{} {}|{}", idx, format!("{:?}", h).replace(' ', ""), h.peer_id()), true)
                    }
                }
            }
        }
        "dbgreg" if w.len() == 2 => {
            out.count("dbgreg");
            (line.to_string(), format!("{} {}", idx, format!("{:?}", se.real.reg).replace(' ', "")), false)
        }
        "ctx" if w.len() == 4 || w.len() == 5 => {
            use futures_util::FutureExt;
            out.count("ctx");
            let show = |c: &repe::CallContext<'_>| {
                let peer = c.peer().map(|h| format!("{}/{}", h.peer_id().0, tag_of(h))).unwrap_or_else(|| "-".into());
                let pending = c.cancelled().now_or_never().is_none();
                format!("{} {} {} {}", hex(c.method().as_bytes()), peer, if c.is_cancelled() { "T" } else { "F" }, if pending { "pending" } else { "ready" })
            };
            if w[2] == "detached" && w.len() == 4 {
                let Some(m) = unhex(w[3]).and_then(|b| String::from_utf8(b).ok()) else { return bad(line) };
                let c = repe::CallContext::detached(&m);
                (line.to_string(), format!("{} {}", idx, show(&c)), false)
            } else if w[2] == "new" && w.len() == 5 {
                let (Ok(id), Some(m)) = (w[3].parse::<u64>(), unhex(w[4]).and_then(|b| String::from_utf8(b).ok())) else { return bad(line) };
                se.ids.insert(id);
                match se.real.reg.get(PeerId(id)) {
                    None => (line.to_string(), format!("{} none", idx), false),
                    Some(h) => {
                        let c = repe::CallContext::new(&m, &h);
                        (line.to_string(), format!("{} {}", idx, show(&c)), true)
                    }
                }
            } else {
                bad(line)
            }
        }
        "bcastfail" if w.len() == 4 || w.len() == 5 => {
            // 5th token: how the body fails to encode: `none` (before any output), `partial` (a Serialize impl
            // that errors after its first entry), `mapkey` (a map whose keys are not strings; json only)
            let Some(path) = unhex(w[3]).and_then(|b| String::from_utf8(b).ok()) else { return bad(line) };
            let mode = w.get(4).copied().unwrap_or("none").to_string();
            se.real.log.lock().unwrap().clear();
            let reg = se.real.reg.clone();
            let variant = w[2].to_string();
            // on the same worker thread as the successful broadcasts: whatever a failed encode leaves behind
            // must not reach a later call
            let r = se.worker.run(Duration::from_secs(30), move || {
                catch(|| {
                    let mut mk: std::collections::BTreeMap<(u8, u8), u8> = std::collections::BTreeMap::new();
                    mk.insert((1, 2), 3);
                    match (variant.as_str(), mode.as_str()) {
                        ("json", "partial") => Some(reg.broadcast_notify_json(&path, &PartialThenFail).is_err()),
                        ("json", "mapkey") => Some(reg.broadcast_notify_json(&path, &mk).is_err()),
                        ("json", _) => Some(reg.broadcast_notify_json(&path, &Unencodable).is_err()),
                        ("beve", "partial") => Some(reg.broadcast_notify_beve(&path, &PartialThenFail).is_err()),
                        ("beve", _) => Some(reg.broadcast_notify_beve(&path, &Unencodable).is_err()),
                        _ => None,
                    }
                })
            });
            let r = match r {
                Some(Ok(Some(r))) => r,
                Some(Ok(None)) => return bad(line),
                Some(Err(_)) => {
                    out.oracle_fail("peers.bcast.panic", "broadcast panicked on a body that fails to encode", &se.history);
                    return (line.to_string(), format!("{} PANIC", idx), false);
                }
                None => {
                    out.oracle_fail("peers.bcast.stuck", "broadcast with a body that fails to encode did not return within 30 s", &se.history);
                    return (line.to_string(), format!("{} STUCK", idx), false);
                }
            };
            let n = se.real.log.lock().unwrap().len();
            out.count(&format!("bcast.encoder_error.{}", w.get(4).copied().unwrap_or("none")));
            if !r || n != 0 {
                out.oracle_fail("peers.bcast.encoder_error", &format!("encoder failed: returned Err = {}, notifications sent = {}", r, n), &se.history);
            }
            (line.to_string(), format!("{} {} sent {}", idx, if r { "err" } else { "ok" }, if n == 0 { "-".to_string() } else { n.to_string() }), !se.spec.peers.is_empty())
        }
        "enum" if w.len() == 5 || w.len() == 6 => {
            let (Ok(depth), Ok(fold)) = (w[2].parse::<usize>(), w[3].parse::<usize>()) else { return bad(line) };
            // optional 6th token: the alphabet of coded ops (default a..o = insert/remove/alias)
            let alphabet: Vec<u8> = match w.get(5) {
                Some(a) if a.bytes().all(|b| (97..123).contains(&b)) => a.bytes().map(|b| b - 97).collect(),
                Some(_) => return bad(line),
                None => (0..15u8).collect(),
            };
            match run_enum(&idx, depth, fold, w[4], &alphabet, cfg.threads) {
                Some((lines, nodes, nt, fails)) => {
                    for f in fails {
                        out.oracle_fail(&f.sig, &f.detail, &f.ops);
                    }
                    out.add("enum.sequences", nodes);
                    out.evaluations += nodes.saturating_sub(1);
                    out.nontrivial_distinct += nt.saturating_sub(1);
                    (line.to_string(), lines.join("\n"), nt > 0)
                }
                None => bad(line),
            }
        }
        "stall" if w.len() >= 3 => {
            // stall <i> <ms>.. : started in the background, joined by `stalljoin`
            let ms: Vec<u64> = w[2..].iter().filter_map(|x| x.parse().ok()).collect();
            if ms.len() != w.len() - 2 || STALL.lock().unwrap().is_some() {
                return bad(line);
            }
            *STALL_LINE.lock().unwrap() = line.to_string();
            *STALL.lock().unwrap() = Some(std::thread::spawn(move || run_stall(&ms)));
            out.count("stall.started");
            (line.to_string(), format!("{} started", idx), true)
        }
        "stalljoin" if w.len() == 2 => {
            let Some(j) = STALL.lock().unwrap().take() else { return bad(line) };
            match j.join() {
                Ok(Ok(n)) => {
                    out.add("stall.side_ops_during_broadcast", n as u64);
                    (line.to_string(), format!("{} ok", idx), true)
                }
                Ok(Err(d)) => {
                    let ops = vec![STALL_LINE.lock().unwrap().clone(), line.to_string()];
                    out.oracle_fail("peers.bcast.stalled_sink", &d, &ops);
                    (line.to_string(), format!("{} FAILED", idx), true)
                }
                Err(_) => {
                    out.oracle_fail("peers.bcast.stalled_sink", "the broadcast to stalling sinks panicked", &se.history);
                    (line.to_string(), format!("{} FAILED", idx), true)
                }
            }
        }
        "ws" if w.len() == 3 => {
            let Ok(k) = w[2].parse::<usize>() else { return bad(line) };
            if k < 2 || k > 16 {
                return bad(line);
            }
            match catch(|| run_ws(k)) {
                Ok(Ok(n)) => {
                    out.add("ws.notifications_checked", n as u64);
                    (line.to_string(), format!("{} ok", idx), true)
                }
                Ok(Err(d)) => {
                    out.oracle_fail("peers.ws.broadcast", &format!("WebSocketServer::with_peer_registry, {} clients: {}", k, d), &se.history);
                    (line.to_string(), format!("{} FAILED", idx), true)
                }
                Err(_) => {
                    out.oracle_fail("peers.ws.broadcast", "the WebSocket scenario panicked", &se.history);
                    (line.to_string(), format!("{} FAILED", idx), true)
                }
            }
        }
        "loop" if w.len() >= 5 => {
            // loop <i> <setup> <cycle> <reader>.. [:: <answers per reader>..]
            let (Some(setup), Some(cycle)) = (eops_of_str(w[2]), eops_of_str(w[3])) else { return bad(line) };
            let mut readers = Vec::new();
            for t in &w[4..] {
                if *t == "::" {
                    break;
                }
                let Some(p) = eops_of_str(t) else { return bad(line) };
                if p.is_empty() || !p.iter().all(|o| is_query(*o)) {
                    return bad(line);
                }
                readers.push(p);
            }
            let Some(states) = loop_states(&setup, &cycle) else { return bad(line) };
            if readers.is_empty() || cycle.is_empty() {
                return bad(line);
            }
            let expect: Vec<String> = cycle.iter().enumerate().map(|(i, op)| spec_apply(&mut states[i].clone(), loop_tag(*op), *op).unwrap_or_default()).collect();
            let res = run_loop(&setup, &cycle, &readers, &expect, cfg.loop_budget);
            let head: Vec<&str> = w.iter().take_while(|x| **x != "::").cloned().collect();
            let head = head.join(" ");
            if res.stuck {
                out.oracle_fail("peers.loop.stuck", "looping callers did not stop within 60 s", &[head.clone()]);
                return (head, format!("{} STUCK", idx), false);
            }
            if let Some((i, r)) = &res.mutator_bad {
                out.oracle_fail("peers.loop.mutator", &format!("while observers run, step {} of the cycle `{}` returned {} but the specification says {}", i, w[3], r, expect[*i]), &[head.clone()]);
            }
            let want_final = states[0].digest(&ENUM_IDS, &enum_keys());
            if res.mutator_bad.is_none() && res.final_digest != want_final {
                out.oracle_fail("peers.loop.final_state", &format!("after the cycles the registry answers {} but the specification says {}", res.final_digest, want_final), &[head.clone()]);
            }
            out.add("loop.cycles", res.cycles);
            out.add("loop.reads", res.reads);
            out.evaluations += res.reads;
            // observed answers on the op line: per reader `c=ans|ans;c=ans`
            let toks: Vec<String> = res
                .answers
                .iter()
                .enumerate()
                .map(|(ri, seen)| {
                    let codes: Vec<char> = w[4 + ri].chars().collect();
                    let mut t = seen.iter().enumerate().map(|(i, set)| format!("{}={}", codes[i], set.iter().cloned().collect::<Vec<_>>().join("|"))).collect::<Vec<_>>().join(";");
                    if !res.windows[ri].is_empty() {
                        t.push_str(";@");
                        t.push_str(&res.windows[ri].iter().map(|(i, a)| format!("{}:{}", i, a.join("&"))).collect::<Vec<_>>().join("|"));
                    }
                    t
                })
                .collect();
            let full = format!("{} :: {}", head, toks.join(" "));
            // direct oracle: every answer is the answer in one of the cycle's states
            let mut bad_ans: Option<String> = None;
            let mut total = 0usize;
            for (prog, seen) in readers.iter().zip(res.answers.iter()) {
                for (op, set) in prog.iter().zip(seen.iter()) {
                    let adm: BTreeSet<String> = states.iter().map(|st| spec_apply(&mut st.clone(), 0, *op).unwrap_or_default()).collect();
                    for a in set {
                        total += 1;
                        if !adm.contains(a) && bad_ans.is_none() {
                            bad_ans = Some(format!("{:?} answered {} but in every state the cycle passes through the answer is one of {:?}", op, a, adm));
                        }
                    }
                }
            }
            // windowed passes: all answers of the pass come from the state before the in-flight call or, from
            // some point on, from the state after it
            let mut bad_win: Option<String> = None;
            for (prog, wins) in readers.iter().zip(res.windows.iter()) {
                for (i, answers) in wins {
                    total += 1;
                    let (before, after) = (&states[*i], &states[(*i + 1) % states.len().max(1)]);
                    let after = if *i + 1 < states.len() { &states[*i + 1] } else { after };
                    let from = |st: &Spec, op: EOp| spec_apply(&mut st.clone(), 0, op).unwrap_or_default();
                    let ok = (0..=answers.len()).any(|j| prog.iter().zip(answers.iter()).enumerate().all(|(q, (op, a))| *a == from(if q < j { before } else { after }, *op)));
                    if !ok && bad_win.is_none() {
                        bad_win = Some(format!("during call {} of the cycle ({:?}) one pass of {:?} answered {:?}: neither the state before that call, nor the state after it, nor a switch from one to the other gives these answers", i, cycle[*i], prog, answers));
                    }
                }
            }
            if let (None, Some(d)) = (&bad_ans, &bad_win) {
                out.oracle_fail("peers.loop.torn", &format!("while one thread cycles `{}` from `{}`: {}", w[3], w[2], d), &[full.clone()]);
                return (full, format!("{} INADMISSIBLE", idx), true);
            }
            match bad_ans {
                Some(d) => {
                    out.oracle_fail("peers.loop.inadmissible", &format!("while one thread cycles `{}` from `{}`: {}", w[3], w[2], d), &[full.clone()]);
                    (full, format!("{} INADMISSIBLE", idx), true)
                }
                None => (full, format!("{} ok {}", idx, total), true),
            }
        }
        "conc" | "concs" if w.len() >= 4 => {
            // `concs`: the sinks of the peers inserted by this spec are slow (a few ms per send), which keeps a
            // broadcast between its snapshot and its sends while the other threads run
            CODED_SLOW.store(w[0] == "concs", Ordering::SeqCst);
            let Some(setup) = eops_of_str(w[2]) else { return bad(line) };
            let mut progs = Vec::new();
            for t in &w[3..] {
                if *t == "::" {
                    break;
                }
                let Some(p) = eops_of_str(t) else { return bad(line) };
                progs.push(p);
            }
            let mut spec = Spec::default();
            for (i, op) in setup.iter().enumerate() {
                if spec_apply(&mut spec, (i + 1) as u64, *op).is_none() {
                    return bad(line);
                }
            }
            let res = run_conc(&setup, &progs, cfg.conc_reps, cfg.conc_budget);
            CODED_SLOW.store(false, Ordering::SeqCst);
            let spec_line: Vec<&str> = w.iter().take_while(|x| **x != "::").cloned().collect();
            let head = spec_line.join(" ");
            if res.stuck {
                out.oracle_fail("peers.conc.stuck", "concurrent callers did not finish within 60 s", &[head.clone()]);
                return (head, format!("{} STUCK", idx), false);
            }
            if let Some(d) = &res.bcast_fail {
                out.oracle_fail("peers.conc.bcast", d, &[head.clone()]);
            }
            let mut allowed = HashSet::new();
            seq_outcomes(&spec, &progs, &mut vec![0; progs.len()], &mut vec![vec![]; progs.len()], &mut allowed);
            out.add("conc.races", res.reps);
            out.add("conc.distinct_outcomes_observed", res.observed.len() as u64);
            out.evaluations += res.reps.saturating_sub(1);
            out.count(&format!("conc.threads{}", progs.len()));
            let full = format!("{} :: {}", head, res.observed.iter().cloned().collect::<Vec<_>>().join(" "));
            match res.observed.iter().find(|o| !allowed.contains(*o)) {
                Some(bad_o) => {
                    out.oracle_fail("peers.conc.nonlinearizable", &format!("observed outcome `{}` is not the outcome of any sequential order of the calls ({} orders' outcomes)", bad_o, allowed.len()), &[full.clone()]);
                    (full, format!("{} NONLIN {}", idx, bad_o), true)
                }
                None => (full, format!("{} ok {}", idx, res.observed.len()), allowed.len() > 1),
            }
        }
        _ => bad(line),
    }
}

// ---------------------------------------------------------------------------------------------
// shrinking of failing explicit histories (deterministic ops only)
// ---------------------------------------------------------------------------------------------
fn sigs_of(ops: &[String], cfg: &Cfg, scratch: &std::path::Path) -> Vec<String> {
    let _ = std::fs::create_dir_all(scratch);
    let mut o = Out::new(scratch);
    let mut se = Sess::new();
    for l in ops {
        let _ = exec(&mut o, &mut se, cfg, l);
    }
    progress();
    o.finish();
    let text = std::fs::read_to_string(scratch.join("oracle.txt")).unwrap_or_default();
    text.lines().filter_map(|l| serde_json::from_str::<serde_json::Value>(l).ok()).filter_map(|v| v.get("sig").and_then(|s| s.as_str()).map(|s| s.to_string())).collect()
}

/// A removal is kept only if the shorter history fails sixteen times out of sixteen: some failures depend on the
/// per-map hash seed, and a replay that reproduces half of the time is a poor replay.
fn still_fails(cand: &[String], sig: &str, cfg: &Cfg, scratch: &std::path::Path) -> bool {
    (0..16).all(|_| sigs_of(cand, cfg, scratch).iter().any(|s| s == sig))
}

/// Greedy one-at-a-time removal (from the end), repeated until no single removal keeps the failure.
fn shrink_history(ops: &[String], sig: &str, cfg: &Cfg, scratch: &std::path::Path, deadline: Instant) -> Vec<String> {
    let mut cur: Vec<String> = ops.to_vec();
    if cur.len() > 2000 || !sigs_of(&cur, cfg, scratch).iter().any(|s| s == sig) {
        return cur;
    }
    let t0 = Instant::now();
    // first whole chunks (long runs of identical lines shrink quickly that way), then single lines
    for div in [2usize, 4, 8, 16, 32, 64] {
        let chunk = (cur.len() / div).max(2);
        let mut i = cur.len();
        while i > 1 {
            let lo = i.saturating_sub(chunk).max(1);
            if !cur[lo..i].iter().any(|l| l.starts_with("reset ")) {
                let mut cand = cur.clone();
                cand.drain(lo..i);
                if still_fails(&cand, sig, cfg, scratch) {
                    cur = cand;
                }
            }
            i = lo;
            if t0.elapsed() > Duration::from_secs(6) || Instant::now() > deadline {
                return cur;
            }
        }
    }
    loop {
        let mut changed = false;
        let mut i = cur.len();
        while i > 0 {
            i -= 1;
            if cur[i].starts_with("reset ") {
                continue;
            }
            let mut cand = cur.clone();
            cand.remove(i);
            if still_fails(&cand, sig, cfg, scratch) {
                cur = cand;
                changed = true;
            }
            if t0.elapsed() > Duration::from_secs(8) || Instant::now() > deadline {
                return cur;
            }
        }
        if !changed {
            return cur;
        }
    }
}

/// Rewrite oracle.txt with shrunk histories (entries whose ops are explicit deterministic lines).
fn shrink_oracle_file(dir: &std::path::Path, cfg: &Cfg) {
    let path = dir.join("oracle.txt");
    let text = std::fs::read_to_string(&path).unwrap_or_default();
    if text.trim().is_empty() {
        return;
    }
    // all shrinking together gets 25 s: a broken tree must report within a couple of minutes
    let deadline = Instant::now() + Duration::from_secs(25);
    let mut done: HashSet<String> = HashSet::new();
    let mut outl = Vec::new();
    for l in text.lines() {
        let Ok(mut v) = serde_json::from_str::<serde_json::Value>(l) else { outl.push(l.to_string()); continue };
        let sig = v.get("sig").and_then(|s| s.as_str()).unwrap_or("").to_string();
        let ops: Vec<String> = v.get("ops").and_then(|o| o.as_array()).map(|a| a.iter().filter_map(|x| x.as_str().map(|s| s.to_string())).collect()).unwrap_or_default();
        let explicit = ops.first().map(|o| o.starts_with("reset ")).unwrap_or(false) && !sig.contains("stuck");
        if explicit && done.insert(sig.clone()) && done.len() <= 6 {
            let small = shrink_history(&ops, &sig, cfg, &dir.join("shrink"), deadline);
            v["ops"] = serde_json::json!(small);
        }
        outl.push(v.to_string());
    }
    let _ = std::fs::write(&path, outl.join("\n") + "\n");
    let _ = std::fs::remove_dir_all(dir.join("shrink"));
}

// ---------------------------------------------------------------------------------------------
// generators
// ---------------------------------------------------------------------------------------------
fn gen_json(rng: &mut Rng, depth: u32) -> serde_json::Value {
    use serde_json::Value as V;
    match rng.below(if depth == 0 { 4 } else { 6 }) {
        0 => V::Null,
        1 => V::Bool(rng.chance(1, 2)),
        2 => V::from(rng.boundary(32) as i64 - 5),
        3 => V::String(rng.pick(&["", "a", "x y", "é", "\"q\""]).to_string()),
        4 => V::Array((0..rng.below(4)).map(|_| gen_json(rng, depth - 1)).collect()),
        _ => {
            let mut m = serde_json::Map::new();
            for _ in 0..rng.below(4) {
                m.insert(rng.pick(&["a", "b", "zz", ""]).to_string(), gen_json(rng, depth - 1));
            }
            V::Object(m)
        }
    }
}

/// Boundary-biased length of a body / text / path.
fn gen_len(rng: &mut Rng, thorough: bool) -> usize {
    match rng.below(40) {
        0..=15 => rng.below(5) as usize,
        16 => *rng.pick(&[0usize, 47, 48, 49]),
        17 => 1,
        18 => 255,
        19 => 256,
        20 => 4095,
        21 => 4096,
        22 => 65535,
        23 => 65536,
        24 => 65537,
        25 => if thorough { 1 << 20 } else { 70001 },
        26..=30 => rng.range(300, 3000) as usize,
        _ => rng.below(64) as usize,
    }
}

fn gen_path(rng: &mut Rng) -> String {
    match rng.below(24) {
        0 => "/p".repeat(150),                  // 300 bytes
        1 => format!("/{}", "é".repeat(200)),   // > 255 bytes, non-ASCII
        2 => "/x".repeat(35000),                // 70 000 bytes
        3 => "/a\u{0}b".to_string(),
        4 => "/".repeat(256),
        _ => rng.pick(&["/state/changed", "", "/a b", "/é", "/x/~1y", "/"]).to_string(),
    }
}

/// The generator's own bookkeeping of what a sink does when it is sent to (same rules as `fire_spec`).
fn gen_fire(spec: &mut Spec, behs: &mut BTreeMap<u64, Beh>, fired: &mut BTreeSet<u64>, id: u64, tag: u64) -> bool {
    match behs.get(&tag).copied() {
        Some(Beh::Rem(x)) => {
            spec.remove(x);
            true
        }
        Some(Beh::AliasSelf) => {
            spec.alias(id, &hex(self_key(tag).as_bytes()));
            true
        }
        Some(Beh::InsNew) => {
            if fired.insert(tag) {
                spec.insert(1000 + tag, 100000 + tag);
                behs.insert(100000 + tag, Beh::Ok);
            }
            true
        }
        _ => false,
    }
}

fn gen_history(rng: &mut Rng, n: &mut usize, len: usize, thorough: bool, ops: &mut Vec<String>) {
    let id_pool: [u64; 9] = [0, 1, 2, 3, 7, 1 << 32, u64::MAX - 1, u64::MAX, 42];
    let long_a = "a".repeat(150);
    let long_k = "k".repeat(1100);
    let key_pool: Vec<&str> = vec!["", "a", "b", "ab", "a/b", "k0", "é", "e\u{301}", "日本", " ", "a ", "A", "B", "a\u{0}b", "\u{feff}a", "session-abc123", "Session-ABC123", &long_a];
    let mut ids: Vec<u64> = id_pool.to_vec();
    rng.shuffle(&mut ids);
    ids.truncate(rng.range(2, 5) as usize);
    let mut keys: Vec<String> = key_pool.iter().map(|k| hex(k.as_bytes())).collect();
    rng.shuffle(&mut keys);
    keys.truncate(rng.range(2, 5) as usize);
    let mut len = len;
    match rng.below(40) {
        0..=3 => keys.push(hex(long_k.as_bytes())), // > 1 KiB key
        4 => {
            keys.push(hex("K".repeat(70000).as_bytes())); // > 64 KiB key: short history, every dump prints it
            len = len.min(25);
        }
        _ => {}
    }
    // keys that differ only in case / normalisation must stay different keys
    if rng.chance(1, 3) {
        for (x, y) in [("a", "A"), ("é", "e\u{301}"), ("a", "a "), ("session-abc123", "Session-ABC123")] {
            if keys.contains(&hex(x.as_bytes())) && !keys.contains(&hex(y.as_bytes())) {
                keys.push(hex(y.as_bytes()));
            }
        }
    }
    // a history either has sinks that panic or sinks that call back into the registry, never both: which
    // sinks of a broadcast ran before the panic depends on the map's iteration order
    let panicky = rng.chance(1, 8);
    let mut spec = Spec::default();
    let mut behs: BTreeMap<u64, Beh> = BTreeMap::new();
    let mut fired: BTreeSet<u64> = BTreeSet::new();
    let mut tag = 0u64;
    let next = |n: &mut usize| {
        *n += 1;
        *n
    };
    let clone_tok = |rng: &mut Rng| if rng.chance(1, 8) { " on=clone" } else { "" };
    ops.push(format!("reset {} via={}", next(n), rng.below(2)));
    progress();
    // (q) one history in five starts rich: 12-20 keys per peer assigned in a scrambled order, so that whatever
    // rare event follows (re-entrant sinks, panics, poisoning, clones, re-points) meets long ordered lists
    if rng.chance(1, 5) {
        for (pi, v) in ids.clone().into_iter().take(3).enumerate() {
            tag += 1;
            spec.insert(v, tag);
            behs.insert(tag, Beh::Ok);
            ops.push(format!("ins {} {} {} ok", next(n), v, tag));
            let mut ks: Vec<String> = (0..rng.range(12, 20)).map(|i| hex(format!("q{}-{}", pi, i).as_bytes())).collect();
            rng.shuffle(&mut ks);
            for k in ks {
                spec.alias(v, &k);
                ops.push(format!("alias {} {} {} via={}", next(n), v, k, rng.below(4)));
            }
        }
        ops.push(format!("dump {}", next(n)));
    }
    for _ in 0..len {
        let r = rng.below(100);
        let id = *rng.pick(&ids);
        let key = rng.pick(&keys).clone();
        let mut mutated = false;
        let oc = clone_tok(rng);
        if r < 14 {
            // insert an absent id (re-inserting a present one is outside the documented contract)
            let absent: Vec<u64> = ids.iter().cloned().filter(|i| !spec.present(*i)).collect();
            if absent.is_empty() {
                let v = *rng.pick(&ids);
                spec.remove(v);
                ops.push(format!("rem {} {}{}", next(n), v, oc));
            } else {
                let v = *rng.pick(&absent);
                tag += 1;
                let beh = match rng.below(100) {
                    0..=54 => Beh::Ok,
                    55..=60 => Beh::Disc,
                    61..=66 => Beh::Full,
                    67..=72 => Beh::Other,
                    73..=76 => Beh::OkDown,
                    77..=80 => Beh::Plain,
                    81..=82 => Beh::Slow,
                    _ if panicky => Beh::Panic(rng.below(3) as u8),
                    83..=88 => Beh::Rem(*rng.pick(&ids)),
                    89..=92 => Beh::AliasSelf,
                    93..=96 => Beh::InsNew,
                    _ => Beh::Read,
                };
                spec.insert(v, tag);
                behs.insert(tag, beh);
                ops.push(format!("ins {} {} {} {}{}", next(n), v, tag, beh.show(), oc));
            }
            mutated = true;
        } else if r < 24 {
            let present = spec.sorted_ids();
            let v = if !present.is_empty() && rng.chance(3, 4) { *rng.pick(&present) } else { id };
            spec.remove(v);
            ops.push(format!("rem {} {}{}", next(n), v, oc));
            mutated = true;
        } else if r < 60 {
            let present = spec.sorted_ids();
            let v = if !present.is_empty() && rng.chance(5, 6) { *rng.pick(&present) } else { id };
            spec.alias(v, &key);
            ops.push(format!("alias {} {} {} via={}{}", next(n), v, key, rng.below(5), oc));
            mutated = true;
        } else if r < 65 {
            ops.push(format!("get {} {}{}", next(n), id, oc));
        } else if r < 73 {
            ops.push(format!("getby {} {} via={}{}", next(n), key, rng.below(2), oc));
        } else if r < 78 {
            ops.push(format!("keyfor {} {}{}", next(n), id, oc));
        } else if r < 86 {
            ops.push(format!("aliases {} {}{}", next(n), id, oc));
        } else if r < 88 {
            ops.push(format!("len {}{}", next(n), oc));
        } else if r < 91 {
            ops.push(format!("dump {}", next(n)));
        } else if r < 95 {
            // the rest of the public surface: snapshot, is_empty, id minting, PeerHandle forwarding, CallContext
            let i = next(n);
            let m = hex(gen_path(rng).as_bytes());
            match rng.below(10) {
                0 => ops.push(format!("peers {}{}", i, oc)),
                1 => ops.push(format!("isempty {}{}", i, oc)),
                2 => ops.push(format!("mint {}", i)),
                3 => ops.push(format!("hconn {} {}", i, id)),
                4 => ops.push(format!("dbg {} {}", i, id)),
                5 => {
                    // Debug of the registry, or a caller that panics inside a lookup while holding the lock
                    if rng.chance(1, 2) {
                        ops.push(format!("dbgreg {}", i));
                    } else {
                        ops.push(format!("poison {}", i));
                        mutated = true; // (nothing changes; ask for a dump)
                    }
                }
                6 => ops.push(format!("ctx {} new {} {}", i, id, m)),
                7 => ops.push(format!("ctx {} detached {}", i, m)),
                8 => {
                    // a body that fails to encode (before any output / after some output), and often a successful
                    // broadcast of the same flavour right after it: nothing of the failed call may survive
                    let (variant, mode) = *rng.pick(&[("json", "none"), ("json", "partial"), ("json", "partial"), ("json", "mapkey"), ("beve", "none"), ("beve", "partial")]);
                    ops.push(format!("bcastfail {} {} {} {}{}", i, variant, m, mode, oc));
                    if rng.chance(2, 3) {
                        let v = gen_json(rng, 2);
                        let j = next(n);
                        if variant == "json" {
                            ops.push(format!("bcast {} json {} 2 {} via=0", j, m, hex(&serde_json::to_vec(&v).unwrap())));
                        } else {
                            ops.push(format!("bcast {} beve {} 1 {} {}", j, m, hex(&beve::to_vec(&v).unwrap()), hex(&serde_json::to_vec(&v).unwrap())));
                        }
                        let present: Vec<(u64, u64)> = spec.peers.iter().map(|p| (p.id, p.tag)).collect();
                        if !present.iter().any(|(_, t)| matches!(behs.get(t), Some(Beh::Panic(_)))) {
                            for (pid, t) in present {
                                gen_fire(&mut spec, &mut behs, &mut fired, pid, t);
                            }
                        }
                        mutated = true;
                    }
                }
                _ => {
                    let present = spec.sorted_ids();
                    let v = if !present.is_empty() && rng.chance(4, 5) { *rng.pick(&present) } else { id };
                    let nb = gen_len(rng, thorough);
                    let (variant, fmt, body) = match rng.below(4) {
                        0 => ("beve", 1, rng.bytes(nb)),
                        1 => ("json", 2, b"{\"a\":1}".to_vec()),
                        2 => ("utf8", 3, "é".repeat(nb / 2).into_bytes()),
                        _ => ("raw", rng.below(4), rng.bytes(nb)),
                    };
                    ops.push(format!("hsend {} {} {} {} {} {}", i, v, variant, m, fmt, hex(&body)));
                    if let Some(p) = spec.find(v) {
                        let t = p.tag;
                        if !matches!(behs.get(&t), Some(Beh::Panic(_))) && gen_fire(&mut spec, &mut behs, &mut fired, v, t) {
                            mutated = true;
                        }
                    }
                }
            }
        } else {
            let path = gen_path(rng);
            let i = next(n);
            let vi = rng.below(4);
            match rng.below(4) {
                0 => {
                    // any format tag with any bytes (also ill-formed UTF-8 under the Utf8 tag)
                    let nb = gen_len(rng, thorough);
                    ops.push(format!("bcast {} raw {} {} {} via={}{}", i, hex(path.as_bytes()), rng.below(4), hex(&rng.bytes(nb)), vi, oc))
                }
                1 => {
                    let text = match rng.below(8) {
                        0 => "é".repeat(gen_len(rng, thorough) / 2),
                        1 => "x".repeat(gen_len(rng, thorough)),
                        _ => rng.pick(&["", "hello", "é ü", "line\nbreak", "\u{0}", "\u{feff}bom"]).to_string(),
                    };
                    ops.push(format!("bcast {} utf8 {} 3 {} via={}{}", i, hex(path.as_bytes()), hex(text.as_bytes()), vi, oc))
                }
                2 => {
                    let v = if rng.chance(1, 4) { serde_json::Value::String("s".repeat(gen_len(rng, thorough))) } else { gen_json(rng, 2) };
                    ops.push(format!("bcast {} json {} 2 {} via={}{}", i, hex(path.as_bytes()), hex(&serde_json::to_vec(&v).unwrap()), vi, oc))
                }
                _ => {
                    let v = gen_json(rng, 2);
                    ops.push(format!("bcast {} beve {} 1 {} {}{}", i, hex(path.as_bytes()), hex(&beve::to_vec(&v).unwrap()), hex(&serde_json::to_vec(&v).unwrap()), oc))
                }
            }
            // re-entrant sinks of present peers fire (unless the broadcast unwinds on a panicking sink)
            let present: Vec<(u64, u64)> = spec.peers.iter().map(|p| (p.id, p.tag)).collect();
            if !present.iter().any(|(_, t)| matches!(behs.get(t), Some(Beh::Panic(_)))) {
                for (pid, t) in present {
                    gen_fire(&mut spec, &mut behs, &mut fired, pid, t);
                }
            }
            mutated = true;
        }
        if mutated && rng.chance(2, 3) {
            ops.push(format!("dump {}", next(n)));
        }
    }
    ops.push(format!("dump {}", next(n)));
}

/// Class (g): the same event N times in a row, N around the usual thresholds and around the capacity
/// steps of the hash maps (3, 7, 14, 28, 56, 112, 224, 448, 896).  The N-th must be treated like the first.
fn gen_runs(rng: &mut Rng, n: &mut usize, thorough: bool, force: Option<usize>, ops: &mut Vec<String>) {
    let small: [usize; 17] = [1, 2, 7, 8, 9, 16, 17, 28, 29, 56, 57, 64, 65, 112, 113, 256, 257];
    let pick = |rng: &mut Rng| if thorough && rng.chance(1, 3) { *rng.pick(&[448usize, 449, 896, 897, 1000]) } else { *rng.pick(&small) };
    let next = |n: &mut usize| {
        *n += 1;
        *n
    };
    let khex = |i: usize| hex(format!("g{}", i).as_bytes());
    // (1) N refused aliases, then the peer appears and the same key is accepted
    let k = pick(rng);
    ops.push(format!("reset {} via=0", next(n)));
    for _ in 0..k {
        ops.push(format!("alias {} 5 61 via=1", next(n)));
    }
    ops.push(format!("ins {} 5 1 ok", next(n)));
    ops.push(format!("alias {} 5 61 via=0", next(n)));
    // (2) N re-attachments of the key its peer already has, then N re-points back and forth
    for _ in 0..pick(rng) {
        ops.push(format!("alias {} 5 61 via=1", next(n)));
    }
    ops.push(format!("ins {} 6 2 ok", next(n)));
    for i in 0..pick(rng) {
        ops.push(format!("alias {} {} 61 via=1", next(n), if i % 2 == 0 { 6 } else { 5 }));
    }
    ops.push(format!("dump {}", next(n)));
    // (3) N removals of an absent peer, N insert/alias/remove rounds of one id
    for _ in 0..pick(rng) {
        ops.push(format!("rem {} 9", next(n)));
    }
    let k = pick(rng).min(300);
    for i in 0..k {
        ops.push(format!("ins {} 9 {} ok", next(n), 100 + i));
        ops.push(format!("alias {} 9 62 via=1", next(n)));
        ops.push(format!("rem {} 9", next(n)));
    }
    ops.push(format!("dump {}", next(n)));
    // (4) N distinct keys on one peer, one from the middle re-pointed, then the peer removed
    let k = force.unwrap_or_else(|| pick(rng));
    ops.push(format!("reset {} via=1", next(n)));
    ops.push(format!("ins {} 5 1 ok", next(n)));
    ops.push(format!("ins {} 6 2 ok", next(n)));
    for i in 0..k {
        ops.push(format!("alias {} 5 {} via={}", next(n), khex(i), i % 4));
    }
    ops.push(format!("aliases {} 5", next(n)));
    // a caller panics inside a lookup while the lock is held: the N keys must still be listed in assignment order
    ops.push(format!("poison {}", next(n)));
    ops.push(format!("aliases {} 5", next(n)));
    ops.push(format!("keyfor {} 5", next(n)));
    ops.push(format!("alias {} 6 {} via=0", next(n), khex(k / 2)));
    ops.push(format!("alias {} 6 {} via=0", next(n), khex(k - 1)));
    ops.push(format!("dump {}", next(n)));
    ops.push(format!("rem {} 5", next(n)));
    ops.push(format!("dump {}", next(n)));
    // (5) N peers, every answer kind, N broadcasts in a row (also N failing sends in a row to the same peers)
    let k = force.unwrap_or_else(|| pick(rng));
    ops.push(format!("reset {} via=0", next(n)));
    let behs = ["ok", "disc", "full", "other", "okdown", "plain"];
    for i in 0..k {
        ops.push(format!("ins {} {} {} {}", next(n), 2000 + i, i + 1, behs[i % behs.len()]));
        if i % 3 == 0 {
            ops.push(format!("alias {} {} {} via=1", next(n), 2000 + i, khex(i)));
        }
    }
    // (the per-broadcast bookkeeping is quadratic in the number of peers on both sides: fewer rounds for big sets)
    let b = pick(rng).min(if k > 300 { 40 } else if thorough { 300 } else { 70 });
    for i in 0..b {
        match i % 4 {
            0 => ops.push(format!("bcast {} raw 2f67 0 0102 via=0", next(n))),
            1 => ops.push(format!("bcast {} utf8 2f67 3 6869 via=1", next(n))),
            2 => ops.push(format!("bcast {} json 2f67 2 7b226e223a317d via=0", next(n))),
            _ => ops.push(format!("bcastfail {} json 2f67 partial", next(n))),
        }
    }
    ops.push(format!("peers {}", next(n)));
    ops.push(format!("dump {}", next(n)));
    // the peer that failed every one of those sends is still there and still aliasable
    if k > 1 {
        ops.push(format!("alias {} 2001 {} via=0", next(n), khex(1)));
        ops.push(format!("get {} 2001", next(n)));
    }
    for i in 0..k.min(40) {
        ops.push(format!("rem {} {}", next(n), 2000 + i));
    }
    ops.push(format!("dump {}", next(n)));
    // (6) N ids minted in a row, N encoder failures in a row then one good broadcast, N poisonings
    ops.push(format!("reset {} via=1", next(n)));
    ops.push(format!("ins {} 0 1 ok", next(n)));
    for _ in 0..pick(rng) {
        ops.push(format!("mint {}", next(n)));
    }
    for i in 0..pick(rng).min(120) {
        ops.push(format!("bcastfail {} {} 2f67 {}", next(n), if i % 2 == 0 { "json" } else { "beve" }, ["none", "partial"][i % 2]));
    }
    ops.push(format!("bcast {} json 2f67 2 7b226e223a317d via=0", next(n)));
    ops.push(format!("alias {} 0 62 via=0", next(n)));
    for _ in 0..*rng.pick(&[1usize, 2, 9]) {
        ops.push(format!("poison {}", next(n)));
        ops.push(format!("alias {} 0 61 via=1", next(n)));
        ops.push(format!("getby {} 61 via=0", next(n)));
    }
    ops.push(format!("dump {}", next(n)));
}

/// Class (k): the extreme values of the broadcast parameters crossed with each other (path length x body
/// length x helper x number of peers x sink answers), one broadcast per combination.
fn gen_pairs(rng: &mut Rng, n: &mut usize, ops: &mut Vec<String>) {
    let next = |n: &mut usize| {
        *n += 1;
        *n
    };
    let paths = [String::new(), "/x".repeat(35000)];
    let sizes = [0usize, 65537];
    for peers in [0usize, 1, 9] {
        ops.push(format!("reset {} via={}", next(n), peers % 2));
        for i in 0..peers {
            ops.push(format!("ins {} {} {} {}", next(n), i, i + 1, ["other", "ok", "disc", "full", "okdown", "plain", "read", "alias", "ok"][i % 9]));
        }
        for path in &paths {
            for sz in sizes {
                let ph = hex(path.as_bytes());
                let via = rng.below(4);
                ops.push(format!("bcast {} raw {} {} {} via={} on=clone", next(n), ph, rng.below(4), hex(&rng.bytes(sz)), via));
                ops.push(format!("bcast {} utf8 {} 3 {} via={}", next(n), ph, hex("é".repeat(sz / 2).as_bytes()), via));
                ops.push(format!("bcast {} json {} 2 {} via={}", next(n), ph, hex(&serde_json::to_vec(&serde_json::Value::String("s".repeat(sz))).unwrap()), via % 2));
                let v = serde_json::Value::String("b".repeat(sz));
                ops.push(format!("bcast {} beve {} 1 {} {}", next(n), ph, hex(&beve::to_vec(&v).unwrap()), hex(&serde_json::to_vec(&v).unwrap())));
            }
        }
        ops.push(format!("dump {}", next(n)));
    }
}

fn codes_to_string(cs: &[u8]) -> String {
    if cs.is_empty() { "-".into() } else { cs.iter().map(|c| code_char(*c)).collect() }
}

fn count_orders(lens: &[usize]) -> f64 {
    let mut total = 0usize;
    let mut r = 1f64;
    for l in lens {
        for k in 1..=*l {
            total += 1;
            r = r * total as f64 / k as f64;
        }
    }
    r
}

/// One concurrent spec: a sequential setup, then 2-4 thread programs.
fn gen_conc(rng: &mut Rng, idx: usize) -> String {
    loop {
        let mut spec = Spec::default();
        let mut setup = Vec::new();
        for _ in 0..rng.below(6) {
            let c = if rng.chance(1, 2) { rng.below(3) as u8 } else { rng.below(15) as u8 };
            if spec_apply(&mut spec, (setup.len() + 1) as u64, eop_of_code(c).unwrap()).is_some() {
                setup.push(c);
            }
        }
        let t = rng.range(2, 4) as usize;
        let mut progs: Vec<Vec<u8>> = Vec::new();
        let mut inserted: Vec<u64> = Vec::new();
        for _ in 0..t {
            let l = rng.range(1, 3) as usize;
            let mut p = Vec::new();
            for _ in 0..l {
                let c = match rng.below(10) {
                    0..=5 => rng.range(3, 14) as u8, // rem / alias
                    6 => rng.below(3) as u8,         // ins
                    _ => rng.range(15, 31) as u8,    // queries / broadcast
                };
                if let Some(EOp::Ins(pid)) = eop_of_code(c) {
                    if spec.present(pid) || inserted.contains(&pid) {
                        continue;
                    }
                    inserted.push(pid);
                }
                p.push(c);
            }
            if p.is_empty() {
                p.push(rng.range(3, 14) as u8);
            }
            progs.push(p);
        }
        let lens: Vec<usize> = progs.iter().map(|p| p.len()).collect();
        if count_orders(&lens) > 3000.0 {
            continue;
        }
        let ps: Vec<String> = progs.iter().map(|p| codes_to_string(p)).collect();
        // a race that contains a broadcast is run with slow sinks half of the time
        let op = if ps.iter().any(|p| p.contains('w')) && rng.chance(1, 2) { "concs" } else { "conc" };
        return format!("{} {} {} {}", op, idx, codes_to_string(&setup), ps.join(" "));
    }
}

/// Hand-picked races around the mechanisms the property names.
fn targeted_conc() -> Vec<&'static str> {
    vec![
        "a g d",        // alias(0,a) || remove(0)
        "ab g j",       // alias(0,a) || alias(1,a)
        "abg j d",      // re-point a to 1 || remove 0
        "abg j e",      // re-point a to 1 || remove 1
        "abg jp d s",   // re-point || remove old owner || reader
        "abgk j gk d",  // two keys swapping owners || remove
        "ab gh jk w",   // aliases || broadcast
        "a b w d",      // insert || broadcast || remove
        "abcgkn d e f", // three removes
        "abg jd aq",    // hmm: insert of 0 only legal if absent: rejected by the filter below when not
        "ab gjg jgj",   // ping-pong of one key
        "abg dq jp",    // remove owner with reader || re-point with reader
        "- a g",        // insert || alias on the peer being inserted
        "a gd b jq",    // alias then remove || insert other, alias same key
    ]
}

/// Hand-picked looped races.  Codes: a,b ins 0,1; d,e rem; g,j alias(0,a),(1,a); h,k alias(0,b),(1,b);
/// p,q get_by a,b; s,t aliases_for 0,1; x,y get 0,1; v len; w broadcast; A,B key_for 0,1; D peers.
fn targeted_loops() -> Vec<&'static str> {
    vec![
        // the key always points at a present peer: re-point, remove the old owner, bring it back
        "abg jdagea p p pA",     // (trailing `a`... see filter: ill-formed shapes are dropped)
        "abg jdageb p p p",
        "abg jdageb pA sB tD",
        "abg jdageb x y v",
        "abg jdageb w D p",
        // two keys swapping owners: both always resolve
        "abgk jhgk pq st AB",
        "abgk jhgk p q D",
        // alias, remove, re-insert
        "ab gda p s x",
        "ab gda A D w",
        "abg dag p A s",
        "abgh jdaghea pq sA D",
        // remove vs. re-insert of the same id + alias: passes over (get, aliases_for / key_for / get_by) pairs that
        // fall inside one call must be explainable by that one call
        "a gda xs xA sx",
        "a ghda xs sA xq",
        "ag dag xs xp As",
        "abg dagj xs yt pD",
        "abgk daghejk xs yt AB",
        "abgh jdageb pq s A",
    ]
}

/// A random looped race: random setup, a random walk that returns to its start state, three readers.
fn gen_loop(rng: &mut Rng, idx: usize) -> String {
    loop {
        let mut spec = Spec::default();
        let mut setup = Vec::new();
        for _ in 0..rng.range(2, 6) {
            let c = if rng.chance(1, 2) { rng.below(3) as u8 } else { rng.below(15) as u8 };
            let op = eop_of_code(c).unwrap();
            if spec_apply(&mut spec, loop_tag(op), op).is_some() {
                setup.push(c);
            }
        }
        if spec.peers.is_empty() {
            continue;
        }
        let start = spec.digest(&ENUM_IDS, &enum_keys());
        // random walk; close the cycle greedily: stop as soon as the start state recurs
        let mut cycle = Vec::new();
        let mut cur = spec.clone();
        let mut closed = false;
        for _ in 0..10 {
            let c = rng.below(15) as u8;
            let op = eop_of_code(c).unwrap();
            let mut nxt = cur.clone();
            if spec_apply(&mut nxt, loop_tag(op), op).is_none() {
                continue;
            }
            if nxt.digest(&ENUM_IDS, &enum_keys()) == cur.digest(&ENUM_IDS, &enum_keys()) {
                continue; // a no-op step adds nothing
            }
            cur = nxt;
            cycle.push(c);
            if cur.digest(&ENUM_IDS, &enum_keys()) == start && cycle.len() >= 2 {
                closed = true;
                break;
            }
        }
        if !closed {
            continue;
        }
        let readers: Vec<String> = (0..3).map(|_| (0..rng.range(1, 2)).map(|_| code_char(rng.range(15, 31) as u8)).collect()).collect();
        return format!("loop {} {} {} {}", idx, codes_to_string(&setup), codes_to_string(&cycle), readers.join(" "));
    }
}

fn main() {
    let args = Args::parse();
    quiet_panics();
    let mut out = Out::new(&args.out);
    let mut rng = Rng::new(args.seed);
    // `check` runs the thorough generators once more when a proof or the correspondence broke without a
    // failing input ("search", out dir ...-search).  That run must stay short in the quick tier: it gets its
    // own sizing (longer races and loops than quick, far less enumeration than thorough).
    let search = args.thorough() && args.out.to_string_lossy().ends_with("-search");
    // `--lite`: quick sizing whatever the tier (the release-profile run of the thorough tier)
    let lite = args.has("--lite");
    let thorough = args.thorough() && !search && !lite;
    let search = search && !lite;
    let replay = args.replay_ops();
    let cfg = Cfg {
        loop_budget: Duration::from_millis(if replay.is_some() { 3000 } else if search { 1500 } else if thorough { 1000 } else { 120 }),
        conc_reps: if replay.is_some() { 20000 } else if thorough || search { 2500 } else { 400 },
        conc_budget: Duration::from_millis(if replay.is_some() { 30000 } else if thorough { 250 } else { 60 }),
        threads: 4,
    };
    let missing = entry_point_audit(&mut out);
    if !missing.is_empty() {
        eprintln!("peers: public entry points of src/peer.rs NOT DRIVEN by this family (add them to DRIVEN or NOT_DRIVEN_BECAUSE): {:?}", missing);
    }
    if std::env::args().any(|a| a == "--check-entry-points") {
        println!("not driven: {:?}", missing);
        std::process::exit(if missing.is_empty() { 0 } else { 1 });
    }
    // nothing in src/peer.rs waits for anything: 40 s without a single call returning is a hang
    start_watchdog(args.out.clone(), Duration::from_secs(40));
    out.config(&format!("mode {}", debug_mode()));
    out.extra.insert("build_profile".into(), serde_json::json!(debug_mode()));
    out.rule = "enum: every sequence of insert/remove/alias over 3 peers x 3 keys up to the tier's length (inserting a present id pruned: documented contract), each replayed on a fresh real PeerRegistry, observation = return value of the last call + every query (get, key_for, aliases_for, get_by, len); state cover: the same from every reachable abstract state; random: long histories over u64-boundary ids and odd keys with capturing sinks (ok/Disconnected/Full/Other/re-entrant) and the four broadcast_notify_* helpers; conc: 2-4 threads racing coded programs on one registry, outcome must be among the outcomes of the sequential orders. Distinct by op line; non-trivial = some key is assigned / a mutation or a hit / more than one sequential outcome".into();
    let mut ops: Vec<String> = Vec::new();
    if let Some(r) = replay {
        ops = r.into_iter().filter(|l| !l.starts_with("mode ")).collect();
    } else {
        let mut n = 0usize;
        // (0) a broadcast to sinks that stall longer than any plausible internal timer runs in the background
        // for the whole run (joined by `stalljoin` at the end); the built-in WebSocket server's sink path
        n += 1;
        ops.push(format!("stall {} {}", n, if thorough { "2500 5500 11000" } else { "300 600 1100" }));
        n += 1;
        ops.push(format!("ws {} {}", n, if thorough { 6 } else { 3 }));
        // (1) small-scope exhaustive enumeration
        n += 1;
        if thorough {
            // every sequence of length <= 6, and every sequence of length 7 that starts with an insert (a sequence
            // that starts with a remove / alias on the empty registry is a refused call followed by a sequence
            // of length 6): a fifth of the 15^7 replays, which keeps the tier inside its budget on a busy machine
            ops.push(format!("enum {} 6 2 -", n));
            for pre in ["a", "b", "c"] {
                n += 1;
                ops.push(format!("enum {} 6 3 {}", n, pre));
            }
        } else if search {
            ops.push(format!("enum {} 6 2 -", n));
        } else {
            ops.push(format!("enum {} 5 0 -", n));
        }
        // (1b) the same with `broadcast` as an operation, over 2 peers x 1 key (a,b ins; d,e rem; g,j alias; w
        // broadcast): state that a broadcast leaves behind (a cached snapshot, ...) must not leak into later calls
        n += 1;
        ops.push(format!("enum {} {} 0 - abdegjw", n, if thorough { 7 } else { 6 }));
        // (2) state cover: from every reachable abstract state (shortest path), all continuations
        let mut seen: BTreeMap<String, String> = BTreeMap::new();
        let mut frontier: Vec<(String, Spec)> = vec![(String::new(), Spec::default())];
        seen.insert(Spec::default().digest(&ENUM_IDS, &enum_keys()), String::new());
        while !frontier.is_empty() {
            let mut nextf = Vec::new();
            for (p, s) in &frontier {
                for c in 0..15u8 {
                    let mut s2 = s.clone();
                    if spec_apply(&mut s2, 1, eop_of_code(c).unwrap()).is_some() {
                        let d = s2.digest(&ENUM_IDS, &enum_keys());
                        if !seen.contains_key(&d) {
                            let mut p2 = p.clone();
                            p2.push(code_char(c));
                            seen.insert(d, p2.clone());
                            nextf.push((p2, s2));
                        }
                    }
                }
            }
            frontier = nextf;
        }
        out.extra.insert("reachable_abstract_states".into(), serde_json::json!(seen.len()));
        let mut paths: Vec<String> = seen.values().filter(|p| p.len() >= 3).cloned().collect();
        paths.sort();
        let cover_depth = if thorough { 3 } else { 2 };
        for p in paths {
            n += 1;
            ops.push(format!("enum {} {} 0 {}", n, cover_depth, p));
        }
        // (3) random long histories
        let (hist, maxlen) = if thorough { (2000, 400) } else if search { (500, 300) } else { (250, 200) };
        // a fixed opener: a JSON body that fails to encode after some output, then a successful JSON broadcast
        // from the same thread (state surviving a failed call)
        for l in ["reset {} via=0", "ins {} 0 1 ok", "ins {} 1 2 ok", "bcastfail {} json 2f70 partial", "bcast {} json 2f70 2 7b226e223a327d via=0", "bcastfail {} json 2f70 mapkey", "bcast {} json 2f70 2 7b226e223a337d via=0", "bcastfail {} beve 2f70 partial", "BEVE", "dump {}"] {
            n += 1;
            let l = if l == "BEVE" { format!("bcast {{}} beve 2f70 1 {} 7b226e223a327d", hex(&beve::to_vec(&serde_json::json!({"n": 2})).unwrap())) } else { l.to_string() };
            ops.push(l.replace("{}", &n.to_string()));
        }
        // (3a) runs of identical events (class g), extreme parameter pairs (class k)
        // every run has one history with 257 (thorough: also 65 and 1000) keys on one peer / peers in one
        // broadcast; the other run lengths are drawn from the threshold list
        let forced: Vec<Option<usize>> = if thorough { vec![Some(257), Some(65), Some(1000), None, None, None] } else if search { vec![Some(257), Some(65), None] } else { vec![Some(257), None] };
        for f in forced {
            gen_runs(&mut rng, &mut n, thorough, f, &mut ops);
        }
        gen_pairs(&mut rng, &mut n, &mut ops);
        {
            let mut l: Vec<String> = vec!["reset {} via=0".into(), "ins {} 1 1 ok".into(), "ins {} 2 2 ok".into()];
            for k in ["m", "c", "x", "a", "q", "e", "z", "b", "k", "y", "d", "w"] {
                l.push(format!("alias {{}} 1 {} via=1", hex(k.as_bytes())));
            }
            for k in ["p4", "p1", "p3", "p2"] {
                l.push(format!("alias {{}} 2 {} via=0", hex(k.as_bytes())));
            }
            for _ in 0..2 {
                l.extend(["poison {}".to_string(), "aliases {} 1".into(), "aliases {} 2".into(), "keyfor {} 1".into(), "keyfor {} 2".into(), "dump {}".into()]);
            }
            for x in l {
                n += 1;
                ops.push(x.replace("{}", &n.to_string()));
            }
        }
        for _ in 0..hist {
            let len = rng.range(10, maxlen) as usize;
            gen_history(&mut rng, &mut n, len, thorough, &mut ops);
        }
        // (4) concurrent histories
        for t in targeted_conc() {
            let w: Vec<&str> = t.split(' ').collect();
            // drop hand-written specs that would insert a present id
            let mut spec = Spec::default();
            let ok_setup = eops_of_str(w[0]).map(|v| v.iter().enumerate().all(|(i, op)| spec_apply(&mut spec, i as u64 + 1, *op).is_some())).unwrap_or(false);
            let mut ins_seen: Vec<u64> = vec![];
            let ok_threads = w[1..].iter().all(|p| {
                eops_of_str(p).map(|v| v.iter().all(|op| if let EOp::Ins(x) = op { let ok = !spec.present(*x) && !ins_seen.contains(x); ins_seen.push(*x); ok } else { true })).unwrap_or(false)
            });
            if ok_setup && ok_threads {
                n += 1;
                ops.push(format!("conc {} {}", n, t));
                if t.contains('w') {
                    n += 1;
                    ops.push(format!("concs {} {}", n, t));
                }
            }
        }
        for _ in 0..(if thorough { 800 } else if search { 200 } else { 120 }) {
            n += 1;
            ops.push(gen_conc(&mut rng, n));
        }
        // (5) looped races: lookups against a mutator that cycles through a re-point / remove / re-insert sequence
        for t in targeted_loops() {
            let w: Vec<&str> = t.split_whitespace().collect();
            let ok = match (eops_of_str(w[0]), eops_of_str(w[1])) {
                (Some(su), Some(cy)) => loop_states(&su, &cy).is_some(),
                _ => false,
            };
            if ok {
                n += 1;
                ops.push(format!("loop {} {}", n, w.join(" ")));
            }
        }
        for _ in 0..(if thorough { 60 } else if search { 30 } else { 8 }) {
            n += 1;
            ops.push(gen_loop(&mut rng, n));
        }
        n += 1;
        ops.push(format!("stalljoin {}", n));
    }
    let mut se = Sess::new();
    for line in ops {
        out.begin(&line);
        let (rec, obs, nt) = exec(&mut out, &mut se, &cfg, &line);
        out.case(&rec, &obs, nt);
        if obs.ends_with(" STUCK") {
            // a thread of this process is parked inside the registry: stop here, the report is written
            out.finish();
            std::process::exit(0);
        }
        if out.oracle_failures >= 12 {
            // enough failing inputs: report quickly instead of running the rest on a broken tree
            out.count("stopped_after_12_oracle_failures");
            break;
        }
    }
    let failed = out.oracle_failures > 0;
    let dir = out.dir.clone();
    out.finish();
    if failed {
        shrink_oracle_file(&dir, &cfg);
    }
}
