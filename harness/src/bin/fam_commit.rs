//! Family `commit` (C10): a failed or interrupted pull never publishes a file, never a partial one.
//!
//!   fam_commit --tier T --seed N --out DIR [--replay f]
//!   fam_commit child <puller> <addr> <resource> <dest> <trailer> <verify ok|rej>     (re-executed under strace)
//!
//! (i)   fault scripts: every file puller of `repe::value_stream` against a scripted SVS peer (answers
//!       `/_svs/open`, `/_svs/next` from the script, can answer with an error or cut the connection at
//!       any point) and against the crate's own `Server` with failing reader / writer producers; end state
//!       of `dest`, `dest.svspart`, the return class (and what `verify` saw) go to impl.txt;
//! (ii)  syscall traces: the pulling child runs under `strace -f -P dest -P tmp`; the normalised calls
//!       must be a word of the commit protocol and equal the model's op list;
//! (iii) kill points: `strace -e inject=<syscall>:signal=SIGKILL:when=N` for every N on open / write /
//!       fsync / close / rename / unlink of the two paths; afterwards `dest` is old or complete.
//! Direct oracles are evaluated on what the real code did, against a specification computed here from
//! the script alone (`expected_content`), independently of the Lean model.
use repe::value_stream::{Compression, RouterValueStreamExt, StreamOpts};
use repe::{AsyncClient, BodyFormat, Client, RepeError, Router, Server};
use repe_verif_harness::frames::{RawFrame, RawHeader};
use repe_verif_harness::*;
use serde::{Deserialize, Serialize};
use std::collections::HashMap;
use std::io::{Read, Write};
use std::net::{SocketAddr, TcpListener, TcpStream};
use std::path::{Path, PathBuf};
use std::process::{Command, Stdio};
use std::sync::atomic::{AtomicU64, Ordering};
use std::sync::{Arc, Mutex};
use std::time::{Duration, Instant};

// ------------------------------------------------------------------------------------------
// scripts
// ------------------------------------------------------------------------------------------
#[derive(Clone, Copy, PartialEq, Eq, Debug)]
enum Puller {
    File,
    BeveZst,
    Beve,
    Trailer,
    FileAsync,
    VerifiedAsync,
    TrailerAsync,
}
const PULLERS: [Puller; 7] = [
    Puller::File,
    Puller::BeveZst,
    Puller::Beve,
    Puller::Trailer,
    Puller::FileAsync,
    Puller::VerifiedAsync,
    Puller::TrailerAsync,
];
impl Puller {
    fn name(self) -> &'static str {
        match self {
            Puller::File => "file",
            Puller::BeveZst => "bevezst",
            Puller::Beve => "beve",
            Puller::Trailer => "trailer",
            Puller::FileAsync => "fileasync",
            Puller::VerifiedAsync => "verifiedasync",
            Puller::TrailerAsync => "trailerasync",
        }
    }
    fn parse(s: &str) -> Option<Puller> {
        PULLERS.iter().copied().find(|p| p.name() == s)
    }
    fn is_async(self) -> bool {
        matches!(self, Puller::FileAsync | Puller::VerifiedAsync | Puller::TrailerAsync)
    }
    fn decodes(self) -> bool {
        self != Puller::BeveZst
    }
    fn has_trailer(self) -> bool {
        matches!(self, Puller::Trailer | Puller::TrailerAsync)
    }
    fn verifies(self) -> bool {
        matches!(self, Puller::Trailer | Puller::VerifiedAsync | Puller::TrailerAsync)
    }
    fn tags_ok(self, zstd: bool, beve: bool) -> bool {
        match self {
            Puller::BeveZst => zstd,
            Puller::Beve => zstd && beve,
            _ => true,
        }
    }
}

#[derive(Clone, PartialEq, Debug)]
enum Resp {
    Chunk(Vec<u8>, bool),
    Error,
    Cut,
    /// the peer keeps the connection open and never answers (only with a caller that gives up: `cancel`)
    Hang,
    /// the peer waits this many milliseconds before it answers with the following element (a producer that
    /// stalls and then continues); invisible to the model
    Stall(u64),
}
#[derive(Clone, Copy, PartialEq, Debug)]
enum Open {
    Ok,
    Err,
    Cut,
}
#[derive(Clone, Copy, PartialEq, Debug)]
enum Dest {
    Old,
    None,
    Dir,
    /// as Old / None, plus a stale `.svspart` (longer than any content) left by an earlier killed pull
    OldStale,
    NoneStale,
    /// destination absent and its parent directory missing: the temp file cannot be created
    NoParent,
    /// destination absent, reached through a symlinked parent directory
    SymParent,
    /// destination absent, file name 247 bytes long: the temp sibling's name is exactly NAME_MAX (255) — fine
    Name247,
    /// … 250 bytes: the destination's name is legal, the temp sibling's is too long: it cannot be created
    Name250,
}
impl Dest {
    fn stale(self) -> bool {
        matches!(self, Dest::OldStale | Dest::NoneStale)
    }
    fn base(self) -> Dest {
        match self {
            Dest::OldStale => Dest::Old,
            Dest::NoneStale | Dest::NoParent | Dest::SymParent | Dest::Name247 | Dest::Name250 => Dest::None,
            d => d,
        }
    }
}
#[derive(Clone, PartialEq, Debug)]
enum Dec {
    Na,
    Err,
    Ok(Vec<u8>),
}

#[derive(Clone, Debug)]
struct Script {
    puller: Puller,
    zstd: bool,
    beve: bool,
    open: Open,
    verify_ok: bool,
    trailer: usize,
    dest: Dest,
    dec: Dec,
    wire: Vec<Resp>,
    /// the temp file takes this many bytes; the write of the next one fails (RLIMIT_FSIZE in the child)
    wfault: Option<u64>,
    /// every write succeeds, `fsync` fails (the temp path is planted as a symlink to /dev/null: EINVAL)
    sync_fault: bool,
    /// the async puller is driven over a `WebSocketClient` instead of an `AsyncClient`
    ws: bool,
    /// the caller-supplied `verify` panics (`verify_ok` is false as well: nothing may be published)
    verify_panics: bool,
    /// flavour of the verify callback: 0 plain, 1 panics with a String, 2 with a &'static str, 3 with a
    /// non-string payload, 4 slow (sleeps, then answers `verify_ok`)
    verify_kind: u8,
    /// the caller-supplied digest `Write` refuses once more than N bytes were fed: (N, panics instead of Err)
    dfault: Option<(u64, bool)>,
    /// the write_file pullers entered through `pull_stream::<()>(.., StreamOutput::..)` instead of the
    /// convenience function (documented twins)
    via_ps: bool,
    /// presentation of the peer's answers that the model does not see (query bytes of the last flag, error
    /// codes and bodies, stream ids, format codes, resource names): must not matter
    style: u64,
    /// `WebSocketLimits::max_incoming_frame/message_size` of the pulling WebSocket client: a chunk response
    /// larger than this is refused by the client's reader, which ends the connection
    wl: Option<usize>,
}

/// Deterministic filler for large bodies (`g<seed>.<len>` on the line protocol; twin of `genBytes`).
fn gen_bytes(seed: u8, len: usize) -> Vec<u8> {
    (0..len).map(|i| ((i / 61) * 37 + seed as usize + i % 7) as u8).collect()
}
/// hex, or `g<seed>.<len>` when the bytes are a generated filler of at least 2 KiB
fn body_word(b: &[u8]) -> String {
    if b.len() >= 2048 && b == &gen_bytes(b[0], b.len())[..] {
        format!("g{}.{}", b[0], b.len())
    } else {
        hex(b)
    }
}
fn parse_body(w: &str) -> Option<Vec<u8>> {
    if let Some(r) = w.strip_prefix('g') {
        let (a, b) = r.split_once('.')?;
        Some(gen_bytes(a.parse::<u64>().ok()? as u8, b.parse().ok()?))
    } else {
        unhex(w)
    }
}

fn resp_word(r: &Resp) -> String {
    match r {
        Resp::Chunk(b, l) => format!("c:{}:{}", body_word(b), *l as u8),
        Resp::Error => "e".into(),
        Resp::Cut => "x".into(),
        Resp::Hang => "h".into(),
        Resp::Stall(ms) => format!("z{ms}"),
    }
}
fn parse_resp(w: &str) -> Option<Resp> {
    match w {
        "e" => Some(Resp::Error),
        "x" => Some(Resp::Cut),
        "h" => Some(Resp::Hang),
        _ if w.starts_with('z') => w[1..].parse().ok().map(Resp::Stall),
        _ => {
            let p: Vec<&str> = w.split(':').collect();
            if p.len() == 3 && p[0] == "c" {
                Some(Resp::Chunk(parse_body(p[1])?, p[2] == "1"))
            } else {
                None
            }
        }
    }
}

impl Script {
    fn words(&self) -> String {
        let mut s = format!(
            "{}{}{}{} {} {} {} {} {} {} - {} {} wire",
            self.puller.name(),
            if self.ws { "@ws" } else { "" },
            if self.via_ps { "@ps" } else { "" },
            format!("{}{}", if self.style != 0 { format!("@s{}", self.style) } else { String::new() }, self.wl.map(|n| format!("@wl{n}")).unwrap_or_default()),
            if self.zstd { "zstd" } else { "none" },
            if self.beve { "beve" } else { "raw" },
            match self.open {
                Open::Ok => "ok",
                Open::Err => "err",
                Open::Cut => "cut",
            },
            match (self.verify_kind, self.verify_ok) {
                (1, _) => "panic",
                (2, _) => "panics",
                (3, _) => "panicv",
                (4, true) => "slow",
                (_, true) => "ok",
                (_, false) => "rej",
            },
            self.trailer,
            match self.dest {
                Dest::Old => "old",
                Dest::None => "none",
                Dest::Dir => "dir",
                Dest::OldStale => "olds",
                Dest::NoneStale => "nones",
                Dest::NoParent => "noparent",
                Dest::SymParent => "symparent",
                Dest::Name247 => "name247",
                Dest::Name250 => "name250",
            },
            match &self.dec {
                Dec::Na => "-".to_string(),
                Dec::Err => "err".to_string(),
                Dec::Ok(b) => body_word(b),
            },
            if self.sync_fault {
                "sync".to_string()
            } else if let Some((n, pan)) = self.dfault {
                format!("{}{}", if pan { "p" } else { "d" }, n)
            } else {
                self.wfault.map(|k| k.to_string()).unwrap_or("-".into())
            },
        );
        for r in &self.wire {
            s.push(' ');
            s.push_str(&resp_word(r));
        }
        s
    }
    /// Parse SCRIPT words; returns the script and the words after `::`.
    fn parse(w: &[&str]) -> Option<(Script, Vec<String>)> {
        if w.len() < 11 || w[10] != "wire" {
            return None;
        }
        let mut wire = vec![];
        let mut i = 11;
        while i < w.len() && w[i] != "::" {
            wire.push(parse_resp(w[i])?);
            i += 1;
        }
        let after = if i < w.len() { w[i + 1..].iter().map(|s| s.to_string()).collect() } else { vec![] };
        Some((
            Script {
                puller: Puller::parse(w[0].split('@').next()?)?,
                ws: w[0].split('@').any(|x| x == "ws"),
                via_ps: w[0].split('@').any(|x| x == "ps"),
                style: w[0].split('@').find_map(|x| x.strip_prefix('s').and_then(|n| n.parse().ok())).unwrap_or(0),
                wl: w[0].split('@').find_map(|x| x.strip_prefix("wl").and_then(|n| n.parse().ok())),
                verify_kind: match w[4] { "panic" => 1, "panics" => 2, "panicv" => 3, "slow" => 4, _ => 0 },
                dfault: w[9].strip_prefix('d').and_then(|n| n.parse().ok()).map(|n| (n, false)).or(w[9].strip_prefix('p').and_then(|n| n.parse().ok()).map(|n| (n, true))),
                zstd: w[1] == "zstd",
                beve: w[2] == "beve",
                open: match w[3] {
                    "ok" => Open::Ok,
                    "err" => Open::Err,
                    _ => Open::Cut,
                },
                verify_ok: w[4] == "ok" || w[4] == "slow",
                verify_panics: w[4].starts_with("panic"),
                trailer: w[5].parse().ok()?,
                dest: match w[6] {
                    "old" => Dest::Old,
                    "none" => Dest::None,
                    "olds" => Dest::OldStale,
                    "nones" => Dest::NoneStale,
                    "noparent" => Dest::NoParent,
                    "symparent" => Dest::SymParent,
                    "name247" => Dest::Name247,
                    "name250" => Dest::Name250,
                    _ => Dest::Dir,
                },
                dec: match w[8] {
                    "-" => Dec::Na,
                    "err" => Dec::Err,
                    h => Dec::Ok(parse_body(h)?),
                },
                wire,
                wfault: w[9].parse().ok(),
                sync_fault: w[9] == "sync",
            },
            after,
        ))
    }
    /// Bytes of the whole stream if a `last` chunk is reached before any error / cut.
    fn payload(&self) -> Option<Vec<u8>> {
        let mut acc = vec![];
        for r in &self.wire {
            match r {
                // a response frame (48-byte header, 1-byte query, body) over the client's inbound limit
                // never reaches the puller: the connection ends there
                Resp::Stall(_) => continue,
                Resp::Chunk(b, _) if self.wl.map(|n| 49 + b.len() > n).unwrap_or(false) => return None,
                Resp::Chunk(b, last) => {
                    acc.extend_from_slice(b);
                    if *last {
                        return Some(acc);
                    }
                }
                _ => return None,
            }
        }
        None
    }
    /// SPECIFICATION (property text, evaluated here independently of the Lean model): the content that
    /// must be published; `None` = the script is a failing one and nothing may be published.
    fn expected_content(&self) -> Option<Vec<u8>> {
        if self.open != Open::Ok || !self.puller.tags_ok(self.zstd, self.beve) || self.dest == Dest::Dir || self.dest == Dest::NoParent || self.dest == Dest::Name250 || self.sync_fault {
            return None;
        }
        if self.puller.verifies() && !self.verify_ok {
            return None;
        }
        let wb = self.payload()?;
        let logical = if self.puller.decodes() && self.zstd {
            match &self.dec {
                Dec::Ok(b) => b.clone(),
                _ => return None,
            }
        } else {
            wb
        };
        let content = if self.puller.has_trailer() {
            if self.trailer > logical.len() {
                return None;
            }
            logical[..logical.len() - self.trailer].to_vec()
        } else {
            logical
        };
        // a write the file system refuses makes the pull a failing one
        match (self.wfault, self.dfault) {
            (Some(k), _) if content.len() as u64 > k => None,
            // a digest sink that refuses (or dies) while the content is fed to it fails the copy
            (_, Some((k, _))) if self.puller.verifies() && content.len() as u64 > k => None,
            _ => Some(content),
        }
    }
}

fn digest(b: &[u8]) -> String {
    format!("{}:{}", b.len(), fnv(b))
}

// ------------------------------------------------------------------------------------------
// the scripted SVS peer
// ------------------------------------------------------------------------------------------
#[derive(Serialize, Deserialize)]
struct OpenReq {
    resource: String,
}
#[derive(Serialize, Deserialize)]
struct OpenResp {
    version: u8,
    stream_id: u64,
    format: u16,
    compression: u8,
}
#[derive(Serialize, Deserialize)]
struct NextReq {
    stream_id: u64,
}

struct Sess {
    script: Script,
    /// which flavour of failing `open` (error response, wrong contract version, unknown compression tag)
    open_flavour: u8,
    pos: Mutex<usize>,
}

#[derive(Clone)]
struct Fake {
    addr: SocketAddr,
    reg: Arc<Mutex<HashMap<String, Arc<Sess>>>>,
    ws_addr: Option<SocketAddr>,
    ids: Arc<AtomicU64>,
}

fn read_frame(s: &mut TcpStream) -> Option<RawFrame> {
    let mut h = [0u8; 48];
    s.read_exact(&mut h).ok()?;
    let rh = RawHeader::parse(&h)?;
    if !rh.consistent() || rh.length > (1 << 26) {
        return None;
    }
    let mut q = vec![0u8; rh.query_length as usize];
    s.read_exact(&mut q).ok()?;
    let mut b = vec![0u8; rh.body_length as usize];
    s.read_exact(&mut b).ok()?;
    Some(RawFrame { h: rh, query: q, body: b })
}

type Reg = Arc<Mutex<HashMap<String, Arc<Sess>>>>;

enum Act {
    /// the frame and the style of the session it belongs to (how to put it on the wire)
    Reply(Vec<u8>, u64),
    Silent,
    Close,
}

fn frame(id: u64, ec: u32, qfmt: u16, q: &[u8], bfmt: u16, b: &[u8]) -> Act {
    let mut f = RawFrame::request(id, false, qfmt, q, bfmt, b);
    f.h.ec = ec;
    Act::Reply(f.to_vec(), 0)
}

fn styled(a: Act, st: u64) -> Act {
    match a {
        Act::Reply(b, _) => Act::Reply(b, st),
        a => a,
    }
}

/// Put one frame on a TCP connection the way the style says (bits 18-20): whole; byte by byte (small
/// frames); 2-3 pieces cut inside the header / at 48 / inside the query / inside the body; the same with a
/// stall between the pieces; segment-sized pieces.  WHAT arrives is the same; only how.
static FRAME_NO: AtomicU64 = AtomicU64::new(0);

fn write_fragmented(s: &mut TcpStream, b: &[u8], st: u64) -> bool {
    let mode = (st >> 18) & 7;
    let mut rng = Rng::new(st ^ (b.len() as u64).wrapping_mul(0x9E37_79B9) ^ FRAME_NO.fetch_add(1, Ordering::Relaxed));
    let mode = if mode == 1 && !THOROUGH.load(Ordering::Relaxed) && rng.below(16) != 0 { 2 } else { mode };
    let mut cuts: Vec<usize> = match mode {
        1 if b.len() <= (if THOROUGH.load(Ordering::Relaxed) { 20_000 } else { 400 }) => (1..b.len()).collect(),
        1 | 4 => (1..b.len()).filter(|i| i % 1460 == 0).collect(),
        2 | 3 | 5 | 6 | 7 => {
            let cands = [1 + rng.below(47) as usize, 48, 48 + 1, 49 + rng.below(b.len().max(50) as u64 - 49) as usize, b.len().saturating_sub(1)];
            let k = 1 + rng.below(2) as usize;
            (0..k).map(|_| *rng.pick(&cands)).filter(|c| *c > 0 && *c < b.len()).collect()
        }
        _ => vec![],
    };
    cuts.sort();
    cuts.dedup();
    let mut at = 0;
    for c in cuts.into_iter().chain(std::iter::once(b.len())) {
        if s.write_all(&b[at..c]).is_err() || s.flush().is_err() {
            return false;
        }
        at = c;
        // (per frame with a small probability: streams of thousands of frames must stay cheap)
        if at < b.len() && mode >= 6 && rng.below(3) == 0 {
            // a delivery that stops in the middle of a frame for longer than any plausible read timer
            std::thread::sleep(Duration::from_millis(if mode == 6 { 350 } else { 1100 }));
        } else if at < b.len() && ((mode == 3 && rng.below(12) == 0) || (mode == 5 && rng.below(48) == 0)) {
            std::thread::sleep(Duration::from_millis(if mode == 5 { 60 } else { 2 }));
        }
    }
    true
}

/// What the scripted peer does with one request (shared by the TCP and the WebSocket front end).
fn answer(f: &RawFrame, reg: &Reg, ids: &AtomicU64, streams: &mut HashMap<u64, Arc<Sess>>) -> Act {
    let path = String::from_utf8_lossy(&f.query).to_string();
    if f.h.notify != 0 {
        return Act::Silent; // cancel (notify form): nothing to answer
    }
    match path.as_str() {
        "/_svs/open" => {
            let Ok(req) = beve::from_slice::<OpenReq>(&f.body) else {
                return frame(f.h.id, 4, 0, b"", 3, b"bad open");
            };
            let Some(sess) = reg.lock().unwrap().get(&req.resource).cloned() else {
                return frame(f.h.id, 6, 0, b"", 3, b"unknown resource");
            };
            match sess.script.open {
                Open::Cut => Act::Close,
                Open::Err if sess.open_flavour == 0 => frame(f.h.id, 6, 0, b"", 3, b"no such resource"),
                o => {
                    let st = sess.script.style;
                    // stream ids are opaque: also 0, u64::MAX, 2^63 (one live stream per connection here)
                    let id = match (st >> 9) & 3 {
                        0 => ids.fetch_add(1, Ordering::Relaxed),
                        1 => 0,
                        2 => u64::MAX,
                        _ => 1 << 63,
                    };
                    streams.insert(id, sess.clone());
                    let raw_fmt = [0u16, 2, 3, 999][((st >> 11) & 3) as usize];
                    let mut r = OpenResp { version: 1, stream_id: id, format: if sess.script.beve { 1 } else { raw_fmt }, compression: sess.script.zstd as u8 };
                    if o == Open::Err {
                        if sess.open_flavour == 1 {
                            r.version = 2;
                        } else {
                            r.compression = 7;
                        }
                    }
                    styled(frame(f.h.id, 0, 0, b"", 1, &beve::to_vec(&r).unwrap()), st)
                }
            }
        }
        "/_svs/next" => {
            let Some(sess) = beve::from_slice::<NextReq>(&f.body).ok().and_then(|r| streams.get(&r.stream_id).cloned()) else {
                return frame(f.h.id, 3, 0, b"", 3, b"unknown stream");
            };
            let r = loop {
                let r = {
                    let mut p = sess.pos.lock().unwrap();
                    let r = sess.script.wire.get(*p).cloned().unwrap_or(Resp::Cut);
                    *p += 1;
                    r
                };
                match r {
                    Resp::Stall(ms) => std::thread::sleep(Duration::from_millis(ms)),
                    r => break r,
                }
            };
            let st = sess.script.style;
            match r {
                Resp::Chunk(b, last) => {
                    // `last` is "the first query byte is 1": every other query is a non-final chunk
                    let q: &[u8] = if last { [&[1u8][..], &[1, 0], &[1, 9, 9]][((st >> 3) & 3) as usize % 3] } else { [&[0u8][..], &[], &[2], &[0, 1], &[255]][(st & 7) as usize % 5] };
                    styled(frame(f.h.id, 0, ((st >> 13) & 1) as u16, q, ((st >> 14) & 1) as u16, &b), st)
                }
                Resp::Error => {
                    // bits 35-39: a sweep of every ErrorCode (and some that are none) a peer can answer with
                    let sweep = [1u32, 2, 3, 4, 5, 6, 7, 8, 9, 10, 4095, 4096, 4097, 65535, 1 << 31, u32::MAX];
                    let ec = if (st >> 35) & 31 != 0 { sweep[((st >> 35) & 31) as usize % sweep.len()] } else { [9u32, 1, 5, 4096, 77, 3][((st >> 5) & 7) as usize % 6] };
                    let body: &[u8] = if (st >> 8) & 1 == 1 { &[0xff, 0xfe, 0x00, 0x80] } else { b"producer failed" };
                    styled(frame(f.h.id, ec, 0, b"", 3, body), st)
                }
                Resp::Cut => Act::Close,
                Resp::Hang | Resp::Stall(_) => Act::Silent,
            }
        }
        _ => frame(f.h.id, 6, 0, b"", 3, b"no route"),
    }
}

fn fake_conn(mut s: TcpStream, reg: Reg, ids: Arc<AtomicU64>) {
    let _ = s.set_nodelay(true);
    let mut streams: HashMap<u64, Arc<Sess>> = HashMap::new();
    while let Some(f) = read_frame(&mut s) {
        match answer(&f, &reg, &ids, &mut streams) {
            Act::Reply(b, st) => {
                if !write_fragmented(&mut s, &b, st) {
                    return;
                }
            }
            Act::Silent => {}
            Act::Close => {
                let _ = s.shutdown(std::net::Shutdown::Both);
                return;
            }
        }
    }
}

/// The same peer behind a WebSocket endpoint: one REPE frame per binary message; a cut drops the TCP
/// connection without a close handshake.
async fn fake_ws_conn(s: tokio::net::TcpStream, reg: Reg, ids: Arc<AtomicU64>) {
    use futures_util::{SinkExt, StreamExt};
    use tokio_tungstenite::tungstenite::Message as Ws;
    let _ = s.set_nodelay(true);
    let Ok(mut ws) = tokio_tungstenite::accept_async(s).await else { return };
    let mut streams: HashMap<u64, Arc<Sess>> = HashMap::new();
    while let Some(Ok(m)) = ws.next().await {
        let Ws::Binary(payload) = m else { continue };
        let Some((f, _)) = RawFrame::parse_prefix(&payload) else { return };
        match answer(&f, &reg, &ids, &mut streams) {
            Act::Reply(b, _) => {
                if ws.send(Ws::Binary(b.into())).await.is_err() {
                    return;
                }
            }
            Act::Silent => {}
            Act::Close => return, // dropping the stream closes the socket
        }
    }
}

fn start_fake() -> Fake {
    let l = TcpListener::bind("127.0.0.1:0").expect("bind");
    let addr = l.local_addr().unwrap();
    let reg: Arc<Mutex<HashMap<String, Arc<Sess>>>> = Arc::new(Mutex::new(HashMap::new()));
    let ids = Arc::new(AtomicU64::new(1));
    let reg2 = reg.clone();
    let ids2 = ids.clone();
    std::thread::spawn(move || {
        for c in l.incoming() {
            let Ok(c) = c else { continue };
            let (r, i) = (reg2.clone(), ids2.clone());
            std::thread::spawn(move || fake_conn(c, r, i));
        }
    });
    Fake { addr, reg, ws_addr: None, ids }
}

impl Fake {
    /// Start the WebSocket front end on `rt`.
    fn start_ws(&mut self, rt: &tokio::runtime::Runtime) {
        let (reg, ids) = (self.reg.clone(), self.ids.clone());
        let l = rt.block_on(async { tokio::net::TcpListener::bind("127.0.0.1:0").await }).expect("bind ws");
        self.ws_addr = Some(l.local_addr().unwrap());
        rt.spawn(async move {
            loop {
                let Ok((c, _)) = l.accept().await else { continue };
                tokio::spawn(fake_ws_conn(c, reg.clone(), ids.clone()));
            }
        });
    }
    fn register(&self, name: &str, sc: &Script, flavour: u8) -> Arc<Sess> {
        let s = Arc::new(Sess { script: sc.clone(), open_flavour: flavour, pos: Mutex::new(0) });
        self.reg.lock().unwrap().insert(name.to_string(), s.clone());
        s
    }
    fn unregister(&self, name: &str) {
        self.reg.lock().unwrap().remove(name);
    }
}

// ------------------------------------------------------------------------------------------
// running a puller (in-process and in the child)
// ------------------------------------------------------------------------------------------
#[derive(Default, Clone)]
struct Seen {
    called: bool,
    digest: Vec<u8>,
    trailer: Vec<u8>,
}

/// Run once from inside the caller-supplied `verify` (the temp file exists and is complete then).
static VERIFY_HOOK: Mutex<Option<Box<dyn FnOnce() + Send>>> = Mutex::new(None);
fn run_verify_hook() {
    let h = VERIFY_HOOK.lock().unwrap().take();
    if let Some(h) = h {
        h();
    }
}

fn rej() -> RepeError {
    RepeError::Io(std::io::Error::other("verification rejected"))
}

/// every `RepeError` variant a caller's `verify` / consumer can hand back (an error is an error)
fn rej_variant(i: u64) -> RepeError {
    use repe::ErrorCode as C;
    match i % 14 {
        0 => RepeError::VersionMismatch(9),
        1 => RepeError::InvalidSpec(0),
        2 => RepeError::InvalidHeaderLength(0),
        3 => RepeError::LengthMismatch { expected: 1, got: 2 },
        4 => RepeError::BufferTooSmall { need: 1, have: 0 },
        5 => RepeError::ResponseIdMismatch { expected: 1, got: 2 },
        6 => RepeError::Io(std::io::Error::new(std::io::ErrorKind::UnexpectedEof, "eof")),
        7 => RepeError::Io(std::io::Error::new(std::io::ErrorKind::Interrupted, "interrupted")),
        8 => RepeError::Json(serde_json::from_str::<u8>("x").unwrap_err()),
        9 => RepeError::UnknownEnumValue(0),
        10 => RepeError::ServerError { code: C::Ok, message: String::new() },
        11 => RepeError::ServerError { code: C::Timeout, message: "t".into() },
        12 => RepeError::ServerError { code: C::ApplicationErrorBase, message: "a".into() },
        _ => rej(),
    }
}

/// Call the real puller. `seen` records what the caller-supplied `verify` was handed.
/// Every `io::ErrorKind` a caller's source / sink / body may fail with (an error is an error: none of them
/// may read as "end of input"). `Interrupted` is the one kind `io::copy` / `write_all` retry by contract.
const KINDS: &[(&str, std::io::ErrorKind)] = {
    use std::io::ErrorKind::*;
    &[
        ("NotFound", NotFound), ("PermissionDenied", PermissionDenied), ("ConnectionRefused", ConnectionRefused),
        ("ConnectionReset", ConnectionReset), ("HostUnreachable", HostUnreachable), ("NetworkUnreachable", NetworkUnreachable),
        ("ConnectionAborted", ConnectionAborted), ("NotConnected", NotConnected), ("AddrInUse", AddrInUse),
        ("AddrNotAvailable", AddrNotAvailable), ("NetworkDown", NetworkDown), ("BrokenPipe", BrokenPipe),
        ("AlreadyExists", AlreadyExists), ("WouldBlock", WouldBlock), ("NotADirectory", NotADirectory),
        ("IsADirectory", IsADirectory), ("DirectoryNotEmpty", DirectoryNotEmpty), ("ReadOnlyFilesystem", ReadOnlyFilesystem),
        ("StaleNetworkFileHandle", StaleNetworkFileHandle), ("InvalidInput", InvalidInput), ("InvalidData", InvalidData),
        ("TimedOut", TimedOut), ("WriteZero", WriteZero), ("StorageFull", StorageFull), ("NotSeekable", NotSeekable),
        ("QuotaExceeded", QuotaExceeded), ("FileTooLarge", FileTooLarge), ("ResourceBusy", ResourceBusy),
        ("ExecutableFileBusy", ExecutableFileBusy), ("Deadlock", Deadlock), ("CrossesDevices", CrossesDevices),
        ("TooManyLinks", TooManyLinks), ("InvalidFilename", InvalidFilename), ("ArgumentListTooLong", ArgumentListTooLong),
        ("Unsupported", Unsupported), ("UnexpectedEof", UnexpectedEof), ("OutOfMemory", OutOfMemory), ("Other", Other),
        ("Interrupted", Interrupted),
    ]
};
fn kind_of(name: &str) -> std::io::ErrorKind {
    KINDS.iter().find(|(n, _)| *n == name).map(|(_, k)| *k).unwrap_or(std::io::ErrorKind::Other)
}
fn kind_name(k: std::io::ErrorKind) -> &'static str {
    KINDS.iter().find(|(_, x)| *x == k).map(|(n, _)| *n).unwrap_or("Other")
}

/// A digest sink that refuses (Err) or dies (panic) once more than `limit` bytes were fed to it.
struct FaultyDigest {
    buf: Vec<u8>,
    limit: Option<(u64, bool)>,
    /// 0 plain, 1 short writes (one byte per call), 2 `Interrupted` on every other call, 3 slow
    mode: u8,
    calls: u64,
    /// the kind of the error it refuses with
    kind: std::io::ErrorKind,
}
impl Write for FaultyDigest {
    fn write(&mut self, b: &[u8]) -> std::io::Result<usize> {
        if let Some((n, pan)) = self.limit {
            if (self.buf.len() + b.len()) as u64 > n {
                if pan {
                    std::panic::panic_any(DigestDied);
                }
                return Err(std::io::Error::new(self.kind, "digest sink refused"));
            }
        }
        self.calls += 1;
        match self.mode {
            1 if !b.is_empty() => {
                self.buf.push(b[0]);
                return Ok(1);
            }
            2 if self.calls % 2 == 1 => return Err(std::io::Error::new(std::io::ErrorKind::Interrupted, "try again")),
            3 if self.calls % 16 == 1 => std::thread::sleep(Duration::from_micros(200)),
            _ => {}
        }
        self.buf.extend_from_slice(b);
        Ok(b.len())
    }
    fn flush(&mut self) -> std::io::Result<()> {
        Ok(())
    }
}
/// a panic payload that is neither a `String` nor a `&str`
struct DigestDied;
struct VerifyDied(#[allow(dead_code)] u64);

/// inbound limit for the next WebSocket clients (0 = the crate's default)
static WS_LIMIT: std::sync::atomic::AtomicUsize = std::sync::atomic::AtomicUsize::new(0);
/// thorough tier: 1-byte fragmentation also of larger frames
static THOROUGH: std::sync::atomic::AtomicBool = std::sync::atomic::AtomicBool::new(false);

/// A live client; sequences of pulls reuse one.
enum Conn {
    Sync(Client),
    Async(AsyncClient),
    Ws(repe::WebSocketClient),
}
impl Conn {
    fn open(rt: &tokio::runtime::Runtime, p: Puller, addr: SocketAddr, ws: Option<SocketAddr>) -> Result<Conn, RepeError> {
        let wl = WS_LIMIT.load(Ordering::Relaxed);
        Ok(match (p.is_async(), ws) {
            (true, Some(wsa)) if wl > 0 => {
                let lim = repe::WebSocketLimits { max_incoming_frame_size: Some(wl), max_incoming_message_size: Some(wl), ..Default::default() };
                Conn::Ws(rt.block_on(repe::WebSocketClient::connect_with_limits(&format!("ws://{wsa}"), lim)).map_err(RepeError::Io)?)
            }
            (true, Some(wsa)) => Conn::Ws(rt.block_on(repe::WebSocketClient::connect(&format!("ws://{wsa}"))).map_err(RepeError::Io)?),
            (true, None) => Conn::Async(rt.block_on(AsyncClient::connect(addr)).map_err(RepeError::Io)?),
            (false, _) => Conn::Sync(Client::connect(addr).map_err(RepeError::Io)?),
        })
    }
}

#[derive(Clone, Copy)]
struct Knobs {
    verify_ok: bool,
    verify_kind: u8,
    dfault: Option<(u64, bool)>,
    via_ps: bool,
    digest_mode: u8,
    digest_kind: std::io::ErrorKind,
    /// which `RepeError` variant a rejecting verify returns (style bits 31-34)
    rej_variant: u64,
}
impl Default for Knobs {
    fn default() -> Knobs {
        Knobs { verify_ok: false, verify_kind: 0, dfault: None, via_ps: false, digest_mode: 0, digest_kind: std::io::ErrorKind::Other, rej_variant: 13 }
    }
}
impl Knobs {
    fn of(sc: &Script) -> Knobs {
        Knobs { verify_ok: sc.verify_ok, verify_kind: sc.verify_kind, dfault: sc.dfault, via_ps: sc.via_ps, digest_mode: ((sc.style >> 21) & 3) as u8, digest_kind: KINDS[((sc.style >> 25) & 63) as usize % (KINDS.len() - 1)].1, rej_variant: if (sc.style >> 31) & 15 == 0 { 13 } else { ((sc.style >> 31) & 15) - 1 } }
    }
}

fn verify_behaviour(k: Knobs) -> Result<(), RepeError> {
    match k.verify_kind {
        1 => panic!("{}", String::from("verify panics (String)")),
        2 => std::panic::panic_any("verify panics (&'static str)"),
        3 => std::panic::panic_any(VerifyDied(7)),
        4 => std::thread::sleep(Duration::from_millis(40)),
        _ => {}
    }
    if k.verify_ok { Ok(()) } else { Err(rej_variant(k.rej_variant)) }
}

/// Call the real puller on `conn`. `seen` records what the caller-supplied `verify` was handed.
fn call_on(rt: &tokio::runtime::Runtime, conn: &Conn, p: Puller, resource: &str, dest: &Path, trailer: usize, k: Knobs, seen: Arc<Mutex<Seen>>) -> Result<(), RepeError> {
    use repe::value_stream::StreamOutput;
    let v1 = {
        let seen = seen.clone();
        move |d: FaultyDigest| {
            run_verify_hook();
            {
                let mut s = seen.lock().unwrap();
                s.called = true;
                s.digest = d.buf;
            }
            verify_behaviour(k)
        }
    };
    let v2 = {
        let seen = seen.clone();
        move |d: FaultyDigest, t: &[u8]| {
            run_verify_hook();
            {
                let mut s = seen.lock().unwrap();
                s.called = true;
                s.digest = d.buf;
                s.trailer = t.to_vec();
            }
            verify_behaviour(k)
        }
    };
    let dg = FaultyDigest { buf: vec![], limit: k.dfault, mode: k.digest_mode, calls: 0, kind: k.digest_kind };
    match conn {
        Conn::Ws(c) => rt.block_on(async move {
            match p {
                Puller::FileAsync => repe::pull_to_file_async(c, resource, dest).await.map(|_| ()),
                Puller::VerifiedAsync => repe::pull_to_file_verified_async(c, resource, dest, dg, v1).await,
                _ => repe::pull_to_file_trailer_verified_async(c, resource, dest, trailer, dg, v2).await,
            }
        }),
        Conn::Async(c) => rt.block_on(async move {
            match p {
                Puller::FileAsync => repe::pull_to_file_async(c, resource, dest).await.map(|_| ()),
                Puller::VerifiedAsync => repe::pull_to_file_verified_async(c, resource, dest, dg, v1).await,
                _ => repe::pull_to_file_trailer_verified_async(c, resource, dest, trailer, dg, v2).await,
            }
        }),
        Conn::Sync(c) => match (p, k.via_ps) {
            (Puller::File, false) => repe::pull_to_file(c, resource, dest),
            (Puller::BeveZst, false) => repe::pull_to_beve_zst_file(c, resource, dest),
            (Puller::Beve, false) => repe::pull_to_beve_file(c, resource, dest),
            (Puller::File, true) => repe::pull_stream::<()>(c, resource, StreamOutput::RawFile(dest)).map(|_| ()),
            (Puller::BeveZst, true) => repe::pull_stream::<()>(c, resource, StreamOutput::BeveZstdFile(dest)).map(|_| ()),
            (Puller::Beve, true) => repe::pull_stream::<()>(c, resource, StreamOutput::BeveFile(dest)).map(|_| ()),
            _ => repe::pull_to_file_trailer_verified(c, resource, dest, trailer, dg, v2),
        },
    }
}

/// One pull on a fresh client.
fn call_puller(
    rt: &tokio::runtime::Runtime,
    p: Puller,
    addr: SocketAddr,
    resource: &str,
    dest: &Path,
    trailer: usize,
    k: Knobs,
    seen: Arc<Mutex<Seen>>,
    ws: Option<SocketAddr>,
) -> Result<(), RepeError> {
    let conn = Conn::open(rt, p, addr, ws)?;
    call_on(rt, &conn, p, resource, dest, trailer, k, seen)
}

fn child_main(a: &[String]) -> ! {
    // child <puller> <addr> <resource> <dest> <trailer> <verify> [<file size limit>]
    if let Some(lim) = a.get(6).and_then(|x| x.parse::<u64>().ok()) {
        // the file system refuses to grow any file past `lim` bytes: write(2) is cut short at the limit
        // and then fails with EFBIG (SIGXFSZ ignored)
        unsafe {
            libc::signal(libc::SIGXFSZ, libc::SIG_IGN);
            let rl = libc::rlimit { rlim_cur: lim as libc::rlim_t, rlim_max: lim as libc::rlim_t };
            if libc::setrlimit(libc::RLIMIT_FSIZE, &rl) != 0 {
                println!("ret setup-failed");
                std::process::exit(3);
            }
        }
    }
    let p = Puller::parse(&a[0]).expect("puller");
    let addr: SocketAddr = a[1].parse().expect("addr");
    let rt = tokio::runtime::Builder::new_current_thread().enable_all().build().unwrap();
    let seen = Arc::new(Mutex::new(Seen::default()));
    let r = call_puller(&rt, p, addr, &a[2], Path::new(&a[3]), a[4].parse().unwrap(), Knobs { verify_ok: a[5] == "ok", ..Knobs::default() }, seen.clone(), None);
    let mut o = std::io::stdout();
    let sn = seen.lock().unwrap().clone();
    let _ = writeln!(o, "ret {} seen {} trailer {}", if r.is_ok() { "ok" } else { "err" }, digest(&sn.digest), hex(&sn.trailer));
    let _ = o.flush();
    std::process::exit(0);
}

const OLD: &[u8] = b"OLD-CONTENT-OF-THE-DESTINATION";

fn tmp_of(dest: &Path) -> PathBuf {
    let mut n = dest.file_name().unwrap().to_os_string();
    n.push(".svspart");
    dest.with_file_name(n)
}

fn prepare_sc(dir: &Path, sc: &Script) -> PathBuf {
    let dest = prepare(dir, sc.dest);
    if sc.sync_fault {
        let t = tmp_of(&dest);
        let _ = std::fs::remove_file(&t);
        std::os::unix::fs::symlink("/dev/null", &t).expect("plant temp symlink");
    }
    dest
}

/// Can the fsync fault be injected here? (`fsync` on /dev/null must fail.)
fn fsync_on_devnull_fails() -> bool {
    match std::fs::OpenOptions::new().write(true).open("/dev/null") {
        Ok(mut f) => f.write_all(b"x").is_ok() && f.sync_all().is_err(),
        Err(_) => false,
    }
}

fn tmp_present(dest: &Path) -> bool {
    std::fs::symlink_metadata(tmp_of(dest)).is_ok()
}

fn prepare(dir: &Path, d: Dest) -> PathBuf {
    let _ = std::fs::remove_dir_all(dir);
    std::fs::create_dir_all(dir).expect("case dir");
    match d {
        Dest::Name247 => return prepare_named(dir, &format!("{}.bin", "n".repeat(243)), d),
        Dest::Name250 => return prepare_named(dir, &format!("{}.bin", "n".repeat(246)), d),
        _ => {}
    }
    prepare_named(dir, "out.bin", d)
}

fn prepare_named(dir: &Path, name: &str, d: Dest) -> PathBuf {
    let dest = match d {
        Dest::NoParent => dir.join("missing").join(name),
        Dest::SymParent => {
            std::fs::create_dir_all(dir.join("real")).unwrap();
            let _ = std::os::unix::fs::symlink(dir.join("real"), dir.join("link"));
            dir.join("link").join(name)
        }
        _ => dir.join(name),
    };
    if d.stale() {
        std::fs::write(tmp_of(&dest), vec![0xEEu8; 40000]).unwrap();
    }
    match d.base() {
        Dest::Old => std::fs::write(&dest, OLD).unwrap(),
        Dest::Dir => {
            std::fs::create_dir_all(&dest).unwrap();
            std::fs::write(dest.join("keep"), b"k").unwrap();
        }
        _ => {}
    }
    dest
}

#[derive(Clone, PartialEq, Debug)]
enum DestState {
    Same,
    New(Vec<u8>),
    Gone,
}
fn dest_state(dest: &Path, d: Dest) -> DestState {
    let d = d.base();
    let md = std::fs::symlink_metadata(dest);
    match (d, md) {
        (Dest::None, Err(_)) => DestState::Same,
        (Dest::Dir, Ok(m)) if m.is_dir() => {
            if dest.join("keep").exists() { DestState::Same } else { DestState::New(vec![]) }
        }
        (_, Err(_)) => DestState::Gone,
        (Dest::Old, Ok(m)) if m.is_file() => {
            let b = std::fs::read(dest).unwrap_or_default();
            if b == OLD { DestState::Same } else { DestState::New(b) }
        }
        (_, Ok(m)) if m.is_file() => DestState::New(std::fs::read(dest).unwrap_or_default()),
        _ => DestState::New(b"?not-a-file".to_vec()),
    }
}
fn show_dest(s: &DestState) -> String {
    match s {
        DestState::Same => "same".into(),
        DestState::New(b) => digest(b),
        DestState::Gone => "gone".into(),
    }
}

struct Obs {
    /// the call unwound with a panic (from the caller-supplied verify)
    panicked: bool,
    ok: bool,
    dest: DestState,
    tmp: bool,
    seen: Seen,
}

/// The property's own statement, evaluated on one finished in-process pull.
fn oracles(out: &mut Out, sc: &Script, o: &Obs, op: &str) {
    let p = sc.puller.name();
    let exp = sc.expected_content();
    let ops = [op.to_string()];
    // a destination whose temp sibling's name would be too long: failing cleanly is what the code does; a tree
    // that found another temp name and published the complete content would not break the property either
    if sc.dest == Dest::Name250 && o.ok {
        let alt = (Script { dest: Dest::None, ..sc.clone() }).expected_content();
        if let (Some(c), DestState::New(b)) = (&alt, &o.dest) {
            if b == c && !o.tmp {
                return;
            }
        }
    }
    match (&exp, o.ok) {
        (None, true) => out.oracle_fail(&format!("commit.{p}.ok-on-failing-script"), "the pull returned Ok although the script is a failing one (producer error / cut / rejected / short / incompatible / write refused)", &ops),
        (Some(_), false) => out.oracle_fail(&format!("commit.{p}.err-on-complete-stream"), "the pull returned Err although the whole stream arrived and verification accepted", &ops),
        _ => {}
    }
    match (&exp, &o.dest) {
        (None, DestState::Same) => {}
        (None, d) => out.oracle_fail(
            &format!("commit.{p}.dest-changed-on-failure"),
            &format!("failing script, but the destination is now {} (was {:?})", show_dest(d), sc.dest),
            &ops,
        ),
        (Some(c), DestState::New(b)) if b == c => {}
        (Some(c), DestState::Same) if sc.dest.base() == Dest::Old && c == OLD => {}
        (Some(c), d) => out.oracle_fail(
            &format!("commit.{p}.published-not-complete"),
            &format!("destination is {} but the complete content is {}", show_dest(d), digest(c)),
            &ops,
        ),
    }
    // a pull that fails before it creates its temp file cannot be blamed for a stale one
    let never_created = sc.open != Open::Ok || !sc.puller.tags_ok(sc.zstd, sc.beve) || sc.dest == Dest::NoParent || sc.dest == Dest::Name250;
    if o.panicked && !(sc.verify_panics || matches!(sc.dfault, Some((_, true))) || sc.trailer > isize::MAX as usize) {
        out.oracle_fail(&format!("commit.{p}.panic"), "the pull panicked although no caller-supplied code does", &ops);
    }
    if o.tmp && !(sc.dest.stale() && never_created) {
        out.oracle_fail(&format!("commit.{p}.temp-left"), "the .svspart sibling exists after the in-process pull returned", &ops);
    }
    if o.seen.called {
        // verify must only ever see a whole stream, split at the right place
        let logical: Option<Vec<u8>> = match sc.payload() {
            None => None,
            Some(wb) => {
                if sc.zstd {
                    if let Dec::Ok(b) = &sc.dec { Some(b.clone()) } else { None }
                } else {
                    Some(wb)
                }
            }
        };
        match logical {
            None => out.oracle_fail(&format!("commit.{p}.verify-on-truncated"), "verify was called although the stream did not arrive whole", &ops),
            Some(l) => {
                let n = if sc.puller.has_trailer() { sc.trailer } else { 0 };
                if n > l.len() || o.seen.digest != l[..l.len() - n] || o.seen.trailer != l[l.len() - n..] {
                    out.oracle_fail(
                        &format!("commit.{p}.trailer-split-wrong"),
                        &format!("verify saw payload {} trailer {} for a stream of {} bytes, trailer_len {}", digest(&o.seen.digest), hex(&o.seen.trailer), l.len(), n),
                        &ops,
                    );
                }
            }
        }
    }
}

fn obs_line(idx: &str, sc: &Script, o: &Obs) -> String {
    let mut s = format!("{} ret {} dest {} tmp {}", idx, if o.panicked { "panic" } else if o.ok { "ok" } else { "err" }, show_dest(&o.dest), o.tmp as u8);
    if sc.puller.has_trailer() && o.ok {
        s.push_str(&format!(" seen {} trailer {}", digest(&o.seen.digest), hex(&o.seen.trailer)));
    }
    s
}

struct Ctx {
    rt: Arc<tokio::runtime::Runtime>,
    fake: Fake,
    work: PathBuf,
    exe: PathBuf,
    n: u64,
    strace_ok: bool,
    /// what a concurrent observer of the destination saw that was neither old nor complete (last in-process pull)
    last_watch: Option<String>,
    watch_reads: u64,
    /// the last in-process pull did not return within its watchdog
    last_hung: bool,
    /// fsync on /dev/null fails here, so a sync fault can be planted
    syncfault_ok: bool,
    /// also kill on entry to the N-th write(2) of any thread, sockets included (thorough tier)
    anywrite: bool,
}

impl Ctx {
    fn fresh(&mut self) -> (String, PathBuf) {
        self.n += 1;
        (format!("r{}", self.n), self.work.join(format!("c{}", self.n % 64)))
    }

    fn run_inproc(&mut self, sc: &Script, addr: SocketAddr, resource: &str) -> Obs {
        let (_, dir) = self.fresh();
        let dest = prepare_sc(&dir, sc);
        let seen = Arc::new(Mutex::new(Seen::default()));
        let ws = if sc.ws { self.fake.ws_addr } else { None };
        WS_LIMIT.store(sc.wl.unwrap_or(0), Ordering::Relaxed);
        // observers: 1-2 threads read the destination in a loop while the pull runs; every sight must be
        // the old state or the complete content
        self.last_watch = None;
        let stop = Arc::new(std::sync::atomic::AtomicBool::new(false));
        let mut watchers = vec![];
        if (sc.style >> 23) & 1 == 1 && matches!(sc.dest, Dest::Old | Dest::None) {
            let complete = sc.expected_content();
            for _ in 0..(1 + (sc.style >> 24) & 1) {
                let (stop, dest, complete, old) = (stop.clone(), dest.clone(), complete.clone(), sc.dest == Dest::Old);
                watchers.push(std::thread::spawn(move || -> (u64, Option<String>) {
                    let mut n = 0u64;
                    loop {
                        let done = stop.load(Ordering::Relaxed);
                        let sight = std::fs::read(&dest).ok();
                        n += 1;
                        let fine = match &sight {
                            None => !old || complete.is_none() && false || !old,
                            Some(b) => (old && b == OLD) || complete.as_ref().map(|c| c == b).unwrap_or(false),
                        };
                        // (a pre-existing destination never becomes absent)
                        let fine = fine && !(old && sight.is_none());
                        if !fine {
                            return (n, Some(sight.map(|b| digest(&b)).unwrap_or("absent".into())));
                        }
                        if done {
                            return (n, None);
                        }
                        std::thread::yield_now();
                    }
                }));
            }
        }
        let r = {
            let (rt, p, res, d, tr, k, sn) = (self.rt.clone(), sc.puller, resource.to_string(), dest.clone(), sc.trailer, Knobs::of(sc), seen.clone());
            guarded(bound_for(sc), move || catch(|| call_puller(&rt, p, addr, &res, &d, tr, k, sn, ws)))
        };
        self.last_hung = r.is_none();
        let r = r.unwrap_or(Ok(Err(rej())));
        WS_LIMIT.store(0, Ordering::Relaxed);
        stop.store(true, Ordering::Relaxed);
        for w in watchers {
            if let Ok((n, bad)) = w.join() {
                self.watch_reads += n;
                if bad.is_some() {
                    self.last_watch = bad;
                }
            }
        }
        let panicked = r.is_err();
        let r = r.unwrap_or_else(|_| Err(rej()));
        let o = Obs { panicked, ok: r.is_ok(), dest: dest_state(&dest, sc.dest), tmp: tmp_present(&dest), seen: seen.lock().unwrap().clone() };
        let _ = std::fs::remove_dir_all(&dir);
        o
    }

    fn exec_script(&mut self, out: &mut Out, idx: &str, sc: &Script, flavour: u8) {
        if should_stop(out) {
            return;
        }
        if sc.sync_fault && !self.syncfault_ok {
            out.count("syncfault.skipped-not-injectable");
            return;
        }
        let op = format!("script {} {}", idx, sc.words());
        out.begin(&op);
        if sc.wfault.is_some() {
            return self.exec_wfault(out, idx, sc, &op, flavour);
        }
        let (name, _) = self.fresh();
        // resource keys are opaque strings: non-ASCII, separators, very long
        let name = match (sc.style >> 15) & 7 {
            1 => format!("r\u{e9}s/\u{4e2d}\u{6587} {name}"),
            2 => format!("{}{name}", "x".repeat(5000)),
            3 => format!("/_svs/open/{name}?a=b#c"),
            4 => format!("{name}\u{0}\n"),
            _ => name,
        };
        self.fake.register(&name, sc, flavour);
        let o = self.run_inproc(sc, self.fake.addr, &name);
        self.fake.unregister(&name);
        oracles(out, sc, &o, &op);
        if self.last_hung {
            out.oracle_fail(&format!("commit.{}.call-never-returned", sc.puller.name()), "the peer answered every request (or closed), yet the pull neither returned a result nor an error within its watchdog", &[op.clone()]);
        }
        if let Some(bad) = self.last_watch.take() {
            out.oracle_fail(&format!("commit.observer.{}.saw-neither-old-nor-complete", sc.puller.name()), &format!("a thread reading the destination while the pull ran saw {bad}"), &[op.clone()]);
        }
        if (sc.style >> 23) & 1 == 1 {
            out.count("script.with-observers");
        }
        count_case(out, sc, "script");
        if sc.style != 0 {
            out.count("script.style.nonzero");
        }
        if sc.via_ps {
            out.count("script.entry.pull_stream");
        }
        out.case(&op, &obs_line(idx, sc, &o), nontrivial(sc));
    }

    /// A script with a write fault: the pull runs in a child whose file-size limit is the fault position.
    fn exec_wfault(&mut self, out: &mut Out, idx: &str, sc: &Script, op: &str, flavour: u8) {
        let (name, dir) = self.fresh();
        let dest = prepare(&dir, sc.dest);
        self.fake.register(&name, sc, flavour);
        let mut c = Command::new(&self.exe);
        c.arg("child").arg(sc.puller.name()).arg(self.fake.addr.to_string()).arg(&name).arg(&dest);
        c.arg(sc.trailer.to_string()).arg(if sc.verify_ok { "ok" } else { "rej" }).arg(sc.wfault.unwrap().to_string());
        c.stdin(Stdio::null()).stdout(Stdio::piped()).stderr(Stdio::null()).env("RUST_BACKTRACE", "0");
        let mut child = c.spawn().expect("spawn child");
        let status = wait_deadline(&mut child, Duration::from_secs(60));
        let mut so = String::new();
        if let Some(mut o) = child.stdout.take() {
            let _ = o.read_to_string(&mut so);
        }
        self.fake.unregister(&name);
        let w = words(&so);
        if status.is_none() {
            EXPIRIES.fetch_add(1, Ordering::Relaxed);
            out.oracle_fail(&format!("commit.{}.call-never-returned", sc.puller.name()), "the pulling child (write fault injected) did not finish within 60 s", &[op.to_string()]);
        }
        if status.is_none() || w.len() < 6 || (w[1] != "ok" && w[1] != "err") {
            out.count("wfault.child-did-not-finish");
            let _ = std::fs::remove_dir_all(&dir);
            return;
        }
        let o = Obs { panicked: false, ok: w[1] == "ok", dest: dest_state(&dest, sc.dest), tmp: tmp_present(&dest), seen: Seen::default() };
        let _ = std::fs::remove_dir_all(&dir);
        oracles(out, sc, &o, op);
        count_case(out, sc, "wfault");
        out.count(&format!("wfault.{}", if sc.expected_content().is_some() { "limit-not-reached" } else { "write-refused" }));
        let mut line = format!("{} ret {} dest {} tmp {}", idx, w[1], show_dest(&o.dest), o.tmp as u8);
        if sc.puller.has_trailer() && o.ok {
            line.push_str(&format!(" seen {} trailer {}", w[3], w[5]));
        }
        out.case(op, &line, true);
    }
}

impl Ctx {
    /// `sibling <i> <name>`: which other directory entry exists while `verify` runs = the temp sibling's name.
    fn exec_sibling(&mut self, out: &mut Out, idx: &str, name: &str) {
        if should_stop(out) {
            return;
        }
        let op = format!("sibling {} {}", idx, hex(name.as_bytes()));
        out.begin(&op);
        let (res, dir) = self.fresh();
        let _ = std::fs::remove_dir_all(&dir);
        std::fs::create_dir_all(&dir).unwrap();
        let dest = dir.join(name);
        let sc = make_script(Puller::Trailer, false, b"payload-and-trailer", &[5], None, false);
        self.fake.register(&res, &sc, 0);
        let listing: Arc<Mutex<Vec<String>>> = Arc::new(Mutex::new(vec![]));
        let (l2, d2, n2) = (listing.clone(), dir.clone(), name.to_string());
        *VERIFY_HOOK.lock().unwrap() = Some(Box::new(move || {
            let mut v: Vec<String> = std::fs::read_dir(&d2).map(|r| r.filter_map(|e| e.ok()).map(|e| e.file_name().to_string_lossy().to_string()).collect()).unwrap_or_default();
            v.retain(|x| *x != n2);
            v.sort();
            *l2.lock().unwrap() = v;
        }));
        let seen = Arc::new(Mutex::new(Seen::default()));
        let r = {
            let (rt, addr, res2, d2) = (self.rt.clone(), self.fake.addr, res.clone(), dest.clone());
            guarded(25, move || call_puller(&rt, Puller::Trailer, addr, &res2, &d2, 7, Knobs { verify_ok: true, ..Knobs::default() }, seen, None)).unwrap_or(Err(rej()))
        };
        self.fake.unregister(&res);
        *VERIFY_HOOK.lock().unwrap() = None;
        let l = listing.lock().unwrap().clone();
        let after: Vec<String> = std::fs::read_dir(&dir).map(|r| r.filter_map(|e| e.ok()).map(|e| e.file_name().to_string_lossy().to_string()).collect()).unwrap_or_default();
        if r.is_err() || after != vec![name.to_string()] {
            out.oracle_fail("commit.sibling.pull-failed-or-stray-entry", &format!("pull to {name:?}: result ok={}, directory afterwards {after:?}", r.is_ok()), &[op.clone()]);
        }
        let _ = std::fs::remove_dir_all(&dir);
        out.count("sibling.names");
        out.case(&op, &format!("{idx} temp {}", l.iter().map(|x| hex(x.as_bytes())).collect::<Vec<_>>().join(",")), true);
    }

    /// `nest <i> <nameA> <nameB> SCRIPT_A :: SCRIPT_B`: pull B (blocking puller) runs to its end inside
    /// pull A's `verify`, in the same directory, i.e. while A's temp file is complete and not yet renamed.
    fn exec_nest(&mut self, out: &mut Out, idx: &str, na: &str, nb: &str, a: &Script, b: &Script) {
        if should_stop(out) {
            return;
        }
        let op = format!("nest {} {} {} {} :: {}", idx, hex(na.as_bytes()), hex(nb.as_bytes()), a.words(), b.words());
        out.begin(&op);
        let (ra, dir) = self.fresh();
        let (rb, _) = self.fresh();
        let _ = std::fs::remove_dir_all(&dir);
        std::fs::create_dir_all(&dir).unwrap();
        let da = prepare_named(&dir, na, a.dest);
        let db = prepare_named(&dir, nb, b.dest);
        self.fake.register(&ra, a, 0);
        self.fake.register(&rb, b, 0);
        let bres: Arc<Mutex<Option<bool>>> = Arc::new(Mutex::new(None));
        {
            let (bres, db, rb, b, addr) = (bres.clone(), db.clone(), rb.clone(), b.clone(), self.fake.addr);
            *VERIFY_HOOK.lock().unwrap() = Some(Box::new(move || {
                // a blocking pull on a plain thread (never a nested block_on)
                let h = std::thread::spawn(move || {
                    let rt = tokio::runtime::Builder::new_current_thread().enable_all().build().unwrap();
                    call_puller(&rt, b.puller, addr, &rb, &db, b.trailer, Knobs::of(&b), Arc::new(Mutex::new(Seen::default())), None).is_ok()
                });
                *bres.lock().unwrap() = h.join().ok();
            }));
        }
        let seen = Arc::new(Mutex::new(Seen::default()));
        let r = {
            let (rt, addr, ra2, da2, a2, sn) = (self.rt.clone(), self.fake.addr, ra.clone(), da.clone(), a.clone(), seen.clone());
            guarded(40, move || call_puller(&rt, a2.puller, addr, &ra2, &da2, a2.trailer, Knobs::of(&a2), sn, None)).unwrap_or(Err(rej()))
        };
        *VERIFY_HOOK.lock().unwrap() = None;
        self.fake.unregister(&ra);
        self.fake.unregister(&rb);
        let oa = Obs { panicked: false, ok: r.is_ok(), dest: dest_state(&da, a.dest), tmp: tmp_present(&da), seen: seen.lock().unwrap().clone() };
        let bran = *bres.lock().unwrap();
        let ob = Obs { panicked: false, ok: bran == Some(true), dest: dest_state(&db, b.dest), tmp: tmp_present(&db), seen: Seen::default() };
        let _ = std::fs::remove_dir_all(&dir);
        if bran.is_none() {
            out.oracle_fail("commit.nest.inner-pull-did-not-run", "verify of the outer pull was not reached or the inner pull panicked", &[op.clone()]);
        }
        oracles(out, a, &oa, &op);
        oracles(out, b, &Obs { seen: Seen::default(), ..ob_clone(&ob) }, &op);
        out.count("nest.pairs");
        let line = format!("{idx} A ret {} dest {} tmp {} B ret {} dest {} tmp {}", if oa.ok { "ok" } else { "err" }, show_dest(&oa.dest), oa.tmp as u8, if ob.ok { "ok" } else { "err" }, show_dest(&ob.dest), ob.tmp as u8);
        out.case(&op, &line, true);
    }
}

/// Does the pull of this script run into the connection cut (so that the client is dead afterwards)?
fn hits_cut(sc: &Script) -> bool {
    if sc.open == Open::Cut {
        return true;
    }
    if sc.open != Open::Ok || !sc.puller.tags_ok(sc.zstd, sc.beve) {
        return false;
    }
    for r in &sc.wire {
        match r {
            Resp::Chunk(_, false) | Resp::Stall(_) => continue,
            Resp::Chunk(_, true) | Resp::Error => return false,
            Resp::Cut | Resp::Hang => return true,
        }
    }
    true // the answers run out: the peer closes
}

impl Ctx {
    /// `seq <i> <old:H|none> SCRIPT :: SCRIPT :: …`: several pulls through ONE client into ONE destination.
    /// Each must behave as on a fresh client in the same abstract state: destination = what the previous
    /// steps left, connection = alive unless an earlier step ran into a cut (then every call fails).
    fn exec_seq(&mut self, out: &mut Out, idx: &str, old: bool, steps: &[Script], same_resource: bool) {
        if should_stop(out) {
            return;
        }
        let op = format!("seq {} {} {}", idx, if old { format!("old:{}", hex(OLD)) } else { "none".into() }, steps.iter().map(|s| s.words()).collect::<Vec<_>>().join(" :: "));
        out.begin(&op);
        let (base, dir) = self.fresh();
        let dest = prepare(&dir, if old { Dest::Old } else { Dest::None });
        let names: Vec<String> = (0..steps.len()).map(|i| if same_resource { base.clone() } else { format!("{base}-{i}") }).collect();
        let (fake, addr, ws) = (self.fake.clone(), self.fake.addr, if steps[0].ws { self.fake.ws_addr } else { None });
        let (steps2, dest2, names2) = (steps.to_vec(), dest.clone(), names.clone());
        let (tx, rx) = std::sync::mpsc::channel();
        // on its own thread with its own runtime: a call on a dead client must fail, but if it hung it
        // must not hang the harness (promptness is another property's business)
        std::thread::spawn(move || {
            let rt = tokio::runtime::Builder::new_multi_thread().worker_threads(1).enable_all().build().unwrap();
            let mut res: Vec<(bool, bool, Option<Vec<u8>>, bool)> = vec![];
            let conn = Conn::open(&rt, steps2[0].puller, addr, ws);
            for (i, sc) in steps2.iter().enumerate() {
                fake.register(&names2[i], sc, 0);
                let r = match &conn {
                    Ok(c) => catch(|| call_on(&rt, c, sc.puller, &names2[i], &dest2, sc.trailer, Knobs::of(sc), Arc::new(Mutex::new(Seen::default())))),
                    Err(_) => Ok(Err(rej())),
                };
                let panicked = r.is_err();
                let ok = matches!(r, Ok(Ok(())));
                res.push((panicked, ok, std::fs::read(&dest2).ok(), tmp_present(&dest2)));
                let _ = tx.send(res.clone());
            }
        });
        let mut res = vec![];
        let t0 = Instant::now();
        while res.len() < steps.len() && t0.elapsed() < Duration::from_secs(40) {
            if let Ok(r) = rx.recv_timeout(Duration::from_millis(200)) {
                res = r;
            }
        }
        for n in &names {
            self.fake.unregister(n);
        }
        if res.len() < steps.len() {
            EXPIRIES.fetch_add(1, Ordering::Relaxed);
            out.oracle_fail(&format!("commit.seq.{}.call-never-returned", steps[res.len()].puller.name()), &format!("step {} of a sequence on one client did not return within 40 s", res.len() + 1), &[op.clone()]);
            return;
        }
        let _ = std::fs::remove_dir_all(&dir);
        // the abstract state, threaded by the harness from the scripts alone
        let mut cur: Option<Vec<u8>> = if old { Some(OLD.to_vec()) } else { None };
        let mut alive = true;
        let mut line = idx.to_string();
        for (i, sc) in steps.iter().enumerate() {
            let (panicked, ok, got, tmp) = &res[i];
            let exp = if alive { sc.expected_content() } else { None };
            if let Some(c) = &exp {
                cur = Some(c.clone());
            }
            let p = sc.puller.name();
            if *ok != exp.is_some() || *got != cur || *tmp {
                out.oracle_fail(
                    &format!("commit.seq.{p}.step-differs-from-fresh-client"),
                    &format!("step {} of a sequence on one client (connection {}): returned {}, destination {:?}, temp file {}; a fresh client in the same state gives {} and destination {:?}", i + 1, if alive { "alive" } else { "dead after an earlier cut" }, if *ok { "Ok" } else { "Err" }, got.as_ref().map(|b| digest(b)), tmp, if exp.is_some() { "Ok" } else { "Err" }, cur.as_ref().map(|b| digest(b))),
                    &[op.clone()],
                );
            }
            line.push_str(&format!(" | ret {} dest {} tmp {}", if *panicked { "panic" } else if *ok { "ok" } else { "err" }, got.as_ref().map(|b| digest(b)).unwrap_or("absent".into()), *tmp as u8));
            if alive && hits_cut(sc) {
                alive = false;
            }
        }
        out.count(&format!("seq.len.{}", steps.len()));
        if !alive {
            out.count("seq.with-dead-connection-tail");
        }
        out.case(&op, &line, true);
    }
}

fn ob_clone(o: &Obs) -> Obs {
    Obs { panicked: false, ok: o.ok, dest: o.dest.clone(), tmp: o.tmp, seen: o.seen.clone() }
}

/// The public entry points of the anchored file in the tree under test, read from its source.
fn source_entry_points() -> Vec<String> {
    let repo = std::env::var("VERIF_REPO").unwrap_or_else(|_| "/repo".into());
    let text = std::fs::read_to_string(Path::new(&repo).join("src").join("value_stream.rs")).unwrap_or_default();
    let text = text.split("#[cfg(test)]").next().unwrap_or("").to_string();
    let mut names: Vec<String> = vec![];
    let mut in_trait = false;
    for line in text.lines() {
        let t = line.trim_start();
        if t.starts_with("pub trait ") {
            in_trait = true;
        } else if line.starts_with('}') {
            in_trait = false;
        }
        for pre in ["pub async fn ", "pub fn "].iter().chain(if in_trait { ["async fn ", "fn "].iter() } else { [].iter() }) {
            if let Some(rest) = t.strip_prefix(pre) {
                let name: String = rest.chars().take_while(|c| c.is_alphanumeric() || *c == '_').collect();
                if !name.is_empty() && !names.contains(&name) {
                    names.push(name);
                }
            }
        }
    }
    names
}

/// entry points this family drives (the 18 pull functions, the producer registrars) …
const DRIVEN: &[&str] = &[
    "pull_stream", "pull_value", "pull_to_beve_zst_file", "pull_to_beve_file", "pull_to_file", "pull_consume", "pull_to_vec",
    "pull_to_file_trailer_verified", "pull_typed_slice", "pull_complex_slice", "pull_value_async", "pull_typed_slice_async",
    "pull_complex_slice_async", "pull_consume_async", "pull_to_file_async", "pull_to_file_verified_async", "pull_to_vec_async",
    "pull_to_file_trailer_verified_async", "with_value_stream", "with_typed_value_stream", "with_complex_value_stream",
    "with_reader_stream", "with_writer_stream",
];
/// … and those it knows and does not call itself, with the reason
const NOT_DRIVEN_BECAUSE: &[(&str, &str)] = &[
    ("svs_call", "AsyncSvsClient transport method: every async pull goes through it (AsyncClient and WebSocketClient impls are both run)"),
    ("svs_notify", "AsyncSvsClient transport method: the best-effort cancel of every async pull"),
];

/// A public function of the anchored file that is neither driven nor known is reported, never silent.
fn entry_point_audit(out: &mut Out) -> Vec<String> {
    let mut missing = vec![];
    for name in source_entry_points() {
        if !DRIVEN.contains(&name.as_str()) && !NOT_DRIVEN_BECAUSE.iter().any(|(n, _)| *n == name) {
            out.count(&format!("NOT_DRIVEN.{name}"));
            missing.push(name);
        }
    }
    out.extra.insert("not_driven".into(), serde_json::json!(missing));
    out.extra.insert("driven_entry_points".into(), serde_json::json!(DRIVEN.len()));
    if !missing.is_empty() {
        eprintln!("commit: public entry points of value_stream.rs NOT DRIVEN by fam_commit (add them to DRIVEN or NOT_DRIVEN_BECAUSE): {missing:?}");
    }
    missing
}

impl Ctx {
    /// `storm <i> <obs>… SCRIPT :: …`: 12-14 async pulls in flight through ONE AsyncClient when one of them runs
    /// into a connection cut. Which of the others got through is a matter of timing; each must be admissible on
    /// its own: Ok with exactly its complete content, or Err with its destination as it was — and no temp file.
    fn exec_storm(&mut self, out: &mut Out, idx: &str, scripts: &[Script]) {
        self.exec_storm_on(out, idx, scripts, None)
    }

    /// `real`: (off-reader cap, outbound capacity, chunk size) of the crate's own WebSocketServer serving the
    /// scripts' payloads from reader streams — the saturated-cap refusals, the bounded outbound queue and the
    /// off-reader dispatch are other properties' paths; here only this property's clauses are checked on them.
    fn exec_storm_on(&mut self, out: &mut Out, idx: &str, scripts: &[Script], real: Option<(usize, usize, usize)>) {
        if should_stop(out) {
            return;
        }
        let (base, dir) = self.fresh();
        let _ = std::fs::remove_dir_all(&dir);
        std::fs::create_dir_all(&dir).unwrap();
        let dests: Vec<PathBuf> = scripts.iter().enumerate().map(|(i, sc)| prepare_named(&dir, &format!("o{i}.bin"), sc.dest)).collect();
        let names: Vec<String> = (0..scripts.len()).map(|i| format!("{base}-{i}")).collect();
        for (n, sc) in names.iter().zip(scripts) {
            self.fake.register(n, sc, 0);
        }
        let (addr, rt) = (self.fake.addr, self.rt.clone());
        let (sc2, d2, n2) = (scripts.to_vec(), dests.clone(), names.clone());
        if let Some((cap, outcap, chunk)) = real {
            let table: HashMap<String, Vec<u8>> = names.iter().cloned().zip(scripts.iter().map(|s| s.payload().unwrap_or_default())).collect();
            let res = guarded(60, move || {
                rt.block_on(async move {
                    let opts = StreamOpts { chunk_bytes: chunk, compression: Compression::None, zstd_level: 3, session_depth: 1 };
                    let router = Router::new().with_reader_stream(move |r: &str| table.get(r).map(|b| std::io::Cursor::new(b.clone())), opts);
                    let server = repe::websocket_server::WebSocketServer::new(router).with_offreader_limit(cap).with_outbound_capacity(outcap);
                    let Ok(l) = repe::websocket_server::WebSocketServer::listen("127.0.0.1:0").await else { return vec![false; sc2.len()] };
                    let wsa = l.local_addr().unwrap();
                    tokio::spawn(async move {
                        let _ = server.serve_listener(l, "/").await;
                    });
                    let Ok(c) = repe::WebSocketClient::connect(&format!("ws://{wsa}/")).await else { return vec![false; sc2.len()] };
                    let c = &c;
                    let futs = sc2.iter().enumerate().map(|(i, sc)| {
                        let (dest, name) = (d2[i].clone(), n2[i].clone());
                        async move {
                            match sc.puller {
                                Puller::FileAsync => repe::pull_to_file_async(c, &name, &dest).await.map(|_| ()).is_ok(),
                                Puller::VerifiedAsync => repe::pull_to_file_verified_async(c, &name, &dest, Vec::<u8>::new(), |_d: Vec<u8>| if sc.verify_ok { Ok(()) } else { Err(rej()) }).await.is_ok(),
                                _ => repe::pull_to_file_trailer_verified_async(c, &name, &dest, sc.trailer, Vec::<u8>::new(), |_d: Vec<u8>, _t: &[u8]| if sc.verify_ok { Ok(()) } else { Err(rej()) }).await.is_ok(),
                            }
                        }
                    });
                    futures_util::future::join_all(futs).await
                })
            });
            return self.finish_storm(out, idx, scripts, &dests, &names, res, &dir, Some(format!("{cap} {outcap} {chunk}")));
        }
        let res = guarded(60, move || {
            rt.block_on(async move {
                let Ok(c) = AsyncClient::connect(addr).await else { return vec![false; sc2.len()] };
                let futs = sc2.iter().enumerate().map(|(i, sc)| {
                    let (c, dest, name) = (c.clone(), d2[i].clone(), n2[i].clone());
                    async move { pull_async_on(&c, sc, &name, &dest).await.is_ok() }
                });
                futures_util::future::join_all(futs).await
            })
        });
        self.finish_storm(out, idx, scripts, &dests, &names, res, &dir, None)
    }

    #[allow(clippy::too_many_arguments)]
    fn finish_storm(&mut self, out: &mut Out, idx: &str, scripts: &[Script], dests: &[PathBuf], names: &[String], res: Option<Vec<bool>>, dir: &Path, real: Option<String>) {
        for n in names {
            self.fake.unregister(n);
        }
        let head = match &real {
            Some(r) => format!("wsstorm {idx} {r}"),
            None => format!("storm {idx}"),
        };
        let words: Vec<String> = scripts.iter().map(|s| s.words()).collect();
        let Some(res) = res else {
            EXPIRIES.fetch_add(0, Ordering::Relaxed);
            out.oracle_fail("commit.storm.call-never-returned", "pulls sharing one client did not all return within 60 s", &[format!("{} {}", head, words.join(" :: "))]);
            return;
        };
        let mut obs = vec![];
        let mut bad = vec![];
        for (i, sc) in scripts.iter().enumerate() {
            let st = dest_state(&dests[i], sc.dest);
            let tmp = tmp_present(&dests[i]);
            let complete = sc.expected_content();
            let fine = !tmp && match (res[i], &st, &complete) {
                (true, DestState::New(b), Some(c)) => b == c,
                (true, DestState::Same, Some(c)) => sc.dest.base() == Dest::Old && c == OLD,
                (false, DestState::Same, _) => true,
                _ => false,
            };
            if !fine {
                bad.push(format!("pull {i} ({}): returned {}, destination {}, temp file {}", sc.puller.name(), if res[i] { "Ok" } else { "Err" }, show_dest(&st), tmp));
            }
            obs.push(format!("{}|{}", if res[i] { "ok" } else { "err" }, show_dest(&st)));
        }
        let _ = std::fs::remove_dir_all(dir);
        let op = format!("{} {} {}", head, obs.join(" "), words.join(" :: "));
        if !bad.is_empty() {
            out.oracle_fail("commit.storm.inadmissible-outcome", &bad.join("; "), &[op.clone()]);
        }
        out.count(&format!("{}.pulls.{}", if real.is_some() { "wsstorm" } else { "storm" }, scripts.len()));
        out.add("storm.got-through", res.iter().filter(|x| **x).count() as u64);
        out.case(&op, &format!("{idx} storm ok"), true);
    }
}

/// A reader source that parks before handing out byte `gate_at` until the harness opens its gate (and says so).
struct GatedReader {
    data: Vec<u8>,
    pos: usize,
    gate_at: Option<usize>,
    reached: std::sync::mpsc::Sender<()>,
    gate: Arc<(Mutex<bool>, std::sync::Condvar)>,
}
impl Read for GatedReader {
    fn read(&mut self, out: &mut [u8]) -> std::io::Result<usize> {
        if let Some(g) = self.gate_at {
            if self.pos >= g {
                let _ = self.reached.send(());
                let (m, cv) = &*self.gate;
                let mut open = m.lock().unwrap();
                let t0 = Instant::now();
                while !*open && t0.elapsed() < Duration::from_secs(20) {
                    open = cv.wait_timeout(open, Duration::from_millis(200)).unwrap().0;
                }
                self.gate_at = None;
            }
        }
        let lim = self.gate_at.map(|g| g.min(self.data.len())).unwrap_or(self.data.len());
        let n = out.len().min(lim - self.pos).min(5);
        out[..n].copy_from_slice(&self.data[self.pos..self.pos + n]);
        self.pos += n;
        Ok(n)
    }
}

/// schedules for three streams A, B, C of one Server: S = start the pull (it runs until its gate, if gated),
/// R = open the gate and wait for the pull to end. A lower-case start = not gated (runs to its end at once).
const GATE_SCHEDULES: &[&str] = &[
    "SA SB RA sC RB",    // one finishes while another is mid-stream, a third opens (and ends) afterwards
    "SA SB RA SC RB RC", // … the third parks mid-stream too; the older one goes on first
    "SA SB RA SC RC RB", // … the newer one goes on first
    "SA SB RB SC RA RC", // the later-opened one finishes first
    "SA SB SC RA RB RC", // all three open, then finish in order (control)
    "SA RA SB SC RC RB", // nothing overlaps the first (control)
    "SA SB SC RB RA sA RC", // a fourth open (A again) while C is still mid-stream
];

impl Ctx {
    /// `gate <i> <schedule#> <none|zstd> <puller> <chunk> <HA> <HB> <HC>`: three pulls of three different
    /// resources from ONE real Server whose reader sources are gated, interleaved as the schedule says.
    /// Each pull must give exactly its own resource's content (or fail and leave its destination alone).
    fn exec_gate(&mut self, out: &mut Out, idx: &str, sched: usize, zstd: bool, puller: &str, chunk: usize, data: &[Vec<u8>; 3]) {
        if should_stop(out) {
            return;
        }
        let op = format!("gate {} {} {} {} {} {} {} {}", idx, sched, if zstd { "zstd" } else { "none" }, puller, chunk, hex(&data[0]), hex(&data[1]), hex(&data[2]));
        out.begin(&op);
        let (_, dir) = self.fresh();
        let _ = std::fs::remove_dir_all(&dir);
        std::fs::create_dir_all(&dir).unwrap();
        let words: Vec<&str> = GATE_SCHEDULES[sched % GATE_SCHEDULES.len()].split(' ').collect();
        // gates and "reached" signals per resource
        let gates: Vec<Arc<(Mutex<bool>, std::sync::Condvar)>> = (0..3).map(|_| Arc::new((Mutex::new(false), std::sync::Condvar::new()))).collect();
        let mut reached_rx = vec![];
        let mut reached_tx = vec![];
        for _ in 0..3 {
            let (t, r) = std::sync::mpsc::channel();
            reached_tx.push(Mutex::new(t));
            reached_rx.push(r);
        }
        let gated_now: Arc<Mutex<[bool; 3]>> = Arc::new(Mutex::new([false; 3]));
        let opts = StreamOpts { chunk_bytes: chunk, compression: if zstd { Compression::Zstd } else { Compression::None }, zstd_level: 3, session_depth: 1 };
        let (d2, g2, gn2) = (data.clone(), gates.clone(), gated_now.clone());
        let reached_tx = Arc::new(reached_tx);
        let router = Router::new().with_reader_stream(
            move |res: &str| {
                let i = match res { "A" => 0, "B" => 1, "C" => 2, _ => return None };
                let gated = gn2.lock().unwrap()[i];
                Some(GatedReader { data: d2[i].clone(), pos: 0, gate_at: if gated { Some(d2[i].len() / 2) } else { None }, reached: reached_tx[i].lock().unwrap().clone(), gate: g2[i].clone() })
            },
            opts,
        );
        let server = Server::new(router);
        let l = server.listen("127.0.0.1:0").expect("bind");
        let addr = l.local_addr().unwrap();
        std::thread::spawn(move || {
            let _ = server.serve(l);
        });
        // one pull = one thread with its own client; result: Some(bytes it published / returned) or None (Err)
        let start = |i: usize, n: usize, puller: String, dir: PathBuf| -> std::sync::mpsc::Receiver<Option<Vec<u8>>> {
            let (tx, rx) = std::sync::mpsc::channel();
            std::thread::spawn(move || {
                let res = ["A", "B", "C"][i];
                let dest = dir.join(format!("out-{res}-{n}.bin"));
                let r: Option<Vec<u8>> = match puller.as_str() {
                    "consume" => Client::connect(addr).ok().and_then(|c| repe::pull_consume(&c, res, |r| { let mut b = vec![]; r.read_to_end(&mut b)?; Ok(b) }).ok()),
                    "fileasync" => {
                        let rt = tokio::runtime::Builder::new_current_thread().enable_all().build().unwrap();
                        rt.block_on(async { match AsyncClient::connect(addr).await { Ok(c) => repe::pull_to_file_async(&c, res, &dest).await.ok(), Err(_) => None } }).and_then(|_| std::fs::read(&dest).ok())
                    }
                    "trailer" => Client::connect(addr).ok().and_then(|c| repe::pull_to_file_trailer_verified(&c, res, &dest, 4, Vec::<u8>::new(), |_d: Vec<u8>, _t: &[u8]| Ok(())).ok()).and_then(|_| std::fs::read(&dest).ok()),
                    _ => Client::connect(addr).ok().and_then(|c| repe::pull_to_file(&c, res, &dest).ok()).and_then(|_| std::fs::read(&dest).ok()),
                };
                // a failed pull must not have published anything
                let r = if r.is_none() && dest.exists() { Some(b"!published-despite-error".to_vec()) } else { r };
                let _ = tx.send(r);
            });
            rx
        };
        let mut running: Vec<Option<std::sync::mpsc::Receiver<Option<Vec<u8>>>>> = vec![None, None, None];
        let mut results: Vec<(usize, Option<Option<Vec<u8>>>)> = vec![]; // (resource, None = never returned)
        let mut nstart = 0;
        for w in &words {
            let i = match &w[1..] { "A" => 0, "B" => 1, _ => 2 };
            match &w[..1] {
                "S" | "s" => {
                    let gated = &w[..1] == "S";
                    gated_now.lock().unwrap()[i] = gated;
                    *gates[i].0.lock().unwrap() = false;
                    while reached_rx[i].try_recv().is_ok() {}
                    if let Some(rx) = running[i].take() {
                        results.push((i, rx.recv_timeout(Duration::from_secs(30)).ok()));
                    }
                    let rx = start(i, nstart, puller.to_string(), dir.clone());
                    nstart += 1;
                    if gated {
                        // wait until the producer of this stream has parked mid-stream
                        let _ = reached_rx[i].recv_timeout(Duration::from_secs(15));
                        std::thread::sleep(Duration::from_millis(20));
                        running[i] = Some(rx);
                    } else {
                        results.push((i, rx.recv_timeout(Duration::from_secs(30)).ok()));
                    }
                }
                _ => {
                    *gates[i].0.lock().unwrap() = true;
                    gates[i].1.notify_all();
                    if let Some(rx) = running[i].take() {
                        results.push((i, rx.recv_timeout(Duration::from_secs(30)).ok()));
                    }
                }
            }
        }
        let mut line = idx.to_string();
        for (i, r) in &results {
            let want: &[u8] = if puller == "trailer" { &data[*i][..data[*i].len() - 4] } else { &data[*i] };
            match r {
                None => {
                    EXPIRIES.fetch_add(1, Ordering::Relaxed);
                    out.oracle_fail(&format!("commit.gate.{puller}.call-never-returned"), &format!("the pull of resource {} did not return within 30 s", ["A", "B", "C"][*i]), &[op.clone()]);
                    line.push_str(" | hung");
                }
                Some(None) => {
                    out.oracle_fail(&format!("commit.gate.{puller}.err-on-complete-stream"), &format!("the pull of resource {} failed although its producer delivered everything", ["A", "B", "C"][*i]), &[op.clone()]);
                    line.push_str(" | err");
                }
                Some(Some(b)) => {
                    if b != want {
                        out.oracle_fail(
                            &format!("commit.gate.{puller}.published-not-own-content"),
                            &format!("the pull of resource {} returned Ok with {} bytes ({}), its own complete content is {} bytes ({}) — streams interleaved on one Server as `{}`", ["A", "B", "C"][*i], b.len(), digest(b), want.len(), digest(want), GATE_SCHEDULES[sched % GATE_SCHEDULES.len()]),
                            &[op.clone()],
                        );
                    }
                    line.push_str(&format!(" | ok {}", digest(b)));
                }
            }
        }
        let _ = std::fs::remove_dir_all(&dir);
        out.count(&format!("gate.schedule.{}", sched % GATE_SCHEDULES.len()));
        out.case(&op, &line, true);
    }
}

/// A random presentation style; one in four also puts observer threads on the destination.
fn rand_style(rng: &mut Rng) -> u64 {
    let mut st = rng.next() & 0x7fffff;
    if (st >> 18) & 7 >= 6 {
        st &= !(4 << 18); // the long mid-frame stalls (modes 6, 7) only in the cases made for them
    }
    if rng.chance(1, 4) {
        st |= 1 << 23;
        st |= (rng.next() & 1) << 24;
    }
    st
}

async fn pull_async_on(c: &AsyncClient, sc: &Script, resource: &str, dest: &Path) -> Result<(), RepeError> {
    let k = Knobs::of(sc);
    let dg = FaultyDigest { buf: vec![], limit: k.dfault, mode: k.digest_mode, calls: 0, kind: k.digest_kind };
    match sc.puller {
        Puller::FileAsync => repe::pull_to_file_async(c, resource, dest).await.map(|_| ()),
        Puller::VerifiedAsync => repe::pull_to_file_verified_async(c, resource, dest, dg, move |_d: FaultyDigest| verify_behaviour(k)).await,
        _ => repe::pull_to_file_trailer_verified_async(c, resource, dest, sc.trailer, dg, move |_d: FaultyDigest, _t: &[u8]| verify_behaviour(k)).await,
    }
}

impl Ctx {
    /// `par <i> <blocking threads N> <shared 0|1> SCRIPT :: SCRIPT :: …`: async pulls running concurrently on a
    /// runtime whose blocking pool has N threads, one of them occupied when the pulls start; through one
    /// shared AsyncClient or one each; each into its own destination. Each must behave as if alone.
    fn exec_par(&mut self, out: &mut Out, idx: &str, bp: usize, shared: bool, scripts: &[Script]) {
        if should_stop(out) {
            return;
        }
        let op = format!("par {} {} {} {}", idx, bp, shared as u8, scripts.iter().map(|s| s.words()).collect::<Vec<_>>().join(" :: "));
        out.begin(&op);
        let (base, dir) = self.fresh();
        let _ = std::fs::remove_dir_all(&dir);
        std::fs::create_dir_all(&dir).unwrap();
        let dests: Vec<PathBuf> = scripts.iter().enumerate().map(|(i, sc)| prepare_named(&dir, &format!("out{i}.bin"), sc.dest)).collect();
        let names: Vec<String> = (0..scripts.len()).map(|i| format!("{base}-{i}")).collect();
        for (n, sc) in names.iter().zip(scripts) {
            self.fake.register(n, sc, 0);
        }
        let addr = self.fake.addr;
        let (sc2, d2, n2) = (scripts.to_vec(), dests.clone(), names.clone());
        let (tx, rx) = std::sync::mpsc::channel();
        std::thread::spawn(move || {
            let rt = tokio::runtime::Builder::new_multi_thread().worker_threads(1).max_blocking_threads(bp).enable_all().build().unwrap();
            let res: Vec<bool> = rt.block_on(async move {
                // the blocking pool is busy when the pulls need it
                let blocker = tokio::task::spawn_blocking(|| std::thread::sleep(Duration::from_millis(60)));
                let shared_c = if shared { AsyncClient::connect(addr).await.ok() } else { None };
                let futs = sc2.iter().enumerate().map(|(i, sc)| {
                    let (shared_c, dest, name) = (shared_c.clone(), d2[i].clone(), n2[i].clone());
                    async move {
                        let c = match shared_c {
                            Some(c) => c,
                            None => match AsyncClient::connect(addr).await {
                                Ok(c) => c,
                                Err(_) => return false,
                            },
                        };
                        pull_async_on(&c, sc, &name, &dest).await.is_ok()
                    }
                });
                let r = futures_util::future::join_all(futs).await;
                let _ = blocker.await;
                r
            });
            let _ = tx.send(res);
        });
        let res = rx.recv_timeout(Duration::from_secs(60)).ok();
        for n in &names {
            self.fake.unregister(n);
        }
        let Some(res) = res else {
            EXPIRIES.fetch_add(1, Ordering::Relaxed);
            out.oracle_fail("commit.par.call-never-returned", "concurrent async pulls did not all return within 60 s", &[op.clone()]);
            return;
        };
        let mut line = idx.to_string();
        for (i, sc) in scripts.iter().enumerate() {
            let o = Obs { panicked: false, ok: res[i], dest: dest_state(&dests[i], sc.dest), tmp: tmp_present(&dests[i]), seen: Seen::default() };
            oracles(out, sc, &o, &op);
            line.push_str(&format!(" | ret {} dest {} tmp {}", if o.ok { "ok" } else { "err" }, show_dest(&o.dest), o.tmp as u8));
        }
        let _ = std::fs::remove_dir_all(&dir);
        out.count(&format!("par.blocking-threads.{bp}"));
        out.case(&op, &line, true);
    }

    /// `cancel <i> <ms> SCRIPT :: saw`: an async pull whose peer stops answering (`h`) is dropped by its caller
    /// after <ms>; afterwards the destination must be one of the states a kill could leave.
    fn exec_cancel(&mut self, out: &mut Out, idx: &str, ms: u64, sc: &Script) {
        if should_stop(out) {
            return;
        }
        let (name, dir) = self.fresh();
        let dest = prepare(&dir, sc.dest);
        self.fake.register(&name, sc, 0);
        let addr = self.fake.addr;
        let (sc2, d2, n2) = (sc.clone(), dest.clone(), name.clone());
        let r = self.rt.block_on(async move {
            let Ok(c) = AsyncClient::connect(addr).await else { return None };
            tokio::time::timeout(Duration::from_millis(ms), pull_async_on(&c, &sc2, &n2, &d2)).await.ok().map(|r| r.is_ok())
        });
        // the abandoned blocking half winds down on its own: give it a moment, then look
        let t0 = Instant::now();
        while tmp_present(&dest) && t0.elapsed() < Duration::from_secs(3) {
            std::thread::sleep(Duration::from_millis(5));
        }
        self.fake.unregister(&name);
        let st = dest_state(&dest, sc.dest);
        let op = format!("cancel {} {} {} :: {}", idx, ms, sc.words(), show_dest(&st));
        let complete = sc.expected_content();
        let good = match (&st, &complete) {
            (DestState::Same, _) => true,
            (DestState::New(b), Some(c)) => b == c,
            _ => false,
        };
        if !good {
            out.oracle_fail(&format!("commit.cancel.{}.dest-neither-old-nor-complete", sc.puller.name()), &format!("pull dropped by its caller after {ms} ms: destination is {}", show_dest(&st)), &[op.clone()]);
        }
        out.count(&format!("cancel.{}", match r { None => "dropped-mid-pull", Some(true) => "finished-ok-first", Some(false) => "finished-err-first" }));
        if tmp_present(&dest) {
            out.count("cancel.temp-still-there-after-3s(not asserted)");
        }
        let _ = std::fs::remove_dir_all(&dir);
        out.case(&op, &format!("{idx} kill ok"), true);
    }
}

fn nontrivial(sc: &Script) -> bool {
    // at least one chunk was delivered, or the script fails for a reason other than a dead open
    sc.open == Open::Ok && sc.wire.iter().any(|r| matches!(r, Resp::Chunk(b, _) if !b.is_empty()))
}

fn count_case(out: &mut Out, sc: &Script, kind: &str) {
    out.count(&format!("{kind}.puller.{}{}", sc.puller.name(), if sc.ws { "@ws" } else { "" }));
    out.count(&format!("{kind}.comp.{}", if sc.zstd { "zstd" } else { "none" }));
    out.count(&format!("{kind}.dest.{:?}", sc.dest));
    let end = if sc.open != Open::Ok {
        "open-failed"
    } else if !sc.puller.tags_ok(sc.zstd, sc.beve) {
        "tags-incompatible"
    } else if sc.sync_fault && (Script { sync_fault: false, ..sc.clone() }).expected_content().is_some() {
        "fsync-refused"
    } else if sc.wfault.is_some() && sc.expected_content().is_none() && (Script { wfault: None, ..sc.clone() }).expected_content().is_some() {
        "write-refused"
    } else if sc.payload().is_none() {
        match sc.wire.iter().find(|r| !matches!(r, Resp::Chunk(_, false))) {
            Some(Resp::Error) => "producer-error",
            Some(Resp::Cut) => "cut",
            _ => "peer-vanished",
        }
    } else if sc.puller.decodes() && sc.zstd && !matches!(sc.dec, Dec::Ok(_)) {
        "undecodable"
    } else if sc.puller.verifies() && !sc.verify_ok {
        "verify-reject"
    } else if sc.puller.has_trailer() && sc.expected_content().is_none() && sc.dest != Dest::Dir {
        "short-trailer"
    } else if sc.dest == Dest::NoParent || sc.dest == Dest::Name250 {
        "create-refused"
    } else if sc.dest == Dest::Dir {
        "rename-refused"
    } else if sc.expected_content().is_none() {
        "write-refused"
    } else {
        "complete"
    };
    out.count(&format!("{kind}.end.{end}"));
}

// ------------------------------------------------------------------------------------------
// real `Server` with failing producers
// ------------------------------------------------------------------------------------------
struct FailingReader {
    data: Vec<u8>,
    pos: usize,
    fail_at: Option<usize>,
    /// die with a panic instead of returning an error
    panics: bool,
    slow: bool,
    calls: u64,
    kind: std::io::ErrorKind,
    interrupted_once: bool,
    /// how much a `read` hands out before the true end: 0 = up to 7 bytes, 1 = one byte, 2 = a random short
    /// count, 3 = everything up to the middle of the data, then the rest (`Read::chain` of two sources)
    dribble: u8,
}

/// A value whose `Serialize` impl panics when it reaches element `at` (a dying producer body).
#[derive(Clone)]
struct PanicSeq {
    data: Vec<u8>,
    at: Option<usize>,
}
impl Serialize for PanicSeq {
    fn serialize<S: serde::Serializer>(&self, ser: S) -> Result<S::Ok, S::Error> {
        use serde::ser::SerializeSeq;
        let mut seq = ser.serialize_seq(Some(self.data.len()))?;
        for (i, b) in self.data.iter().enumerate() {
            if self.at == Some(i) {
                panic!("serialize impl panics");
            }
            seq.serialize_element(&(*b as u16 + 300))?;
        }
        seq.end()
    }
}
fn panic_seq_bytes(data: &[u8]) -> Vec<u8> {
    let mut v = vec![];
    beve::to_writer_streaming(&mut v, &PanicSeq { data: data.to_vec(), at: None }).expect("encode");
    v
}
impl Read for FailingReader {
    fn read(&mut self, out: &mut [u8]) -> std::io::Result<usize> {
        let limit = self.fail_at.unwrap_or(self.data.len()).min(self.data.len());
        if self.pos >= limit {
            if self.fail_at.is_some() {
                if self.panics {
                    panic!("source panics");
                }
                if self.kind == std::io::ErrorKind::Interrupted {
                    // transient by contract: fail once, then carry on to the real end of the data
                    if !self.interrupted_once {
                        self.interrupted_once = true;
                        return Err(std::io::Error::new(self.kind, "interrupted"));
                    }
                    self.fail_at = None;
                    return self.read(out);
                }
                return Err(std::io::Error::new(self.kind, "source failed"));
            }
            return Ok(0);
        }
        if self.slow {
            std::thread::sleep(Duration::from_millis(2));
        }
        self.calls += 1;
        if self.calls % 3 == 0 {
            return Err(std::io::Error::new(std::io::ErrorKind::Interrupted, "try again"));
        }
        // short reads before the true end (pipes, sockets, chained sources do this): never an end of input
        let cap = match self.dribble {
            1 => 1,
            2 => 1 + (self.calls as usize * 2654435761 % 61),
            3 => if self.pos < self.data.len() / 2 { self.data.len() / 2 - self.pos } else { usize::MAX },
            _ => 7,
        };
        let n = out.len().min(limit - self.pos).min(cap.max(1));
        out[..n].copy_from_slice(&self.data[self.pos..self.pos + n]);
        self.pos += n;
        Ok(n)
    }
}

#[derive(Clone, Debug)]
struct Real {
    /// 0 = with_reader_stream, 1 = with_writer_stream, 2 = with_value_stream (a Serialize impl; `payload` is
    /// then the data and `fail` an element index)
    kind: u8,
    /// the producer body panics at `fail` instead of returning an error
    panics: bool,
    chunk: usize,
    fail: Option<usize>,
    depth: usize,
    payload: Vec<u8>,
    /// `StreamOpts::zstd_level`
    level: i32,
    /// the producer body pauses between its writes / reads
    slow: bool,
    /// the kind of the `io::Error` the body fails with (when it does not panic). `Interrupted` is transient:
    /// returned once, then the source goes on (std's `io::copy` retries it) — the stream completes.
    ekind: std::io::ErrorKind,
    /// read-size flavour of the reader source (see `FailingReader::dribble`)
    dribble: u8,
}

impl Real {
    fn kind_is_transient(&self) -> bool {
        self.ekind == std::io::ErrorKind::Interrupted
    }
}

fn start_real(r: &Real, zstd: bool) -> SocketAddr {
    let opts = StreamOpts { chunk_bytes: r.chunk, compression: if zstd { Compression::Zstd } else { Compression::None }, zstd_level: r.level, session_depth: r.depth };
    let (payload, fail, panics, slow, kind, dribble) = (r.payload.clone(), r.fail, r.panics, r.slow, r.ekind, r.dribble);
    let router = if r.kind == 3 {
        let v: Vec<f64> = payload.iter().map(|b| *b as f64 / 3.0).collect();
        Router::new().with_typed_value_stream(move |res: &str| (res == "blob").then(|| v.clone()), opts)
    } else if r.kind == 4 {
        let v: Vec<repe::Complex<f32>> = payload.iter().map(|b| repe::Complex { re: *b as f32, im: -(*b as f32) / 2.0 }).collect();
        Router::new().with_complex_value_stream(move |res: &str| (res == "blob").then(|| v.clone()), opts)
    } else if r.kind == 2 {
        Router::new().with_value_stream(move |res: &str| (res == "blob").then(|| PanicSeq { data: payload.clone(), at: fail }), opts)
    } else if r.kind == 1 {
        Router::new().with_writer_stream(
            BodyFormat::RawBinary,
            move |res: &str| {
                let (payload, fail) = (payload.clone(), fail);
                (res == "blob").then(|| {
                    move |w: &mut dyn Write| -> std::io::Result<()> {
                        let n = fail.unwrap_or(payload.len()).min(payload.len());
                        for piece in payload[..n].chunks(5) {
                            w.write_all(piece)?;
                            if slow {
                                std::thread::sleep(Duration::from_millis(2));
                                w.flush()?;
                            }
                        }
                        if fail.is_some() && panics {
                            panic!("writer body panics");
                        }
                        if fail.is_some() { Err(std::io::Error::new(kind, "writer aborted")) } else { Ok(()) }
                    }
                })
            },
            opts,
        )
    } else {
        Router::new().with_reader_stream(move |res: &str| (res == "blob").then(|| FailingReader { data: payload.clone(), pos: 0, fail_at: fail, panics, slow, calls: 0, kind, interrupted_once: false, dribble }), opts)
    };
    let server = Server::new(router);
    let l = server.listen("127.0.0.1:0").expect("bind");
    let addr = l.local_addr().unwrap();
    std::thread::spawn(move || {
        let _ = server.serve(l);
    });
    addr
}

/// What the client of a real server sees (C09's sequencing: full chunks, one-chunk lookahead, a
/// failure replaces the chunk that would have been delivered when it is noticed).
fn real_wire(r: &Real, zstd: bool) -> (Vec<Resp>, Dec) {
    if r.kind == 3 || r.kind == 4 {
        // bulk numeric producers cannot fail: the stream is the typed / complex array encoding
        let mut enc = vec![];
        if r.kind == 3 {
            let v: Vec<f64> = r.payload.iter().map(|b| *b as f64 / 3.0).collect();
            beve::to_writer_typed_slice(&mut enc, &v).expect("encode");
        } else {
            let v: Vec<repe::Complex<f32>> = r.payload.iter().map(|b| repe::Complex { re: *b as f32, im: -(*b as f32) / 2.0 }).collect();
            beve::to_writer_complex_slice(&mut enc, &v).expect("encode");
        }
        return real_wire(&Real { kind: 0, payload: enc, fail: None, ..r.clone() }, zstd);
    }
    if r.kind == 0 && !r.panics && r.kind_is_transient() && r.fail.is_some() {
        return real_wire(&Real { fail: None, ..r.clone() }, zstd);
    }
    if r.kind == 2 {
        // what is streamed is the BEVE encoding; where a panicking element falls inside it is the
        // encoder's business (a failing script whatever was delivered)
        let enc = panic_seq_bytes(&r.payload);
        let r2 = Real { kind: 0, payload: enc, fail: r.fail.map(|_| 0), ..r.clone() };
        return real_wire(&r2, zstd);
    }
    if zstd {
        // the compressed bytes are the encoder's business; the script states only whether the stream is whole
        return match r.fail {
            Some(_) => (vec![Resp::Error], Dec::Err),
            None => (vec![Resp::Chunk(vec![0], true)], Dec::Ok(r.payload.clone())),
        };
    }
    match r.fail {
        None => {
            let mut w: Vec<Resp> = r.payload.chunks(r.chunk).map(|c| Resp::Chunk(c.to_vec(), false)).collect();
            match w.last_mut() {
                Some(Resp::Chunk(_, l)) => *l = true,
                _ => w.push(Resp::Chunk(vec![], true)),
            }
            (w, Dec::Na)
        }
        Some(n) => {
            let n = n.min(r.payload.len());
            let full = n / r.chunk;
            let mut w: Vec<Resp> = r.payload[..full * r.chunk].chunks(r.chunk).map(|c| Resp::Chunk(c.to_vec(), false)).collect();
            w.pop();
            w.push(Resp::Error);
            (w, Dec::Na)
        }
    }
}

impl Ctx {
    fn exec_real(&mut self, out: &mut Out, idx: &str, r: &Real, sc: &Script) {
        if should_stop(out) {
            return;
        }
        let op = format!(
            "real {} {} {} {} {} {} {}",
            idx,
            format!("{}@l{}{}{}", ["reader", "writer", "value", "typed", "complex"][r.kind as usize], r.level, if r.slow { "@slow" } else { "" }, if r.dribble != 0 { format!("@d{}", r.dribble) } else { String::new() }),
            r.chunk,
            r.fail.map(|n| format!("{}{}{}", if r.panics { "p" } else { "" }, n, if r.panics || r.ekind == std::io::ErrorKind::Other { String::new() } else { format!("@{}", kind_name(r.ekind)) })).unwrap_or("-".into()),
            r.depth,
            hex(&r.payload),
            sc.words()
        );
        out.begin(&op);
        let addr = start_real(r, sc.zstd);
        let o = self.run_inproc(sc, addr, "blob");
        if self.last_hung {
            out.oracle_fail(&format!("commit.{}.call-never-returned", sc.puller.name()), "the producer ended (or failed), yet the pull did not return within its watchdog", &[op.clone()]);
        }
        oracles(out, sc, &o, &op);
        count_case(out, sc, "real");
        out.case(&op, &obs_line(idx, sc, &o), nontrivial(sc) || sc.zstd);
    }
}

// ------------------------------------------------------------------------------------------
// strace: traces and kill points
// ------------------------------------------------------------------------------------------
const TRACED: &str = "trace=openat,open,creat,write,pwrite64,writev,fsync,fdatasync,sync_file_range,close,rename,renameat,renameat2,unlink,unlinkat,truncate,ftruncate,link,linkat,symlink,symlinkat";

fn strace_available() -> bool {
    Command::new("strace").arg("-V").stdout(Stdio::null()).stderr(Stdio::null()).status().map(|s| s.success()).unwrap_or(false)
}

struct ChildRun {
    /// `Some(true/false)` = the child finished and printed its result; `None` = it was killed / died
    ret: Option<bool>,
    killed: bool,
    trace: String,
    timed_out: bool,
}

fn wait_deadline(child: &mut std::process::Child, d: Duration) -> Option<std::process::ExitStatus> {
    let t0 = Instant::now();
    loop {
        match child.try_wait() {
            Ok(Some(s)) => return Some(s),
            Ok(None) => {
                if t0.elapsed() > d {
                    let _ = child.kill();
                    let _ = child.wait();
                    return None;
                }
                std::thread::sleep(Duration::from_millis(2));
            }
            Err(_) => return None,
        }
    }
}

impl Ctx {
    fn run_child(&mut self, sc: &Script, resource: &str, dest: &Path, inject: Option<&str>, paths: bool) -> ChildRun {
        use std::os::unix::process::ExitStatusExt;
        let tfile = dest.with_file_name("strace.txt");
        let _ = std::fs::remove_file(&tfile);
        let tmp = tmp_of(dest);
        let mut c = Command::new("strace");
        c.arg("-f").arg("-qq").arg("-y").arg("-s").arg("0").arg("-o").arg(&tfile);
        if paths {
            c.arg("-e").arg(TRACED).arg("-P").arg(dest).arg("-P").arg(&tmp);
        } else {
            // process-wide kill points (not tied to the two paths): every write of a thread, process exit
            c.arg("-e").arg("trace=write,exit_group");
        }
        if let Some(i) = inject {
            c.arg("-e").arg(format!("inject={i}"));
        }
        c.arg(&self.exe).arg("child").arg(sc.puller.name()).arg(self.fake.addr.to_string()).arg(resource).arg(dest);
        c.arg(sc.trailer.to_string()).arg(if sc.verify_ok { "ok" } else { "rej" });
        c.stdin(Stdio::null()).stdout(Stdio::piped()).stderr(Stdio::null()).env("RUST_BACKTRACE", "0");
        let mut child = c.spawn().expect("spawn strace");
        let status = wait_deadline(&mut child, Duration::from_secs(60));
        let mut so = String::new();
        if let Some(mut o) = child.stdout.take() {
            let _ = o.read_to_string(&mut so);
        }
        let ret = if so.contains("ret ok") { Some(true) } else if so.contains("ret err") { Some(false) } else { None };
        let killed = match status {
            Some(s) => s.signal() == Some(9) || s.code() == Some(137),
            None => false,
        };
        ChildRun { ret, killed, trace: std::fs::read_to_string(&tfile).unwrap_or_default(), timed_out: status.is_none() }
    }
}

/// Normalise strace output to protocol tokens. Lines look like
/// `1234 openat(AT_FDCWD, "/p/out.bin.svspart", O_WRONLY|O_CREAT|O_TRUNC|O_CLOEXEC, 0666) = 3</p/out.bin.svspart>`
/// `1234 write(3</p/out.bin.svspart>, ""..., 5) = 5`, possibly split in `<unfinished ...>` / `<... resumed>`.
fn normalise(trace: &str, dest: &Path, tmp: &Path) -> Vec<String> {
    let d = dest.to_string_lossy().to_string();
    let t = tmp.to_string_lossy().to_string();
    // join unfinished / resumed pairs, keeping the position of the entry line
    let mut lines: Vec<String> = vec![];
    let mut pending: HashMap<String, usize> = HashMap::new();
    for l in trace.lines() {
        let Some((pid, rest)) = l.split_once(' ') else { continue };
        let rest = rest.trim_start();
        if rest.starts_with("+++") || rest.starts_with("---") {
            continue;
        }
        if let Some(i) = rest.find("<unfinished ...>") {
            pending.insert(pid.to_string(), lines.len());
            lines.push(rest[..i].to_string());
        } else if rest.starts_with("<... ") {
            if let (Some(i), Some(k)) = (pending.remove(pid), rest.find("resumed>")) {
                lines[i].push_str(&rest[k + 8..]);
            }
        } else {
            lines.push(rest.to_string());
        }
    }
    let has = |s: &str, p: &str| s.contains(&format!("\"{p}\"")) || s.contains(&format!("<{p}>"));
    let mut toks: Vec<String> = vec![];
    let mut pend_w: u64 = 0;
    let flush_w = |toks: &mut Vec<String>, pend_w: &mut u64| {
        if *pend_w > 0 {
            toks.push(format!("W{}", *pend_w));
            *pend_w = 0;
        }
    };
    for l in &lines {
        let Some(par) = l.find('(') else { continue };
        let name = &l[..par];
        let retv: Option<i64> = l.rsplit_once(" = ").and_then(|(_, r)| r.split(|c: char| c == ' ' || c == '<').next().and_then(|x| x.parse().ok()));
        let args = &l[par..l.rfind(" = ").unwrap_or(l.len())];
        let (on_t, on_d) = (has(args, &t), has(args, &d));
        if !on_t && !on_d {
            continue;
        }
        let tok: String = match name {
            "write" | "pwrite64" | "writev" if on_t && !on_d => {
                pend_w += retv.unwrap_or(0).max(0) as u64;
                continue;
            }
            "openat" | "open" | "creat" if on_t && !on_d => {
                if name == "creat" || (args.contains("O_CREAT") && args.contains("O_TRUNC")) { "C".into() } else { format!("?{name}") }
            }
            "openat" | "open" if on_d && !on_t => {
                // reading the destination is harmless; anything that can modify it is not
                if ["O_WRONLY", "O_RDWR", "O_CREAT", "O_TRUNC", "O_APPEND"].iter().any(|f| args.contains(f)) { "D".into() } else { continue }
            }
            "fsync" if on_t => "S".into(),
            "close" if on_t => "X".into(),
            "close" if on_d => continue,
            "rename" | "renameat" | "renameat2" => {
                // source must be the temp file and target the destination
                let ti = args.find(&format!("\"{t}\""));
                let di = args.find(&format!("\"{d}\""));
                match (ti, di) {
                    (Some(a), Some(b)) if a < b => if retv == Some(0) { "R".into() } else { "RF".into() },
                    _ if on_d => "D".into(),
                    _ => format!("?{name}"),
                }
            }
            "unlink" | "unlinkat" if on_t && !on_d => "U".into(),
            _ if on_d => "D".into(),
            _ => format!("?{name}"),
        };
        flush_w(&mut toks, &mut pend_w);
        toks.push(tok);
    }
    flush_w(&mut toks, &mut pend_w);
    toks
}

/// The commit protocol, checked directly on the real trace (independent twin of the model's `protoCheck`).
fn proto_violation(toks: &[String]) -> Option<(usize, &'static str)> {
    let (mut opened, mut dirty, mut renamed) = (false, true, false);
    for (i, t) in toks.iter().enumerate() {
        match t.as_str() {
            "D" => return Some((i, "dest-touched")),
            "C" => {
                if renamed { return Some((i, "reopen-after-rename")); }
                opened = true;
                dirty = false;
            }
            "S" => dirty = false,
            "X" | "U" | "RF" => {}
            "R" => {
                if !opened { return Some((i, "rename-without-temp")); }
                if dirty { return Some((i, "rename-before-sync")); }
                if renamed { return Some((i, "second-rename")); }
                renamed = true;
            }
            w if w.starts_with('W') => {
                if !opened || renamed { return Some((i, "write-outside-temp-lifetime")); }
                dirty = true;
            }
            _ => return Some((i, "unexpected-syscall")),
        }
    }
    None
}

impl Ctx {
    fn exec_trace(&mut self, out: &mut Out, idx: &str, sc: &Script) {
        if should_stop(out) {
            return;
        }
        if !self.strace_ok {
            out.count("trace.skipped-no-strace");
            return;
        }
        let (name, dir) = self.fresh();
        let dest = prepare(&dir, sc.dest);
        self.fake.register(&name, sc, 0);
        let r = self.run_child(sc, &name, &dest, None, true);
        self.fake.unregister(&name);
        if r.timed_out {
            EXPIRIES.fetch_add(1, Ordering::Relaxed);
            out.oracle_fail(&format!("commit.{}.call-never-returned", sc.puller.name()), "the traced pulling child did not finish within 60 s", &[format!("trace {} {}", idx, sc.words())]);
        }
        if r.timed_out || r.ret.is_none() {
            out.count("trace.child-did-not-finish");
            let _ = std::fs::remove_dir_all(&dir);
            return;
        }
        let toks = normalise(&r.trace, &dest, &tmp_of(&dest));
        let op = format!("trace {} {} :: {}", idx, sc.words(), toks.join(" "));
        let p = sc.puller.name();
        let acc = match proto_violation(&toks) {
            None => "accept".to_string(),
            Some((i, why)) => {
                if why != "unexpected-syscall" {
                    out.oracle_fail(&format!("commit.trace.{p}.{why}"), &format!("syscall trace on dest/temp: {} (position {})", toks.join(" "), i), &[op.clone()]);
                }
                format!("reject@{i}")
            }
        };
        // end state as in the in-process runs
        let o = Obs { panicked: false, ok: r.ret == Some(true), dest: dest_state(&dest, sc.dest), tmp: tmp_present(&dest), seen: Seen::default() };
        oracles(out, sc, &o, &op);
        let _ = std::fs::remove_dir_all(&dir);
        count_case(out, sc, "trace");
        out.case(&op, &format!("{idx} trace {acc} match"), true);
    }

    /// Kill the child on entry to the N-th `syscall` touching dest/temp, for N = 1, 2, … until it survives.
    fn exec_kills(&mut self, out: &mut Out, idx0: &mut u64, sc: &Script, limit: u64) {
        if should_stop(out) {
            return;
        }
        if !self.strace_ok {
            out.count("kill.skipped-no-strace");
            return;
        }
        let p = sc.puller.name();
        let complete = sc.expected_content();
        for sys in ["openat", "write", "fsync", "close", "rename", "unlink", "exit", "anywrite"] {
            let paths = sys != "exit" && sys != "anywrite";
            if sys == "anywrite" && !self.anywrite {
                continue;
            }
            let set = match sys {
                "exit" => "exit_group",
                "anywrite" => "write",
                "rename" => "rename,renameat,renameat2",
                "unlink" => "unlink,unlinkat",
                "write" => "write,pwrite64,writev",
                s => s,
            };
            for n in 1..=limit {
                let (name, dir) = self.fresh();
                let dest = prepare(&dir, sc.dest);
                self.fake.register(&name, sc, 0);
                let r = self.run_child(sc, &name, &dest, Some(&format!("{set}:signal=SIGKILL:when={n}")), paths);
                self.fake.unregister(&name);
                if r.timed_out {
                    out.count("kill.timeout");
                    let _ = std::fs::remove_dir_all(&dir);
                    break;
                }
                if !r.killed {
                    // fewer than n such calls: this syscall's kill points are exhausted
                    out.count(&format!("kill.survived.{sys}"));
                    let _ = std::fs::remove_dir_all(&dir);
                    break;
                }
                *idx0 += 1;
                let idx = format!("k{}", *idx0);
                let st = dest_state(&dest, sc.dest);
                let op = format!("kill {} {}:{} {} :: {}", idx, sys, n, sc.words(), show_dest(&st));
                let good = match (&st, &complete) {
                    (DestState::Same, _) => true,
                    (DestState::New(b), Some(c)) => b == c,
                    _ => false,
                };
                if !good {
                    out.oracle_fail(
                        &format!("commit.kill.{p}.dest-neither-old-nor-complete"),
                        &format!("killed on entry to {sys} #{n}: destination is {}, complete content would be {:?}", show_dest(&st), complete.as_ref().map(|c| digest(c))),
                        &[op.clone()],
                    );
                }
                out.count(&format!("kill.point.{sys}"));
                out.count(&format!("kill.dest.{}", if st == DestState::Same { "old" } else { "new" }));
                if tmp_of(&dest).exists() {
                    out.count("kill.temp-left(allowed)");
                }
                let _ = std::fs::remove_dir_all(&dir);
                out.case(&op, &format!("{idx} kill ok"), true);
            }
        }
    }
}

// ------------------------------------------------------------------------------------------
// value-decoding pulls
// ------------------------------------------------------------------------------------------
impl Ctx {
    /// Value-returning pulls. `mode`: sync | async (pull_value[_async]), stream (pull_stream::<T>(Value)),
    /// vec[async] (pull_to_vec[_async]), typed[async] / complex[async] (bulk slice pullers),
    /// consume[async] / consumeerr[async] / consumepanic[async] (pull_consume[_async] with a consumer that reads
    /// to the end and returns the bytes / then returns Err / panics on entry).
    fn exec_value(&mut self, out: &mut Out, idx: &str, mode: &str, sc: &Script, need: usize) {
        if should_stop(out) {
            return;
        }
        let asyn = mode.ends_with("async");
        let base = mode.trim_end_matches("async");
        let base = if base.is_empty() { "sync" } else { base };
        // logical bytes that reach the value decoder before the stream ends or breaks
        let mut delivered_wire = vec![];
        for r in &sc.wire {
            match r {
                Resp::Chunk(b, last) => {
                    delivered_wire.extend_from_slice(b);
                    if *last {
                        break;
                    }
                }
                _ => break,
            }
        }
        let delivered: Vec<u8> = if sc.zstd { zstd_partial(&delivered_wire) } else { delivered_wire };
        let op = format!(
            "value {} {} {} {} {} need {} {} wire {}",
            idx,
            mode,
            if sc.zstd { "zstd" } else { "none" },
            if sc.beve { "beve" } else { "raw" },
            match sc.open { Open::Ok => "ok", Open::Err => "err", Open::Cut => "cut" },
            need,
            if sc.zstd { hex(&delivered) } else { "-".to_string() },
            sc.wire.iter().map(resp_word).collect::<Vec<_>>().join(" ")
        );
        out.begin(&op);
        let (name, _) = self.fresh();
        self.fake.register(&name, sc, 0);
        let addr = self.fake.addr;
        let rt = self.rt.clone();
        let (name_c, base_s) = (name.clone(), base.to_string());
        // every mode ends in "the encoded bytes of what was returned"
        let enc_f64 = |v: &Vec<f64>| { let mut b = vec![]; let _ = beve::to_writer_typed_slice(&mut b, v); b };
        let enc_cpx = |v: &Vec<repe::Complex<f32>>| { let mut b = vec![]; let _ = beve::to_writer_complex_slice(&mut b, v); b };
        let read_all = |r: &mut dyn Read| -> Result<Vec<u8>, RepeError> { let mut b = vec![]; r.read_to_end(&mut b)?; Ok(b) };
        let call = move || -> Result<Vec<u8>, RepeError> {
            let (name, base) = (name_c, base_s.as_str());
            if asyn {
                let n = name.clone();
                rt.block_on(async move {
                    let c = AsyncClient::connect(addr).await.map_err(RepeError::Io)?;
                    match base {
                        "sync" => repe::pull_value_async::<Vec<u8>, _>(&c, &n).await.map(|v| beve::to_vec(&v).unwrap_or_default()),
                        "vec" => repe::pull_to_vec_async(&c, &n).await,
                        "typed" => repe::pull_typed_slice_async::<f64, _>(&c, &n).await.map(|v| enc_f64(&v)),
                        "complex" => repe::pull_complex_slice_async::<f32, _>(&c, &n).await.map(|v| enc_cpx(&v)),
                        "consume" => repe::pull_consume_async(&c, &n, |mut r| { let mut b = vec![]; r.read_to_end(&mut b)?; Ok(b) }).await,
                        "consumeerr" => repe::pull_consume_async(&c, &n, |mut r| { let mut b = vec![]; r.read_to_end(&mut b)?; Err::<Vec<u8>, _>(rej()) }).await,
                        _ => repe::pull_consume_async(&c, &n, |_r| -> Result<Vec<u8>, RepeError> { std::panic::panic_any(VerifyDied(1)) }).await,
                    }
                })
            } else {
                let c = Client::connect(addr).map_err(RepeError::Io)?;
                match base {
                    "sync" => repe::pull_value::<Vec<u8>>(&c, &name).map(|v| beve::to_vec(&v).unwrap_or_default()),
                    "stream" => repe::pull_stream::<Vec<u8>>(&c, &name, repe::value_stream::StreamOutput::Value).map(|v| beve::to_vec(&v.unwrap_or_default()).unwrap_or_default()),
                    "vec" => repe::pull_to_vec(&c, &name),
                    "typed" => repe::pull_typed_slice::<f64>(&c, &name).map(|v| enc_f64(&v)),
                    "complex" => repe::pull_complex_slice::<f32>(&c, &name).map(|v| enc_cpx(&v)),
                    "consume" => repe::pull_consume(&c, &name, |r| read_all(r)),
                    "consumeerr" => repe::pull_consume(&c, &name, |r| read_all(r).and_then(|_| Err::<Vec<u8>, _>(rej()))),
                    _ => repe::pull_consume(&c, &name, |_r| -> Result<Vec<u8>, RepeError> { panic!("consumer panics") }),
                }
            }
        };
        let r = guarded(bound_for(sc), move || catch(call));
        self.fake.unregister(&name);
        let Some(r) = r else {
            out.oracle_fail(&format!("commit.value.{mode}.call-never-returned"), "the peer answered every request (or closed), yet the value pull did not return within its watchdog", &[op.clone()]);
            return;
        };
        let to_end = matches!(base, "vec" | "consume" | "consumeerr" | "consumepanic"); // no format constraint, reads to EOF
        let whole = sc.open == Open::Ok && (sc.beve || to_end) && sc.payload().is_some();
        let m = mode;
        let obs = match &r {
            Err(_) => format!("{idx} ret panic"),
            Ok(Ok(enc)) => {
                let enough = if to_end { whole } else { delivered.len() >= need };
                if sc.open != Open::Ok || !enough {
                    out.oracle_fail(
                        &format!("commit.value.{m}.value-from-truncated-stream"),
                        &format!("a value ({} encoded bytes) was returned although only {} bytes arrived (needed {}, stream whole: {})", enc.len(), delivered.len(), need, whole),
                        &[op.clone()],
                    );
                } else if (to_end && *enc != delivered) || (!to_end && enc[..] != delivered[..need]) {
                    out.oracle_fail(&format!("commit.value.{m}.wrong-value"), "the returned value is not the one that was streamed", &[op.clone()]);
                }
                format!("{idx} ret ok {}", digest(enc))
            }
            Ok(Err(_)) => {
                if whole && (to_end || delivered.len() >= need) && base != "consumeerr" && base != "consumepanic" {
                    out.oracle_fail(&format!("commit.value.{m}.err-on-complete-stream"), "the whole stream arrived and decodes, but the pull returned Err", &[op.clone()]);
                }
                format!("{idx} ret err")
            }
        };
        out.count(&format!("value.{m}.{}", if whole { "whole" } else if delivered.len() >= need { "all-bytes-but-no-last" } else { "truncated" }));
        out.case(&op, &obs, true);
    }
}

/// Output of the zstd stream decoder on a (possibly truncated) input, as far as it gets.
fn zstd_partial(input: &[u8]) -> Vec<u8> {
    let mut outb = vec![];
    if let Ok(mut d) = zstd::stream::read::Decoder::new(input) {
        let mut buf = [0u8; 4096];
        loop {
            match d.read(&mut buf) {
                Ok(0) => break,
                Ok(n) => outb.extend_from_slice(&buf[..n]),
                Err(_) => break,
            }
        }
    }
    outb
}

// ------------------------------------------------------------------------------------------
// generation
// ------------------------------------------------------------------------------------------
/// zstd level used for the next scripted compressed streams (the bytes go on the op line, so a replay is exact)
static ZSTD_LEVEL: std::sync::atomic::AtomicI32 = std::sync::atomic::AtomicI32::new(3);
fn zstd_of(b: &[u8]) -> Vec<u8> {
    zstd::encode_all(b, ZSTD_LEVEL.load(Ordering::Relaxed)).expect("zstd")
}

/// Build the wire for producer chunks `cs`: `k = None` = complete (last on the final data chunk or on a
/// trailing empty chunk), `Some((k, fault))` = the k-th answer is the fault.
fn wire_of(cs: &[Vec<u8>], fault: Option<(usize, Resp)>, last_on_empty: bool) -> Vec<Resp> {
    let mut w: Vec<Resp> = cs.iter().map(|c| Resp::Chunk(c.clone(), false)).collect();
    match fault {
        Some((k, f)) => {
            w.truncate(k.min(cs.len()));
            w.push(f);
        }
        None => {
            if last_on_empty || w.is_empty() {
                w.push(Resp::Chunk(vec![], true));
            } else if let Some(Resp::Chunk(_, l)) = w.last_mut() {
                *l = true;
            }
        }
    }
    w
}

fn split_at_sizes(b: &[u8], sizes: &[usize]) -> Vec<Vec<u8>> {
    let mut out = vec![];
    let mut i = 0;
    let mut k = 0;
    while i < b.len() {
        let n = sizes[k % sizes.len()].max(1).min(b.len() - i);
        out.push(b[i..i + n].to_vec());
        i += n;
        k += 1;
    }
    out
}

/// A script for `puller` over logical content `logical`, chunk sizes `sizes`.
fn make_script(p: Puller, zstd: bool, logical: &[u8], sizes: &[usize], fault: Option<(usize, Resp)>, last_on_empty: bool) -> Script {
    let wire_bytes = if zstd { zstd_of(logical) } else { logical.to_vec() };
    let cs = split_at_sizes(&wire_bytes, sizes);
    let wire = wire_of(&cs, fault, last_on_empty);
    let mut sc = Script { puller: p, zstd, beve: true, open: Open::Ok, verify_ok: true, trailer: 0, dest: Dest::None, dec: Dec::Na, wire, wfault: None, sync_fault: false, ws: false, verify_panics: false, verify_kind: 0, dfault: None, via_ps: false, style: 0, wl: None };
    sc.dec = dec_for(&sc);
    sc
}

/// What the zstd crate makes of the bytes the peer delivers before the stream ends or breaks (the
/// opaque part, recorded for the model): an async consumer sees exactly those bytes and then a clean
/// EOF, whether or not `last` came.
fn dec_for(sc: &Script) -> Dec {
    if !sc.zstd {
        return Dec::Na;
    }
    let mut wb = vec![];
    for r in &sc.wire {
        match r {
            Resp::Chunk(b, last) => {
                wb.extend_from_slice(b);
                if *last {
                    break;
                }
            }
            _ => break,
        }
    }
    match zstd::decode_all(&wb[..]) {
        Ok(b) if !b.is_empty() => Dec::Ok(b),
        _ => Dec::Err, // (empty logical content is not generated for compressed scripts)
    }
}

static T0: std::sync::OnceLock<Instant> = std::sync::OnceLock::new();

/// calls into the code under test that never came back (abandoned on their threads)
static EXPIRIES: AtomicU64 = AtomicU64::new(0);

/// Run one call into the code under test on its own thread under a watchdog. `None` = it did not return
/// within `secs` (the thread is abandoned): where the peer answered everything the pull must end — with a
/// result or an error — so that is an oracle failure at the call site; after three the run stops.
fn guarded<T: Send + 'static>(secs: u64, f: impl FnOnce() -> T + Send + 'static) -> Option<T> {
    let (tx, rx) = std::sync::mpsc::channel();
    std::thread::spawn(move || {
        let _ = tx.send(f());
    });
    match rx.recv_timeout(Duration::from_secs(secs)) {
        Ok(v) => Some(v),
        Err(_) => {
            EXPIRIES.fetch_add(1, Ordering::Relaxed);
            None
        }
    }
}

/// watchdog for one scripted pull: generous, plus three times what the script itself stalls
fn bound_for(sc: &Script) -> u64 {
    25 + 3 * sc.wire.iter().map(|r| if let Resp::Stall(ms) = r { ms / 1000 + 1 } else { 0 }).sum::<u64>()
}

/// On a broken tree: enough failing inputs, or some and a minute gone — stop generating (the verdict needs a
/// replay, not a census). Never true on a tree that passes.
fn should_stop(out: &Out) -> bool {
    EXPIRIES.load(Ordering::Relaxed) >= 3 || out.oracle_failures >= 12 || (out.oracle_failures >= 1 && T0.get_or_init(Instant::now).elapsed() > Duration::from_secs(40))
}

fn gen_and_run(args: &Args, out: &mut Out, ctx: &mut Ctx) {
    let mut rng = Rng::new(args.seed);
    let thorough = args.thorough();
    let mut i: u64 = 0;
    let mut next = |pfx: &str| {
        i += 1;
        format!("{pfx}{i}")
    };

    T0.get_or_init(Instant::now);
    // (Z) a producer that stalls mid-stream and then goes on: the stream is complete, nothing may be lost or
    //     doubled. Thorough: stalls just over 10 s (no timer exists in the pull paths of the unchanged tree — fact
    //     `pullPathsHaveNoTimers` — so the only internal timeout a change can bring is one we cannot see: go over
    //     the round figure a maintainer would pick). Quick: 300 ms.
    {
        let stalls: &[(Puller, u64, usize)] = if args.thorough() { &[(Puller::FileAsync, 11_500, 1), (Puller::TrailerAsync, 10_300, 2), (Puller::File, 300, 1)] } else { &[(Puller::FileAsync, 300, 1), (Puller::Trailer, 200, 2)] };
        let mut r0 = Rng::new(args.seed ^ 0x5747);
        for (j, &(p, ms, at)) in stalls.iter().enumerate() {
            let logical: Vec<u8> = r0.bytes(60);
            let mut sc = make_script(p, false, &logical, &[20], None, false);
            sc.wire.insert(at, Resp::Stall(ms));
            sc.trailer = if p.has_trailer() { 5 } else { 0 };
            sc.dest = if j % 2 == 0 { Dest::Old } else { Dest::None };
            ctx.exec_script(out, &format!("z{j}"), &sc, 0);
        }
    }
    // (EK) every io::ErrorKind a caller's code can fail with — the reader's `read`, the writer body, the digest sink:
    //      an error is an error whatever its kind (only `Interrupted` from a `Read` is retried, by contract)
    {
        let mut r0 = Rng::new(args.seed ^ 0xE44);
        let chunk = 16usize;
        let payload: Vec<u8> = r0.bytes(70);
        let ps = [Puller::File, Puller::Trailer, Puller::FileAsync, Puller::VerifiedAsync, Puller::TrailerAsync];
        for (ki, &(kname, ekind)) in KINDS.iter().enumerate() {
            for prod in 0..2u8 {
                let p = ps[(ki + prod as usize) % ps.len()];
                let zstd = (ki + prod as usize) % 5 == 0;
                let fail = Some([17usize, 16, 33, 0, 69][(ki + prod as usize) % 5]);
                let r = Real { kind: prod, panics: false, chunk, fail, depth: ki % 5, payload: payload.clone(), level: 3, slow: false, ekind, dribble: (ki % 4) as u8 };
                let (wire, dec) = real_wire(&r, zstd);
                let sc = Script { puller: p, zstd, beve: false, open: Open::Ok, verify_ok: true, trailer: if p.has_trailer() { 8 } else { 0 }, dest: if ki % 2 == 0 { Dest::Old } else { Dest::None }, dec, wire, wfault: None, sync_fault: false, ws: false, verify_panics: false, verify_kind: 0, dfault: None, via_ps: false, style: 0, wl: None };
                out.count(&format!("real.errorkind.{kname}"));
                ctx.exec_real(out, &format!("k{ki}p{prod}"), &r, &sc);
            }
            if ekind != std::io::ErrorKind::Interrupted {
                // the digest sink refusing with this kind after 10 bytes
                let p = [Puller::Trailer, Puller::VerifiedAsync, Puller::TrailerAsync][ki % 3];
                let logical: Vec<u8> = r0.bytes(40);
                let mut sc = make_script(p, false, &logical, &[13], None, false);
                sc.trailer = if p.has_trailer() { 4 } else { 0 };
                sc.dfault = Some((10, false));
                sc.style = (ki as u64) << 25;
                sc.dest = if ki % 2 == 0 { Dest::None } else { Dest::Old };
                ctx.exec_script(out, &format!("k{ki}d"), &sc, 0);
            }
        }
    }
    if should_stop(out) {
        return;
    }
    if std::env::var("FAM_COMMIT_TIMING").is_ok() { eprintln!("[t] {:>6} ms  before A", T0.get_or_init(Instant::now).elapsed().as_millis()); }
    // (A) systematic: every puller x compression x destination x every fault position
    for &p in &PULLERS {
        for zstd in [false, true] {
            let n = 11 + rng.below(8) as usize;
            let logical: Vec<u8> = rng.bytes(n).iter().map(|b| b | 1).collect();
            let sizes = [3usize, 4, 1, 5];
            let nchunks = split_at_sizes(&if zstd { zstd_of(&logical) } else { logical.clone() }, &sizes).len();
            for dest in [Dest::None, Dest::Old] {
                // complete, both placements of `last`
                for loe in [false, true] {
                    let mut sc = make_script(p, zstd, &logical, &sizes, None, loe);
                    sc.dest = dest;
                    sc.trailer = if p.has_trailer() { 3 } else { 0 };
                    ctx.exec_script(out, &next("s"), &sc, 0);
                }
                // producer error / connection cut after every k (0 ..= all chunks; the last one = the peer
                // fails where `last` should have come)
                let ks: Vec<usize> = if thorough || nchunks <= 6 { (0..=nchunks).collect() } else { vec![0, 1, 2, nchunks / 2, nchunks - 1, nchunks] };
                for k in ks {
                    for f in [Resp::Error, Resp::Cut] {
                        let mut sc = make_script(p, zstd, &logical, &sizes, Some((k, f)), false);
                        sc.dest = dest;
                        sc.trailer = if p.has_trailer() { 3 } else { 0 };
                        ctx.exec_script(out, &next("s"), &sc, 0);
                    }
                }
                // the peer vanishing without an answer is the same as a cut; an open that fails
                for (o, fl) in [(Open::Err, 0u8), (Open::Err, 1), (Open::Err, 2), (Open::Cut, 0)] {
                    let mut sc = make_script(p, zstd, &logical, &sizes, None, false);
                    sc.dest = dest;
                    sc.open = o;
                    ctx.exec_script(out, &next("s"), &sc, fl);
                }
                if p.verifies() {
                    let mut sc = make_script(p, zstd, &logical, &sizes, None, false);
                    sc.dest = dest;
                    sc.verify_ok = false;
                    sc.trailer = if p.has_trailer() { 2 } else { 0 };
                    ctx.exec_script(out, &next("s"), &sc, 0);
                }
                if p.has_trailer() {
                    for t in [0, 1, n - 1, n, n + 1, n + 40] {
                        let mut sc = make_script(p, zstd, &logical, &sizes, None, t % 2 == 0);
                        sc.dest = dest;
                        sc.trailer = t;
                        ctx.exec_script(out, &next("s"), &sc, 0);
                    }
                }
            }
            // a stale temp file from an earlier killed pull must not leak into what is published
            for dest in [Dest::NoneStale, Dest::OldStale] {
                let mut sc = make_script(p, zstd, &logical, &sizes, None, false);
                sc.dest = dest;
                ctx.exec_script(out, &next("s"), &sc, 0);
                let mut sc = make_script(p, zstd, &logical, &sizes, Some((1, Resp::Cut)), false);
                sc.dest = dest;
                ctx.exec_script(out, &next("s"), &sc, 0);
                let mut sc = make_script(p, zstd, &logical, &sizes, None, false);
                sc.dest = dest;
                sc.open = Open::Err;
                ctx.exec_script(out, &next("s"), &sc, 0);
            }
            // rename refused (destination is a non-empty directory), incompatible tags, raw-format stream
            let mut sc = make_script(p, zstd, &logical, &sizes, None, false);
            sc.dest = Dest::Dir;
            ctx.exec_script(out, &next("s"), &sc, 0);
            let mut sc = make_script(p, zstd, &logical, &sizes, None, false);
            sc.beve = false;
            ctx.exec_script(out, &next("s"), &sc, 0);
            if zstd {
                // corrupt compressed stream (whole on the wire, undecodable)
                let mut sc = make_script(p, zstd, &logical, &sizes, None, false);
                if let Some(Resp::Chunk(b, _)) = sc.wire.get_mut(1) {
                    for x in b.iter_mut() {
                        *x ^= 0x5a;
                    }
                }
                sc.dec = dec_for(&sc);
                ctx.exec_script(out, &next("s"), &sc, 0);
            }
        }
    }

    if should_stop(out) {
        return;
    }
    if std::env::var("FAM_COMMIT_TIMING").is_ok() { eprintln!("[t] {:>6} ms  before A'", T0.get_or_init(Instant::now).elapsed().as_millis()); }
    // (A') the three async pullers over a WebSocketClient (same generic pull code, other transport)
    for &p in &[Puller::FileAsync, Puller::VerifiedAsync, Puller::TrailerAsync] {
        for zstd in [false, true] {
            let n = 20 + rng.below(30) as usize;
            let logical: Vec<u8> = rng.bytes(n).iter().map(|b| b | 1).collect();
            let sizes = [7usize, 9, 4];
            let nchunks = split_at_sizes(&if zstd { zstd_of(&logical) } else { logical.clone() }, &sizes).len();
            let mut cases: Vec<Script> = vec![make_script(p, zstd, &logical, &sizes, None, false), make_script(p, zstd, &logical, &sizes, None, true)];
            for k in 0..=nchunks {
                for f in [Resp::Error, Resp::Cut] {
                    cases.push(make_script(p, zstd, &logical, &sizes, Some((k, f)), false));
                }
            }
            let mut rejd = make_script(p, zstd, &logical, &sizes, None, false);
            rejd.verify_ok = false;
            cases.push(rejd);
            let mut oc = make_script(p, zstd, &logical, &sizes, None, false);
            oc.open = Open::Cut;
            cases.push(oc);
            for (j, mut sc) in cases.into_iter().enumerate() {
                sc.ws = true;
                sc.dest = if j % 2 == 0 { Dest::Old } else { Dest::None };
                sc.trailer = if p.has_trailer() { 5 } else { 0 };
                ctx.exec_script(out, &next("x"), &sc, 0);
            }
        }
    }

    // a `verify` that panics: the unwinding drops the guard — nothing published, temp file removed
    for &p in &[Puller::Trailer, Puller::VerifiedAsync, Puller::TrailerAsync] {
        for zstd in [false, true] {
            let logical: Vec<u8> = rng.bytes(50).iter().map(|b| b | 1).collect();
            for (dest, fault) in [(Dest::None, None), (Dest::Old, None), (Dest::Old, Some((1usize, Resp::Cut)))] {
                let mut sc = make_script(p, zstd, &logical, &[20, 20], fault, false);
                sc.dest = dest;
                sc.trailer = if p.has_trailer() { 4 } else { 0 };
                sc.verify_ok = false;
                sc.verify_panics = true;
                sc.verify_kind = 1 + rng.below(3) as u8;
                ctx.exec_script(out, &next("s"), &sc, 0);
            }
        }
    }

    if should_stop(out) {
        return;
    }
    if std::env::var("FAM_COMMIT_TIMING").is_ok() { eprintln!("[t] {:>6} ms  before A''", T0.get_or_init(Instant::now).elapsed().as_millis()); }
    // (A'') where the temp file lives: names, parents, and two pulls side by side in one directory
    for name in ["out", "out.bin", "out.tar.gz", ".hidden", "a b.dat", "x.svspart", "caf\u{e9}.bin", "out.bin.svspart.bak"] {
        ctx.exec_sibling(out, &next("n"), name);
    }
    for &p in &PULLERS {
        for zstd in [false, true] {
            let logical: Vec<u8> = rng.bytes(30).iter().map(|b| b | 1).collect();
            for (dest, fault) in [(Dest::NoParent, None), (Dest::SymParent, None), (Dest::SymParent, Some((1usize, Resp::Cut)))] {
                let mut sc = make_script(p, zstd, &logical, &[11, 13], fault, false);
                sc.dest = dest;
                sc.trailer = if p.has_trailer() { 4 } else { 0 };
                ctx.exec_script(out, &next("s"), &sc, 0);
            }
        }
    }
    for &pa in &[Puller::Trailer, Puller::VerifiedAsync, Puller::TrailerAsync] {
        for &pb in &[Puller::File, Puller::Trailer] {
            for (na, nb) in [("out.bin", "out.txt"), ("data", "data.bin"), ("a.svspart.x", "a")] {
                for bfault in [None, Some((1usize, Resp::Error))] {
                    let la: Vec<u8> = rng.bytes(40).iter().map(|b| b | 1).collect();
                    let lb: Vec<u8> = rng.bytes(33).iter().map(|b| b | 1).collect();
                    let mut a = make_script(pa, false, &la, &[9, 17], None, false);
                    a.trailer = if pa.has_trailer() { 6 } else { 0 };
                    a.dest = *rng.pick(&[Dest::None, Dest::Old]);
                    let mut b = make_script(pb, false, &lb, &[8, 8], bfault, false);
                    b.trailer = if pb.has_trailer() { 3 } else { 0 };
                    b.dest = *rng.pick(&[Dest::None, Dest::Old]);
                    ctx.exec_nest(out, &next("p"), na, nb, &a, &b);
                }
            }
        }
    }

    if should_stop(out) {
        return;
    }
    if std::env::var("FAM_COMMIT_TIMING").is_ok() { eprintln!("[t] {:>6} ms  before S", T0.get_or_init(Instant::now).elapsed().as_millis()); }
    // (S) sequences: 3-5 pulls through one client into one destination, mixing pullers of the same
    //     transport, complete and failing streams, rejected verification, a cut in the middle (dead client)
    let nseq = if thorough { 120 } else { 36 };
    for j in 0..nseq {
        let class = j % 3; // 0 blocking, 1 async TCP, 2 async WebSocket
        let ps: &[Puller] = if class == 0 { &[Puller::File, Puller::Trailer, Puller::Beve, Puller::BeveZst] } else { &[Puller::FileAsync, Puller::VerifiedAsync, Puller::TrailerAsync] };
        let len = 3 + rng.below(3) as usize;
        let cut_at = if rng.chance(1, 2) { Some(rng.below(len as u64) as usize) } else { None };
        let mut steps = vec![];
        for i in 0..len {
            let p = *rng.pick(ps);
            let zstd = p == Puller::Beve || p == Puller::BeveZst || rng.chance(1, 3);
            let ln = 1 + rng.below(60) as usize;
            let logical: Vec<u8> = rng.bytes(ln);
            let sizes = [1 + rng.below(20) as usize, 1 + rng.below(20) as usize];
            let nch = split_at_sizes(&if zstd { zstd_of(&logical) } else { logical.clone() }, &sizes).len();
            let fault = if cut_at == Some(i) {
                Some((rng.below(nch as u64 + 1) as usize, Resp::Cut))
            } else if rng.chance(1, 3) {
                Some((rng.below(nch as u64 + 1) as usize, Resp::Error))
            } else {
                None
            };
            let mut sc = make_script(p, zstd, &logical, &sizes, fault, rng.chance(1, 2));
            sc.ws = class == 2;
            sc.trailer = if p.has_trailer() { rng.below(ln as u64 + 2) as usize } else { 0 };
            sc.verify_ok = !rng.chance(1, 4);
            if rng.chance(1, 8) {
                sc.open = Open::Err;
            }
            if cut_at == Some(i) && rng.chance(1, 4) {
                sc.open = Open::Cut;
            }
            sc.style = rng.next() & 0x7fff;
            steps.push(sc);
        }
        let old = rng.chance(1, 2);
        for sc in steps.iter_mut() {
            sc.dest = if old { Dest::Old } else { Dest::None };
        }
        let same = rng.chance(1, 2);
        ctx.exec_seq(out, &next("q"), old, &steps, same);
    }

    if should_stop(out) {
        return;
    }
    if std::env::var("FAM_COMMIT_TIMING").is_ok() { eprintln!("[t] {:>6} ms  before B", T0.get_or_init(Instant::now).elapsed().as_millis()); }
    // (B) random scripts: sizes around io::copy's 8 KiB buffer, empty chunks, mixed write sizes for TrailerHold
    let nrand = if thorough { 1500 } else { 260 };
    for _ in 0..nrand {
        let p = *rng.pick(&PULLERS);
        let zstd = rng.chance(1, 3);
        ZSTD_LEVEL.store(*rng.pick(&[1, 3, 3, 7, 19, -3]), Ordering::Relaxed);
        let n = match rng.below(10) {
            0 => 1,
            1 => 8192,
            2 => 8193,
            3 => 8191 + rng.below(9000) as usize,
            4 => 16384 + rng.below(3) as usize,
            _ => 1 + rng.below(64) as usize,
        };
        let logical: Vec<u8> = if zstd && rng.chance(1, 2) { (0..n).map(|j| (j % 7) as u8 + 1).collect() } else { rng.bytes(n).iter().map(|b| b | 1).collect() };
        let sizes: Vec<usize> = (0..1 + rng.below(4)).map(|_| match rng.below(6) { 0 => 1, 1 => 2, 2 => 8192, 3 => 8193, 4 => 3000, _ => 1 + rng.below(40) as usize }).collect();
        // (one round trip per chunk: keep long streams to a few hundred chunks in the quick tier)
        let sizes: Vec<usize> = if n > 600 && !thorough { sizes.iter().map(|x| (*x).max(40)).collect() } else { sizes };
        let wb_len = if zstd { zstd_of(&logical).len() } else { n };
        let nch = split_at_sizes(&vec![0u8; wb_len], &sizes).len();
        let fault = match rng.below(5) {
            0 => Some((rng.below(nch as u64 + 1) as usize, Resp::Error)),
            1 => Some((rng.below(nch as u64 + 1) as usize, Resp::Cut)),
            _ => None,
        };
        let mut sc = make_script(p, zstd, &logical, &sizes, fault, rng.chance(1, 3));
        // sprinkle empty chunks
        if rng.chance(1, 3) {
            let at = rng.below(sc.wire.len() as u64) as usize;
            sc.wire.insert(at, Resp::Chunk(vec![], false));
        }
        // a stream that claims `last` early is simply a (shorter) complete stream; answers after it are never requested
        if rng.chance(1, 12) {
            sc.wire.push(Resp::Error);
        }
        sc.dec = dec_for(&sc);
        sc.dest = *rng.pick(&[Dest::None, Dest::Old, Dest::Old, Dest::None, Dest::Dir, Dest::OldStale, Dest::NoneStale]);
        sc.verify_ok = !rng.chance(1, 5);
        sc.beve = !rng.chance(1, 8);
        if p.has_trailer() {
            sc.trailer = match rng.below(6) { 0 => 0, 1 => n, 2 => n + 1, 3 => 1, _ => rng.below(n as u64 + 2) as usize };
        }
        if rng.chance(1, 25) {
            sc.open = *rng.pick(&[Open::Err, Open::Cut]);
        }
        if rng.chance(2, 3) {
            sc.style = rand_style(&mut rng);
        }
        sc.via_ps = !p.is_async() && !p.has_trailer() && rng.chance(1, 2);
        if p.verifies() && rng.chance(1, 6) {
            sc.verify_kind = 4; // slow verify
        }
        let fl = rng.below(3) as u8;
        ctx.exec_script(out, &next("s"), &sc, fl);
    }
    ZSTD_LEVEL.store(3, Ordering::Relaxed);

    if should_stop(out) {
        return;
    }
    if std::env::var("FAM_COMMIT_TIMING").is_ok() { eprintln!("[t] {:>6} ms  before B'", T0.get_or_init(Instant::now).elapsed().as_millis()); }
    // (B') boundary values of the caller's parameters and of the stream: empty streams, zero bytes in the
    //      content, trailer_len 0 / huge / usize::MAX, every verify flavour, a digest sink that refuses or dies
    for &p in &PULLERS {
        for zstd in [false, true] {
            if !p.tags_ok(zstd, true) {
                continue;
            }
            ZSTD_LEVEL.store(*rng.pick(&[1, 3, 9, 19, -5]), Ordering::Relaxed);
            // the empty stream: one empty `last` chunk, or an error / cut straight away
            if !zstd {
                for (fault, dest) in [(None, Dest::None), (None, Dest::Old), (Some((0usize, Resp::Error)), Dest::Old), (Some((0usize, Resp::Cut)), Dest::None)] {
                    let mut sc = make_script(p, false, &[], &[4], fault, true);
                    sc.dest = dest;
                    sc.style = rand_style(&mut rng);
                    ctx.exec_script(out, &next("b"), &sc, 0);
                }
            }
            // content with zero bytes and long runs
            let ln = 40 + rng.below(40) as usize;
            let mut logical: Vec<u8> = rng.bytes(ln);
            for j in 0..logical.len() {
                if j % 3 == 0 {
                    logical[j] = 0;
                }
            }
            let n = logical.len();
            let mk = |rng: &mut Rng, fault: Option<(usize, Resp)>| {
                let mut sc = make_script(p, zstd, &logical, &[17, 5, 23], fault, rng.chance(1, 2));
                sc.dest = *rng.pick(&[Dest::None, Dest::Old]);
                sc.style = rand_style(rng);
                sc.via_ps = !p.is_async() && !p.has_trailer() && rng.chance(1, 2);
                sc
            };
            let sc = mk(&mut rng, None);
            ctx.exec_script(out, &next("b"), &sc, 0);
            if p.has_trailer() {
                for t in [0usize, 1, n, 1 << 20, usize::MAX] {
                    for vok in [true, false] {
                        let mut sc = mk(&mut rng, None);
                        sc.trailer = t;
                        sc.verify_ok = vok;
                        ctx.exec_script(out, &next("b"), &sc, 0);
                    }
                }
            }
            if zstd {
                // a compressed stream made of several zstd frames back to back decodes to their concatenation
                let cut = n / 3;
                let mut wb = zstd_of(&logical[..cut]);
                ZSTD_LEVEL.store(*rng.pick(&[1, 19]), Ordering::Relaxed);
                wb.extend_from_slice(&zstd_of(&logical[cut..]));
                for loe in [false, true] {
                    let mut sc = make_script(p, false, &wb, &[13, 29], None, loe);
                    sc.zstd = true;
                    sc.dec = dec_for(&sc);
                    sc.dest = *rng.pick(&[Dest::None, Dest::Old]);
                    sc.trailer = if p.has_trailer() { 2 } else { 0 };
                    ctx.exec_script(out, &next("b"), &sc, 0);
                }
            }
            if p.has_trailer() {
                // trailers longer than any internal buffer (8 KiB, 64 KiB) inside a stream that is longer still
                let big = gen_bytes(5 + zstd as u8, 70_000 + rng.below(100) as usize);
                for t in [8192usize, 65535, 65536, 65537, 69_000] {
                    let mut sc = make_script(p, zstd, &big, &[30_000, 9_000], None, rng.chance(1, 2));
                    sc.dest = *rng.pick(&[Dest::None, Dest::Old]);
                    sc.trailer = t;
                    ctx.exec_script(out, &next("b"), &sc, 0);
                }
            }
            if p.verifies() {
                for kind in 1..=4u8 {
                    for fault in [None, Some((1usize, Resp::Error))] {
                        let mut sc = mk(&mut rng, fault);
                        sc.trailer = if p.has_trailer() { 3 } else { 0 };
                        sc.verify_kind = kind;
                        sc.verify_panics = kind <= 3;
                        sc.verify_ok = kind == 4;
                        ctx.exec_script(out, &next("b"), &sc, 0);
                    }
                }
                let tr = if p.has_trailer() { 3 } else { 0 };
                let w = n - tr;
                for lim in [0u64, 1, 16, 17, w as u64 - 1, w as u64, w as u64 + 1] {
                    for pan in [false, true] {
                        let mut sc = mk(&mut rng, None);
                        sc.trailer = tr;
                        sc.dfault = Some((lim, pan));
                        ctx.exec_script(out, &next("b"), &sc, 0);
                    }
                }
                // … combined with a stream that breaks before / after the sink does
                for k in [1usize, 2] {
                    let mut sc = mk(&mut rng, Some((k, Resp::Cut)));
                    sc.trailer = tr;
                    sc.dfault = Some((20, rng.chance(1, 2)));
                    ctx.exec_script(out, &next("b"), &sc, 0);
                }
            }
        }
    }
    ZSTD_LEVEL.store(3, Ordering::Relaxed);

    if should_stop(out) {
        return;
    }
    if std::env::var("FAM_COMMIT_TIMING").is_ok() { eprintln!("[t] {:>6} ms  before G2", T0.get_or_init(Instant::now).elapsed().as_millis()); }
    // (G2) counts in a row and internal sizes
    {
        let counts: &[usize] = if thorough { &[1, 2, 7, 8, 9, 16, 17, 64, 65, 256, 1000] } else { &[1, 2, 7, 8, 9, 16, 17, 64, 65, 256] };
        let gp = [Puller::File, Puller::Trailer, Puller::FileAsync, Puller::TrailerAsync, Puller::VerifiedAsync];
        for (ci, &cnt) in counts.iter().enumerate() {
            // N empty chunks in a row inside a stream (the blocking reader fetches again N times, the async loop
            // skips N times), then data + last / an error / a cut
            for (j, fault) in [None, Some(Resp::Error), Some(Resp::Cut)].into_iter().enumerate() {
                let p = gp[(ci + j) % gp.len()];
                let mut wire = vec![Resp::Chunk(vec![1, 2, 3], false)];
                wire.extend((0..cnt).map(|_| Resp::Chunk(vec![], false)));
                match fault {
                    None => wire.push(Resp::Chunk(vec![4, 5, 6, 7, 8, 9], true)),
                    Some(f) => wire.push(f),
                }
                let mut sc = make_script(p, false, &[0], &[1], None, false);
                sc.wire = wire;
                sc.trailer = if p.has_trailer() { 2 } else { 0 };
                sc.dest = if cnt % 2 == 0 { Dest::Old } else { Dest::None };
                sc.ws = p.is_async() && cnt % 3 == 0;
                ctx.exec_script(out, &next("g"), &sc, 0);
            }
            // N one-byte chunks (the async channel holds ASYNC_PULL_DEPTH = 4): slow digest so that it fills
            let p = [Puller::TrailerAsync, Puller::VerifiedAsync, Puller::FileAsync, Puller::Trailer][ci % 4];
            let logical: Vec<u8> = (0..cnt + 2).map(|j| j as u8).collect();
            let mut sc = make_script(p, false, &logical, &[1], if ci % 3 == 2 { Some((cnt, Resp::Error)) } else { None }, ci % 2 == 0);
            sc.trailer = if p.has_trailer() { 1 } else { 0 };
            sc.style = 3 << 21; // slow digest sink
            ctx.exec_script(out, &next("g"), &sc, 0);
        }
        // 3, 4, 5, 6 chunks around the async channel depth, stalled peer, slow and fast consumer
        for nch in [3usize, 4, 5, 6] {
            for slow in [0u64, 3] {
                let p = if nch % 2 == 0 { Puller::VerifiedAsync } else { Puller::TrailerAsync };
                let logical: Vec<u8> = rng.bytes(nch * 10);
                let mut sc = make_script(p, false, &logical, &[10], if slow == 3 { Some((nch, Resp::Cut)) } else { None }, false);
                sc.trailer = if p.has_trailer() { 4 } else { 0 };
                sc.style = (slow << 21) | (3 << 18);
                ctx.exec_script(out, &next("g"), &sc, 0);
            }
        }
        // N pulls in a row through one client into one destination: the N-th like the first
        for (class, len) in [(0usize, 9usize), (1, 17)].into_iter().chain(if thorough { vec![(0, 65), (2, 65)] } else { vec![] }) {
            let ps: &[Puller] = if class == 0 { &[Puller::File, Puller::Trailer] } else { &[Puller::FileAsync, Puller::TrailerAsync] };
            let mut steps = vec![];
            for i in 0..len {
                let p = ps[i % 2];
                let logical: Vec<u8> = rng.bytes(5 + i % 7);
                // runs of identical failures, then a success
                let fault = if i % 9 < 7 { Some((1usize, if i % 2 == 0 { Resp::Error } else { Resp::Error })) } else { None };
                let mut sc = make_script(p, false, &logical, &[3], fault, false);
                sc.ws = class == 2;
                sc.trailer = if p.has_trailer() { 1 } else { 0 };
                sc.dest = Dest::Old;
                steps.push(sc);
            }
            ctx.exec_seq(out, &next("q"), true, &steps, len % 2 == 1);
        }
        // frames around the clients' 8 KiB read buffers: header 48 + query 1 + body
        for body in [8142usize, 8143, 8144, 8191, 8192, 8193] {
            let p = *rng.pick(&[Puller::File, Puller::FileAsync, Puller::Trailer]);
            let logical = gen_bytes(7, body + 10);
            let mut sc = make_script(p, false, &logical, &[body, 10], None, false);
            sc.trailer = if p.has_trailer() { 5 } else { 0 };
            sc.style = ((1 + rng.below(4)) << 18) as u64;
            sc.dest = Dest::Old;
            ctx.exec_script(out, &next("g"), &sc, 0);
        }
        // compressed chunks around zstd's stream buffers (input 128 KiB + 3, output 128 KiB)
        if thorough || true {
            let big: Vec<u8> = { let mut r2 = Rng::new(args.seed ^ 77); r2.bytes(140_000) }; // incompressible: wire ≈ logical
            for (p, sz) in [(Puller::Beve, 131_075usize), (Puller::File, 131_072), (Puller::FileAsync, 131_076)] {
                let mut sc = make_script(p, true, &big, &[sz, 5000], None, false);
                sc.dest = Dest::Old;
                if thorough || p == Puller::Beve {
                    ctx.exec_script(out, &next("g"), &sc, 0);
                }
            }
        }
        // a WebSocket client with a small inbound limit: chunk responses just under / at / over it
        for lim in [512usize, 4096] {
            for (j, body) in [lim - 50, lim - 49, lim - 48, lim].into_iter().enumerate() {
                let p = [Puller::FileAsync, Puller::TrailerAsync, Puller::VerifiedAsync][j % 3];
                let logical = gen_bytes(9, body + 20).iter().map(|b| b ^ 0x55).collect::<Vec<u8>>();
                let mut sc = make_script(p, false, &logical, &[20, body], None, false);
                sc.ws = true;
                sc.wl = Some(lim);
                sc.trailer = if p.has_trailer() { 3 } else { 0 };
                sc.dest = if j % 2 == 0 { Dest::Old } else { Dest::None };
                ctx.exec_script(out, &next("g"), &sc, 0);
            }
        }
    }

    if should_stop(out) {
        return;
    }
    if std::env::var("FAM_COMMIT_TIMING").is_ok() { eprintln!("[t] {:>6} ms  before L", T0.get_or_init(Instant::now).elapsed().as_millis()); }
    // (L) a starved blocking pool: concurrent async pulls on a runtime with 1-2 blocking threads, one busy
    for (j, bp) in [1usize, 1, 2, 1, 2, 1].into_iter().enumerate() {
        if !thorough && j >= 4 {
            break;
        }
        let mut scripts = vec![];
        for i in 0..(2 + j % 3) {
            let p = [Puller::FileAsync, Puller::TrailerAsync, Puller::VerifiedAsync][(i + j) % 3];
            let zstd = (i + j) % 4 == 0;
            let logical: Vec<u8> = rng.bytes(30 + 20 * i);
            let sizes = [7usize];
            let nch = split_at_sizes(&if zstd { zstd_of(&logical) } else { logical.clone() }, &sizes).len();
            let fault = match (i + j) % 4 { 1 => Some((nch / 2, Resp::Error)), 2 => Some((nch, Resp::Cut)), _ => None };
            let mut sc = make_script(p, zstd, &logical, &sizes, fault, false);
            sc.trailer = if p.has_trailer() { 3 } else { 0 };
            sc.verify_ok = (i + j) % 5 != 0;
            sc.dest = if i % 2 == 0 { Dest::Old } else { Dest::None };
            sc.style = ((j as u64 % 4) << 21) | (((i + j) as u64 % 5) << 18);
            scripts.push(sc);
        }
        // with one client each a cut kills only its own pull; with a shared client use error responses only
        let shared = j % 2 == 1;
        if shared {
            for sc in scripts.iter_mut() {
                for r in sc.wire.iter_mut() {
                    if *r == Resp::Cut {
                        *r = Resp::Error;
                    }
                }
                sc.dec = dec_for(sc);
            }
        }
        ctx.exec_par(out, &next("l"), bp, shared, &scripts);
    }

    if should_stop(out) {
        return;
    }
    if std::env::var("FAM_COMMIT_TIMING").is_ok() { eprintln!("[t] {:>6} ms  before M", T0.get_or_init(Instant::now).elapsed().as_millis()); }
    // (M) a pull dropped by its caller while the peer hangs, at every phase: before open is answered is not
    //     scriptable (open has no hang), so: after 0, 1, … chunks
    for &p in &[Puller::FileAsync, Puller::VerifiedAsync, Puller::TrailerAsync] {
        let logical: Vec<u8> = rng.bytes(40);
        let nch = 4usize;
        for k in 0..=nch {
            if !thorough && k > 0 && k < nch && (k + p as usize) % 2 == 0 {
                continue;
            }
            let mut sc = make_script(p, false, &logical, &[10], Some((k, Resp::Hang)), false);
            sc.trailer = if p.has_trailer() { 3 } else { 0 };
            sc.dest = if k % 2 == 0 { Dest::Old } else { Dest::None };
            sc.style = ((k as u64 % 4) << 21) | ((k as u64 % 5) << 18);
            ctx.exec_cancel(out, &next("m"), 60 + 30 * (k as u64 % 2), &sc);
        }
        // … and one whose stream completes before the caller's patience ends (commit may win the race)
        let mut sc = make_script(p, false, &logical, &[10], None, false);
        sc.trailer = if p.has_trailer() { 3 } else { 0 };
        sc.dest = Dest::Old;
        ctx.exec_cancel(out, &next("m"), 2000, &sc);
    }

    if should_stop(out) {
        return;
    }
    if std::env::var("FAM_COMMIT_TIMING").is_ok() { eprintln!("[t] {:>6} ms  before K", T0.get_or_init(Instant::now).elapsed().as_millis()); }
    // (K) pairs of producer-side knobs at their extremes (orthogonal array L8 over 7 two-level factors)
    for &p in &[Puller::File, Puller::TrailerAsync, Puller::FileAsync] {
        for row in [0b0000000u8, 0b0001111, 0b0110011, 0b0111100, 0b1010101, 0b1011010, 0b1100110, 0b1101001] {
            let bit = |k: u8| (row >> k) & 1 == 1;
            let len = 40usize;
            let zstd = bit(3);
            let kind: u8 = if bit(6) { 1 } else { 0 };
            let fail = if bit(5) { Some(17usize) } else { None };
            let r = Real { kind, panics: fail.is_some() && bit(4), chunk: if bit(0) { 1 << 20 } else { 1 }, fail, depth: if bit(1) { 64 } else { 0 }, payload: rng.bytes(len), level: if bit(2) { 19 } else { -7 }, slow: bit(4), ekind: std::io::ErrorKind::Other, dribble: 0 };
            let (wire, dec) = real_wire(&r, zstd);
            let mut sc = Script { puller: p, zstd, beve: false, open: Open::Ok, verify_ok: true, trailer: if p.has_trailer() { if bit(5) { len } else { 0 } } else { 0 }, dest: if bit(1) { Dest::Old } else { Dest::None }, dec, wire, wfault: None, sync_fault: false, ws: false, verify_panics: false, verify_kind: 0, dfault: None, via_ps: false, style: 0, wl: None };
            sc.via_ps = p == Puller::File && bit(2);
            out.count("real.pairwise");
            ctx.exec_real(out, &next("r"), &r, &sc);
        }
    }

    if should_stop(out) {
        return;
    }
    if std::env::var("FAM_COMMIT_TIMING").is_ok() { eprintln!("[t] {:>6} ms  before C", T0.get_or_init(Instant::now).elapsed().as_millis()); }
    // (N3) third audit: error variants, positive siblings, longer stalls, many pulls on one client
    {
        let vp = [Puller::Trailer, Puller::VerifiedAsync, Puller::TrailerAsync];
        // every RepeError variant from a rejecting verify
        for v in 0..39u64 {
            let p = vp[v as usize / 13];
            let v = v % 13;
            let logical: Vec<u8> = rng.bytes(30);
            let mut sc = make_script(p, v % 4 == 0, &logical, &[11], None, false);
            sc.trailer = if p.has_trailer() { 3 } else { 0 };
            sc.verify_ok = false;
            sc.style = (v + 1) << 31;
            sc.dest = if v % 2 == 0 { Dest::Old } else { Dest::None };
            ctx.exec_script(out, &next("n"), &sc, 0);
        }
        // every error code a peer can answer `next` with (and some that are none)
        for e in 1..=32u64 {
            // each code once on a blocking and once on an async puller
            let p = if e <= 16 { [Puller::File, Puller::Trailer, Puller::Beve][e as usize % 3] } else { [Puller::FileAsync, Puller::TrailerAsync, Puller::VerifiedAsync][e as usize % 3] };
            let e = (e - 1) % 16 + 1;
            let zstd = !p.tags_ok(false, true);
            let logical: Vec<u8> = rng.bytes(30);
            let mut sc = make_script(p, zstd, &logical, &[9], Some((1 + (e as usize % 2), Resp::Error)), false);
            sc.trailer = if p.has_trailer() { 3 } else { 0 };
            sc.style = e << 35;
            sc.dest = if e % 2 == 0 { Dest::Old } else { Dest::None };
            ctx.exec_script(out, &next("n"), &sc, 0);
        }
        // the longest destination name whose temp sibling still fits NAME_MAX (works), and one past it (cannot
        // even be created: nothing is touched)
        for &p in &PULLERS {
            let zstd = !p.tags_ok(false, true);
            for (dest, fault) in [(Dest::Name247, None), (Dest::Name247, Some((1usize, Resp::Cut))), (Dest::Name250, None)] {
                let logical: Vec<u8> = rng.bytes(25);
                let mut sc = make_script(p, zstd, &logical, &[10], fault, false);
                sc.trailer = if p.has_trailer() { 2 } else { 0 };
                sc.dest = dest;
                ctx.exec_script(out, &next("n"), &sc, 0);
            }
        }
        // stalls longer than plausible internal timers: async pulls side by side (wall time = the longest), and
        // one blocking pull per length; mid-frame stalls (the frame stops inside header / query / body)
        let stall_set: &[u64] = if thorough { &[300, 600, 1100, 2500, 5500] } else { &[300, 600, 1100] };
        let mut par_scripts = vec![];
        for (j, &ms) in stall_set.iter().enumerate() {
            let p = [Puller::FileAsync, Puller::TrailerAsync, Puller::VerifiedAsync][j % 3];
            let logical: Vec<u8> = rng.bytes(50);
            let mut sc = make_script(p, false, &logical, &[17], if j % 3 == 2 { Some((2, Resp::Error)) } else { None }, false);
            sc.wire.insert(1 + j % 2, Resp::Stall(ms));
            sc.trailer = if p.has_trailer() { 4 } else { 0 };
            sc.dest = if j % 2 == 0 { Dest::Old } else { Dest::None };
            par_scripts.push(sc);
        }
        ctx.exec_par(out, &next("l"), 4, false, &par_scripts);
        for (j, &ms) in stall_set.iter().enumerate().filter(|(_, ms)| **ms >= 600 && **ms <= 2500) {
            let p = [Puller::File, Puller::Trailer][j % 2];
            let logical: Vec<u8> = rng.bytes(40);
            let mut sc = make_script(p, false, &logical, &[15], None, j % 2 == 0);
            sc.wire.insert(1, Resp::Stall(ms));
            sc.trailer = if p.has_trailer() { 4 } else { 0 };
            sc.dest = Dest::Old;
            ctx.exec_script(out, &next("n"), &sc, 0);
        }
        for (j, mode) in [6u64, 7, 6].into_iter().enumerate() {
            let p = [Puller::File, Puller::FileAsync, Puller::TrailerAsync][j];
            let logical: Vec<u8> = rng.bytes(60);
            let mut sc = make_script(p, false, &logical, &[30], None, false);
            sc.trailer = if p.has_trailer() { 4 } else { 0 };
            sc.style = mode << 18;
            sc.dest = Dest::Old;
            ctx.exec_script(out, &next("n"), &sc, 0);
        }
        // 13 pulls in flight through one client: all complete; then one of them runs into a cut
        for cut in [false, true, true] {
            let mut scripts = vec![];
            for i in 0..13usize {
                let p = [Puller::FileAsync, Puller::TrailerAsync, Puller::VerifiedAsync][i % 3];
                let ln = 20 + 7 * ((i * 5) % 13);
                let logical: Vec<u8> = rng.bytes(ln);
                let fault = if cut && i == 7 { Some((1usize, Resp::Cut)) } else if i % 5 == 4 { Some((1usize, Resp::Error)) } else { None };
                let mut sc = make_script(p, false, &logical, &[9], fault, false);
                sc.trailer = if p.has_trailer() { 3 } else { 0 };
                sc.verify_ok = i % 6 != 5;
                sc.dest = if i % 2 == 0 { Dest::Old } else { Dest::None };
                if cut && i != 7 && i % 2 == 0 {
                    sc.wire.insert(1, Resp::Stall(20));
                }
                scripts.push(sc);
            }
            if cut {
                ctx.exec_storm(out, &next("o"), &scripts);
            } else {
                ctx.exec_par(out, &next("l"), 4, true, &scripts);
            }
        }
        // this property's clauses on other properties' paths: the crate's WebSocketServer with its off-reader cap
        // saturated (cap 1, five pulls at once on one connection), a one-slot outbound queue, tiny chunks
        for (cap, outcap, chunk, n) in [(1usize, 1usize, 4usize, 5usize), (2, 64, 16, 6), (64, 1, 1, 4)] {
            let mut scripts = vec![];
            for i in 0..n {
                let p = [Puller::FileAsync, Puller::TrailerAsync, Puller::VerifiedAsync][i % 3];
                let logical: Vec<u8> = rng.bytes(30 + 11 * i);
                let mut sc = make_script(p, false, &logical, &[chunk], None, false);
                sc.ws = true;
                sc.trailer = if p.has_trailer() { 3 } else { 0 };
                sc.verify_ok = i % 4 != 3;
                sc.dest = if i % 2 == 0 { Dest::Old } else { Dest::None };
                scripts.push(sc);
            }
            ctx.exec_storm_on(out, &next("u"), &scripts, Some((cap, outcap, chunk)));
        }
        // the bulk numeric producers (typed / complex arrays) behind the file pullers
        for kind in [3u8, 4] {
            for zstd in [false, true] {
                let p = if zstd { Puller::Beve } else { *rng.pick(&[Puller::File, Puller::FileAsync]) };
                let r = Real { kind, panics: false, chunk: 16, fail: None, depth: 2, payload: rng.bytes(21), level: 3, slow: false, ekind: std::io::ErrorKind::Other, dribble: 0 };
                let (wire, dec) = real_wire(&r, zstd);
                let sc = Script { puller: p, zstd, beve: true, open: Open::Ok, verify_ok: true, trailer: 0, dest: Dest::Old, dec, wire, wfault: None, sync_fault: false, ws: false, verify_panics: false, verify_kind: 0, dfault: None, via_ps: false, style: 0, wl: None };
                ctx.exec_real(out, &next("r"), &r, &sc);
            }
        }
    }

    // (W) streams of ONE server interleaved in scripted orders (gated reader sources): each pull gets its own
    //     resource, whatever opened, parked or finished around it; and reader sources that dribble
    {
        let pullers = ["file", "fileasync", "consume", "trailer"];
        let mut j = 0usize;
        for sched in 0..GATE_SCHEDULES.len() {
            for zstd in [false, true] {
                if zstd && !thorough && sched % 2 == 1 {
                    continue;
                }
                let puller = pullers[j % 4];
                j += 1;
                let data = [rng.bytes(37 + j), rng.bytes(64 + 2 * j), rng.bytes(51 + j)];
                ctx.exec_gate(out, &next("w"), sched, zstd, puller, 8, &data);
            }
        }
        for dribble in 0..4u8 {
            for (k, len) in [69usize, 9000, 20_000].into_iter().enumerate() {
                let p = [Puller::File, Puller::FileAsync, Puller::Trailer, Puller::TrailerAsync, Puller::VerifiedAsync][(dribble as usize + k) % 5];
                let zstd = (dribble as usize + k) % 3 == 0;
                let r = Real { kind: 0, panics: false, chunk: [16usize, 4096, 8192][k], fail: None, depth: k, payload: rng.bytes(len), level: 3, slow: false, ekind: std::io::ErrorKind::Other, dribble };
                let (wire, dec) = real_wire(&r, zstd);
                let sc = Script { puller: p, zstd, beve: false, open: Open::Ok, verify_ok: true, trailer: if p.has_trailer() { 8 } else { 0 }, dest: if k % 2 == 0 { Dest::Old } else { Dest::None }, dec, wire, wfault: None, sync_fault: false, ws: false, verify_panics: false, verify_kind: 0, dfault: None, via_ps: false, style: 0, wl: None };
                out.count(&format!("real.reader.dribble.{dribble}"));
                ctx.exec_real(out, &next("r"), &r, &sc);
            }
        }
    }

    // (C) the crate's own Server with failing reader / writer producers: failure after every chunk
    //     boundary +-1 byte
    let chunk = 16usize;
    let payload: Vec<u8> = (0..chunk * 4 + 5).map(|j| (j as u8) | 1).collect();
    let real_pullers: Vec<Puller> = PULLERS.iter().copied().filter(|p| *p != Puller::BeveZst && *p != Puller::Beve).collect();
    for &p in &real_pullers {
        let mut fails: Vec<Option<usize>> = vec![None];
        for k in 0..=4usize {
            for dlt in [-1i64, 0, 1] {
                let n = (k * chunk) as i64 + dlt;
                if n >= 0 && (n as usize) < payload.len() {
                    fails.push(Some(n as usize));
                }
            }
        }
        if !thorough {
            // quick: every boundary for the sync file puller, a sample for the others
            if p != Puller::File {
                fails = vec![None, Some(0), Some(chunk - 1), Some(chunk), Some(2 * chunk + 1), Some(4 * chunk)];
            }
        }
        for f in fails {
            for zstd in [false, true] {
                if zstd && !thorough && f.is_some() && p != Puller::File && p != Puller::FileAsync {
                    continue;
                }
                // the producer body returns Err — or dies with a panic (reader's read, writer body, a Serialize impl)
                let modes: Vec<(u8, bool)> = if f.is_some() {
                    let mut m = vec![(rng.below(2) as u8, false), (rng.below(2) as u8, true)];
                    if !zstd && (thorough || p == Puller::File || p == Puller::FileAsync) {
                        m.push((2, true));
                    }
                    m
                } else {
                    vec![(rng.below(3) as u8, false)]
                };
                for (kind, panics) in modes {
                let fk = if kind == 2 { f.map(|n| n / 2) } else { f };
                let r = Real { kind, panics, chunk, fail: fk, depth: rng.below(5) as usize, payload: if kind == 2 { payload[..payload.len() / 2].to_vec() } else { payload.clone() }, level: 3, slow: false, ekind: std::io::ErrorKind::Other, dribble: 0 };
                let (wire, dec) = real_wire(&r, zstd);
                let mut sc = Script { puller: p, zstd, beve: kind == 2, open: Open::Ok, verify_ok: true, trailer: if p.has_trailer() { 8 } else { 0 }, dest: *rng.pick(&[Dest::None, Dest::Old]), dec, wire, wfault: None, sync_fault: false, ws: false, verify_panics: false, verify_kind: 0, dfault: None, via_ps: false, style: 0, wl: None };
                if p.verifies() && f.is_none() && rng.chance(1, 3) {
                    sc.verify_ok = false;
                }
                out.count(&format!("real.producer.{}.{}", ["reader", "writer", "value"][kind as usize], if fk.is_none() { "completes" } else if panics { "panics" } else { "returns-err" }));
                ctx.exec_real(out, &next("r"), &r, &sc);
                }
            }
        }
    }

    if should_stop(out) {
        return;
    }
    if std::env::var("FAM_COMMIT_TIMING").is_ok() { eprintln!("[t] {:>6} ms  before C'", T0.get_or_init(Instant::now).elapsed().as_millis()); }
    // (C') the producer-side knobs (`StreamOpts`): chunk sizes 1 … 1 MiB, zstd levels, channel depths 0 … 64,
    //      payload lengths 0, 1 and around a chunk, slow producers; also the `.beve` puller on a compressed
    //      value stream
    let mut real_all = real_pullers.clone();
    real_all.push(Puller::Beve);
    for &(chunk, len) in &[(1usize, 0usize), (1, 1), (1, 9), (2, 5), (7, 6), (7, 7), (7, 8), (7, 30), (4096, 4095), (4096, 4097), (4096, 10000), (1 << 20, 0), (1 << 20, 300)] {
        for &p in &real_all {
            if !thorough && rng.chance(1, 2) {
                continue;
            }
            let kind: u8 = if p == Puller::Beve { 2 } else { rng.below(3) as u8 };
            // (an empty compressed content cannot be written on the op line)
            let zstd = p == Puller::Beve || (rng.chance(1, 3) && (len > 0 || kind == 2));
            let data: Vec<u8> = rng.bytes(if kind == 2 { len.min(300) } else { len });
            let fail = if len > 0 && rng.chance(1, 2) { Some(*rng.pick(&[0usize, 1, chunk.min(len) - 1, chunk.min(len), len - 1]).min(&data.len().saturating_sub(1))) } else { None };
            let r = Real { kind, panics: fail.is_some() && rng.chance(1, 2), chunk, fail, depth: *rng.pick(&[0usize, 1, 2, 64]), payload: data, level: *rng.pick(&[1, 3, 19, -7]), slow: len <= 30 && rng.chance(1, 3), ekind: KINDS[rng.below(KINDS.len() as u64 - 1) as usize].1, dribble: rng.below(4) as u8 };
            let (wire, dec) = real_wire(&r, zstd);
            let stream_len = if kind == 2 { panic_seq_bytes(&r.payload).len() } else { r.payload.len() };
            let mut sc = Script { puller: p, zstd, beve: kind == 2, open: Open::Ok, verify_ok: !rng.chance(1, 5), trailer: if p.has_trailer() { *rng.pick(&[0usize, 1, stream_len, stream_len + 1]) } else { 0 }, dest: *rng.pick(&[Dest::None, Dest::Old]), dec, wire, wfault: None, sync_fault: false, ws: false, verify_panics: false, verify_kind: 0, dfault: None, via_ps: false, style: 0, wl: None };
            sc.via_ps = !p.is_async() && !p.has_trailer() && rng.chance(1, 2);
            out.count(&format!("real.chunk.{chunk}"));
            ctx.exec_real(out, &next("r"), &r, &sc);
        }
    }

    if should_stop(out) {
        return;
    }
    if std::env::var("FAM_COMMIT_TIMING").is_ok() { eprintln!("[t] {:>6} ms  before D", T0.get_or_init(Instant::now).elapsed().as_millis()); }
    // (D) value-returning pulls (every public entry point): the value spans the whole stream, truncated at every k
    for mode in ["sync", "async", "stream", "vec", "vecasync", "typed", "typedasync", "complex", "complexasync", "consume", "consumeasync", "consumeerr", "consumeerrasync", "consumepanic", "consumepanicasync"] {
        let base = mode.trim_end_matches("async");
        for zstd in [false, true] {
            ZSTD_LEVEL.store(*rng.pick(&[1, 3, 19]), Ordering::Relaxed);
            let vn = 23 + rng.below(10) as usize;
            let enc: Vec<u8> = match base {
                "typed" => { let v: Vec<f64> = (0..vn / 4).map(|_| (rng.next() % 1000) as f64 / 7.0).collect(); let mut b = vec![]; beve::to_writer_typed_slice(&mut b, &v).unwrap(); b }
                "complex" => { let v: Vec<repe::Complex<f32>> = (0..vn / 4).map(|_| repe::Complex { re: (rng.next() % 100) as f32, im: (rng.next() % 100) as f32 / 3.0 }).collect(); let mut b = vec![]; beve::to_writer_complex_slice(&mut b, &v).unwrap(); b }
                "vec" | "consume" | "consumeerr" | "consumepanic" => rng.bytes(vn),
                _ => beve::to_vec(&rng.bytes(vn)).unwrap(),
            };
            let sizes = [5usize, 7, 4];
            let nch = split_at_sizes(&if zstd { zstd_of(&enc) } else { enc.clone() }, &sizes).len();
            let mut scripts = vec![make_script(Puller::File, zstd, &enc, &sizes, None, false), make_script(Puller::File, zstd, &enc, &sizes, None, true)];
            let full = thorough || matches!(mode, "sync" | "async" | "vec" | "vecasync");
            for k in 0..=nch {
                if !full && k != 0 && k != 1 && k != nch - 1 && k != nch {
                    continue;
                }
                for f in [Resp::Error, Resp::Cut] {
                    scripts.push(make_script(Puller::File, zstd, &enc, &sizes, Some((k, f)), false));
                }
            }
            let mut raw = make_script(Puller::File, zstd, &enc, &sizes, None, false);
            raw.beve = false;
            scripts.push(raw);
            let mut oe = make_script(Puller::File, zstd, &enc, &sizes, None, false);
            oe.open = Open::Err;
            scripts.push(oe);
            if !zstd {
                // the empty stream
                scripts.push(make_script(Puller::File, false, &[], &[4], None, true));
            }
            for mut sc in scripts {
                sc.style = rng.next() & 0x7fff;
                ctx.exec_value(out, &next("v"), mode, &sc, enc.len());
            }
        }
    }
    ZSTD_LEVEL.store(3, Ordering::Relaxed);

    if should_stop(out) {
        return;
    }
    if std::env::var("FAM_COMMIT_TIMING").is_ok() { eprintln!("[t] {:>6} ms  before G", T0.get_or_init(Instant::now).elapsed().as_millis()); }
    // (G) write-side faults: the file system refuses a write (EFBIG under RLIMIT_FSIZE in the pulling child;
    //     stands for ENOSPC / EDQUOT / EIO too). The limit sweeps the first byte, every chunk boundary +-1,
    //     the end of the content +-1 and the buffer sizes 8 KiB / 64 KiB / 1 MiB +-1.
    {
        let mut run_limits = |ctx: &mut Ctx, out: &mut Out, base: &Script, limits: &[u64], dests: &[Dest]| {
            let mut ls: Vec<u64> = limits.to_vec();
            ls.sort();
            ls.dedup();
            for (j, l) in ls.iter().enumerate() {
                let mut sc = base.clone();
                sc.wfault = Some(*l);
                sc.dest = dests[j % dests.len()];
                ctx.exec_script(out, &next("w"), &sc, 0);
            }
        };
        let around = |xs: &[usize]| -> Vec<u64> { xs.iter().flat_map(|x| [x.saturating_sub(1) as u64, *x as u64, *x as u64 + 1]).collect() };
        // written size of the complete pull = where the limit stops biting
        let wlen = |sc: &Script| sc.expected_content().map(|c| c.len()).unwrap_or(0);
        for &p in &PULLERS {
            for zstd in [false, true] {
                if !p.tags_ok(zstd, true) {
                    continue;
                }
                // small: 3 chunks, hex on the line
                let n = 1700 + rng.below(200) as usize;
                let logical: Vec<u8> = rng.bytes(n).iter().map(|b| b | 1).collect();
                let mut base = make_script(p, zstd, &logical, &[600, 900, 300], None, rng.chance(1, 2));
                base.trailer = if p.has_trailer() { 40 } else { 0 };
                let w = wlen(&base);
                let mut lim = around(&[600, 1500, w]);
                lim.extend([0, 1]);
                run_limits(ctx, out, &base, &lim, &[Dest::None, Dest::Old]);
                if thorough {
                    run_limits(ctx, out, &base, &lim, &[Dest::Old, Dest::None]);
                }
                // medium: 70 000 bytes in chunks of 30 000 — io::copy's 8 KiB, a 64 KiB buffer
                if p != Puller::BeveZst {
                    let logical = gen_bytes(3 + zstd as u8, 70_000);
                    let mut base = make_script(p, zstd, &logical, &[30_000, 30_000, 10_000], None, false);
                    base.trailer = if p.has_trailer() { 1000 } else { 0 };
                    let w = wlen(&base);
                    let mut lim = around(&[8192, 65536, w]);
                    if thorough {
                        lim.extend(around(&[30_000, 60_000, 16384]));
                    }
                    run_limits(ctx, out, &base, &lim, &[Dest::Old, Dest::None]);
                } else {
                    // the raw .beve.zst copy writes the compressed bytes: incompressible content
                    let logical: Vec<u8> = rng.bytes(9500);
                    let base = make_script(p, zstd, &logical, &[5000, 3000, 4000], None, false);
                    let w = wlen(&base);
                    run_limits(ctx, out, &base, &around(&[8192, w]), &[Dest::Old, Dest::None]);
                }
                // large: just over 1 MiB (a 1 MiB write-behind buffer fills once, the tail stays buffered)
                let large = thorough || (p == Puller::File) || (!zstd && matches!(p, Puller::FileAsync | Puller::Trailer));
                if large && p != Puller::BeveZst {
                    let logical = gen_bytes(9, (1 << 20) + 5000);
                    let mut base = make_script(p, zstd, &logical, &[400_000], None, false);
                    base.trailer = if p.has_trailer() { 16 } else { 0 };
                    let w = wlen(&base);
                    let mut lim = around(&[1 << 20]);
                    lim.extend([w as u64 - 1, w as u64]);
                    run_limits(ctx, out, &base, &lim, &[Dest::None, Dest::Old]);
                }
            }
        }
        // fsync reports an error after every write went through: nothing may be renamed
        for &p in &PULLERS {
            for zstd in [false, true] {
                if !p.tags_ok(zstd, true) {
                    continue;
                }
                let n = 9000 + rng.below(500) as usize;
                let logical: Vec<u8> = rng.bytes(n).iter().map(|b| b | 1).collect();
                for dest in [Dest::None, Dest::Old] {
                    let mut sc = make_script(p, zstd, &logical, &[4000, 8300], None, dest == Dest::Old);
                    sc.dest = dest;
                    sc.trailer = if p.has_trailer() { 12 } else { 0 };
                    sc.sync_fault = true;
                    ctx.exec_script(out, &next("f"), &sc, 0);
                }
            }
        }
        // faults combined with the other faults (random)
        for _ in 0..(if thorough { 200 } else { 40 }) {
            let p = *rng.pick(&PULLERS);
            let zstd = if p == Puller::BeveZst || p == Puller::Beve { true } else { rng.chance(1, 3) };
            let n = 1 + rng.below(3000) as usize;
            let logical: Vec<u8> = rng.bytes(n).iter().map(|b| b | 1).collect();
            let sizes = [1 + rng.below(900) as usize, 1 + rng.below(900) as usize];
            let nch = split_at_sizes(&if zstd { zstd_of(&logical) } else { logical.clone() }, &sizes).len();
            let fault = match rng.below(4) {
                0 => Some((rng.below(nch as u64 + 1) as usize, Resp::Error)),
                1 => Some((rng.below(nch as u64 + 1) as usize, Resp::Cut)),
                _ => None,
            };
            let mut sc = make_script(p, zstd, &logical, &sizes, fault, rng.chance(1, 3));
            sc.dest = *rng.pick(&[Dest::None, Dest::Old, Dest::OldStale, Dest::Dir]);
            sc.verify_ok = !rng.chance(1, 6);
            if p.has_trailer() {
                sc.trailer = rng.below(n as u64 + 2) as usize;
            }
            sc.wfault = Some(rng.below(n as u64 + 40));
            ctx.exec_script(out, &next("w"), &sc, 0);
        }
    }

    if should_stop(out) {
        return;
    }
    if std::env::var("FAM_COMMIT_TIMING").is_ok() { eprintln!("[t] {:>6} ms  before E", T0.get_or_init(Instant::now).elapsed().as_millis()); }
    // (E) syscall traces and (F) kill points, on the scripted peer
    let mut kidx = 0u64;
    for &p in &PULLERS {
        let zstd_opts: Vec<bool> = if p == Puller::BeveZst || p == Puller::Beve { vec![true] } else if thorough || p == Puller::FileAsync { vec![false, true] } else { vec![false] };
        for zstd in zstd_opts {
            let n = 9250 + rng.below(50) as usize;
            let logical: Vec<u8> = if zstd { (0..n).map(|j| (j % 11) as u8 + 1).collect() } else { rng.bytes(n).iter().map(|b| b | 1).collect() };
            let sizes = [300usize, 8500, 100, 400];
            let nch = split_at_sizes(&if zstd { zstd_of(&logical) } else { logical.clone() }, &sizes).len();
            for dest in [Dest::Old, Dest::None] {
                let tr = if p.has_trailer() { 16 } else { 0 };
                let mut variants: Vec<Script> = vec![make_script(p, zstd, &logical, &sizes, None, dest == Dest::Old)];
                variants.push(make_script(p, zstd, &logical, &sizes, Some((nch.min(2), Resp::Cut)), false));
                variants.push(make_script(p, zstd, &logical, &sizes, Some((nch, Resp::Error)), false));
                if p.verifies() {
                    let mut s = make_script(p, zstd, &logical, &sizes, None, false);
                    s.verify_ok = false;
                    variants.push(s);
                }
                if p.has_trailer() {
                    let mut s = make_script(p, zstd, &logical[..9], &sizes, None, false);
                    s.trailer = 10;
                    variants.push(s);
                }
                for (vi, mut sc) in variants.into_iter().enumerate() {
                    sc.dest = dest;
                    if sc.trailer == 0 {
                        sc.trailer = tr;
                    }
                    ctx.exec_trace(out, &next("t"), &sc);
                    // every kill point of the complete pull; of the failing ones in the thorough tier
                    if vi == 0 || (thorough && vi <= 2) {
                        ctx.exec_kills(out, &mut kidx, &sc, 40);
                    }
                }
            }
            let mut sc = make_script(p, zstd, &logical, &sizes, None, false);
            sc.dest = Dest::Dir;
            ctx.exec_trace(out, &next("t"), &sc);
        }
    }
}

fn replay(ops: Vec<String>, out: &mut Out, ctx: &mut Ctx) {
    let mut kidx = 0u64;
    for line in ops {
        let w = words(&line);
        if w.len() < 3 {
            continue;
        }
        let idx = w[1].to_string();
        match w[0] {
            "script" => {
                if let Some((sc, _)) = Script::parse(&w[2..]) {
                    for fl in 0..3 {
                        ctx.exec_script(out, &idx, &sc, fl);
                        if sc.open != Open::Err {
                            break;
                        }
                    }
                }
            }
            "gate" => {
                if w.len() >= 9 {
                    if let (Some(a), Some(b), Some(c)) = (unhex(w[6]), unhex(w[7]), unhex(w[8])) {
                        ctx.exec_gate(out, &idx, w[2].parse().unwrap_or(0), w[3] == "zstd", w[4], w[5].parse().unwrap_or(8), &[a, b, c]);
                    }
                }
            }
            "storm" | "wsstorm" => {
                let real = if w[0] == "wsstorm" && w.len() > 5 { Some((w[2].parse().unwrap_or(1), w[3].parse().unwrap_or(1), w[4].parse().unwrap_or(16))) } else { None };
                let mut k = if real.is_some() { 5 } else { 2 };
                while k < w.len() && (w[k].starts_with("ok|") || w[k].starts_with("err|")) {
                    k += 1;
                }
                let mut steps = vec![];
                let mut rest: Vec<String> = w[k..].iter().map(|x| x.to_string()).collect();
                while !rest.is_empty() {
                    let rw: Vec<&str> = rest.iter().map(|x| x.as_str()).collect();
                    match Script::parse(&rw) {
                        Some((sc, after)) => {
                            steps.push(sc);
                            rest = after;
                        }
                        None => break,
                    }
                }
                if !steps.is_empty() {
                    ctx.exec_storm_on(out, &idx, &steps, real);
                }
            }
            "par" => {
                let mut steps = vec![];
                let mut rest: Vec<String> = w[4..].iter().map(|x| x.to_string()).collect();
                while !rest.is_empty() {
                    let rw: Vec<&str> = rest.iter().map(|x| x.as_str()).collect();
                    match Script::parse(&rw) {
                        Some((sc, after)) => {
                            steps.push(sc);
                            rest = after;
                        }
                        None => break,
                    }
                }
                if !steps.is_empty() {
                    ctx.exec_par(out, &idx, w[2].parse().unwrap_or(1), w[3] == "1", &steps);
                }
            }
            "cancel" => {
                if let Some((sc, _)) = Script::parse(&w[3..]) {
                    ctx.exec_cancel(out, &idx, w[2].parse().unwrap_or(100), &sc);
                }
            }
            "seq" => {
                let mut steps = vec![];
                let mut rest: Vec<String> = w[3..].iter().map(|x| x.to_string()).collect();
                while !rest.is_empty() {
                    let rw: Vec<&str> = rest.iter().map(|x| x.as_str()).collect();
                    match Script::parse(&rw) {
                        Some((sc, after)) => {
                            steps.push(sc);
                            rest = after;
                        }
                        None => break,
                    }
                }
                if !steps.is_empty() {
                    ctx.exec_seq(out, &idx, w[2].starts_with("old"), &steps, false);
                    ctx.exec_seq(out, &format!("{idx}b"), w[2].starts_with("old"), &steps, true);
                }
            }
            "sibling" => {
                if let Some(n) = unhex(w[2]).and_then(|b| String::from_utf8(b).ok()) {
                    ctx.exec_sibling(out, &idx, &n);
                }
            }
            "nest" => {
                if w.len() > 5 {
                    if let (Some(na), Some(nb), Some((a, rest))) = (unhex(w[2]).and_then(|b| String::from_utf8(b).ok()), unhex(w[3]).and_then(|b| String::from_utf8(b).ok()), Script::parse(&w[4..])) {
                        let rw: Vec<&str> = rest.iter().map(|x| x.as_str()).collect();
                        if let Some((b, _)) = Script::parse(&rw) {
                            ctx.exec_nest(out, &idx, &na, &nb, &a, &b);
                        }
                    }
                }
            }
            "trace" => {
                if let Some((sc, _)) = Script::parse(&w[2..]) {
                    ctx.exec_trace(out, &idx, &sc);
                }
            }
            "kill" => {
                if let Some((sc, _)) = Script::parse(&w[3..]) {
                    ctx.exec_kills(out, &mut kidx, &sc, 40);
                }
            }
            "real" => {
                if w.len() > 7 {
                    if let Some((sc, _)) = Script::parse(&w[7..]) {
                        let r = Real { dribble: w[2].split('@').find_map(|x| x.strip_prefix('d').and_then(|n| n.parse().ok())).unwrap_or(0), level: w[2].split('@').find_map(|x| x.strip_prefix('l').and_then(|n| n.parse().ok())).unwrap_or(3), slow: w[2].contains("@slow"), kind: match w[2].split('@').next().unwrap_or("") { "writer" => 1, "value" => 2, "typed" => 3, "complex" => 4, _ => 0 }, panics: w[4].starts_with('p'), chunk: w[3].parse().unwrap_or(16), fail: w[4].trim_start_matches('p').split('@').next().and_then(|x| x.parse().ok()), ekind: w[4].split('@').nth(1).map(kind_of).unwrap_or(std::io::ErrorKind::Other), depth: w[5].parse().unwrap_or(4), payload: unhex(w[6]).unwrap_or_default() };
                        ctx.exec_real(out, &idx, &r, &sc);
                    }
                }
            }
            "value" => {
                // value <i> <mode> <comp> <fmt> <open> need <N> <dec> wire …
                if w.len() >= 10 {
                    let wire: Vec<Resp> = w[10..].iter().filter_map(|x| parse_resp(x)).collect();
                    let sc = Script {
                        puller: Puller::File,
                        zstd: w[3] == "zstd",
                        beve: w[4] == "beve",
                        open: match w[5] { "ok" => Open::Ok, "err" => Open::Err, _ => Open::Cut },
                        verify_ok: true,
                        trailer: 0,
                        dest: Dest::None,
                        dec: Dec::Na,
                        wire,
                        wfault: None,
                        sync_fault: false,
                        ws: false,
                        verify_panics: false,
                        verify_kind: 0,
                        dfault: None,
                        via_ps: false,
                        style: 0,
                        wl: None,
                    };
                    ctx.exec_value(out, &idx, w[2], &sc, w[7].parse().unwrap_or(0));
                }
            }
            _ => {}
        }
    }
}

fn main() {
    let argv: Vec<String> = std::env::args().collect();
    if argv.len() > 1 && argv[1] == "child" {
        child_main(&argv[2..]);
    }
    let args = Args::parse();
    quiet_panics();
    THOROUGH.store(args.thorough(), Ordering::Relaxed);
    let mut out = Out::new(&args.out);
    out.rule = "fault scripts (chunks then last | error response at k | connection cut at k, failing open, incompatible tags, rejecting verifier, trailer longer than the stream, rename refused) for the 7 file pullers and pull_value(_async) against a scripted SVS peer and the crate's Server with failing reader/writer producers, destination pre-existing or absent, both compression settings: systematic over every k plus random sizes around io::copy's 8 KiB buffer; each traced pull runs in a child under strace (-P dest -P temp), each kill point is strace's SIGKILL injection on entry to the N-th open/write/fsync/close/rename/unlink of the two paths. Non-trivial = at least one non-empty chunk was delivered before the end of the script (every trace / kill case is)".into();
    let work = std::fs::canonicalize(&args.out).expect("out dir").join("work");
    let _ = std::fs::remove_dir_all(&work);
    std::fs::create_dir_all(&work).unwrap();
    let mut ctx = Ctx {
        rt: Arc::new(tokio::runtime::Builder::new_multi_thread().worker_threads(2).enable_all().build().unwrap()),
        fake: start_fake(),
        work: work.clone(),
        exe: std::env::current_exe().expect("current exe"),
        n: 0,
        strace_ok: strace_available(),
        last_watch: None,
        watch_reads: 0,
        last_hung: false,
        syncfault_ok: fsync_on_devnull_fails(),
        anywrite: args.thorough(),
    };
    ctx.fake.start_ws(&ctx.rt);
    entry_point_audit(&mut out);
    out.extra.insert("strace".into(), serde_json::json!(ctx.strace_ok));
    match args.replay_ops() {
        Some(ops) => replay(ops, &mut out, &mut ctx),
        None => gen_and_run(&args, &mut out, &mut ctx),
    }
    let _ = std::fs::remove_dir_all(&work);
    out.finish();
    // detached server threads must not keep the process alive
    std::process::exit(0);
}
